#!/venv/bin/python
"""Single entry point:  check.py <Cxx> [--tier quick|thorough]

Each property has a module rules/cXX.py exposing run(ctx).  Repository code is parsed,
never imported or executed.
"""
import importlib
import os
import sys

sys.dont_write_bytecode = True
HERE = os.path.dirname(os.path.abspath(__file__))
sys.path.insert(0, HERE)

from engines.common import run_property  # noqa: E402


def main(argv):
    if len(argv) < 2:
        print('usage: check.py <Cxx> [--tier quick|thorough]')
        return 2
    pid = argv[1].upper()
    tier = os.environ.get('VERIF_TIER', 'quick')
    if '--tier' in argv:
        tier = argv[argv.index('--tier') + 1]
    if tier not in ('quick', 'thorough'):
        tier = 'quick'
    try:
        mod = importlib.import_module(f'rules.{pid.lower()}')
    except ModuleNotFoundError as e:
        print(f'ANALYSIS-ERROR property={pid}: no rule module ({e})')
        return 2
    return run_property(pid, tier, mod.run)


if __name__ == '__main__':
    sys.exit(main(sys.argv))
