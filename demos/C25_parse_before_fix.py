import math
import re
from typing import Mapping, Optional, Pattern

MEMORY_REGEXPAT: str = r'[+]?((?:[0-9]*[.])?[0-9]+)([KMGTP][i]?)?B?'
MEMORY_REGEX: Pattern = re.compile(MEMORY_REGEXPAT)

CPU_REGEXPAT: str = r'[+]?((?:[0-9]*[.])?[0-9]+)([m])?'
CPU_REGEX: Pattern = re.compile(CPU_REGEXPAT)

STORAGE_REGEXPAT: str = r'[+]?((?:[0-9]*[.])?[0-9]+)([KMGTP][i]?)?B?'
STORAGE_REGEX: Pattern = re.compile(STORAGE_REGEXPAT)


def parse_cpu_in_mcpu(cpu_string: str) -> Optional[int]:
    match = CPU_REGEX.fullmatch(cpu_string)
    if match:
        number = float(match.group(1))
        if match.group(2) == 'm':
            number /= 1000
        return int(number * 1000)
    return None


conv_factor: Mapping[str, int] = {
    'K': 1000,
    'Ki': 1024,
    'M': 1000**2,
    'Mi': 1024**2,
    'G': 1000**3,
    'Gi': 1024**3,
    'T': 1000**4,
    'Ti': 1024**4,
    'P': 1000**5,
    'Pi': 1024**5,
}


def parse_memory_in_bytes(memory_string: str) -> Optional[int]:
    match = MEMORY_REGEX.fullmatch(memory_string)
    if match:
        number = float(match.group(1))
        suffix = match.group(2)
        if suffix:
            return math.ceil(number * conv_factor[suffix])
        return math.ceil(number)
    return None


def parse_storage_in_bytes(storage_string: str) -> Optional[int]:
    match = STORAGE_REGEX.fullmatch(storage_string)
    if match:
        number = float(match.group(1))
        suffix = match.group(2)
        if suffix:
            return math.ceil(number * conv_factor[suffix])
        return math.ceil(number)
    return None
