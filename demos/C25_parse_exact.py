import importlib.util, sys, random
from fractions import Fraction
def load(p,n):
    spec=importlib.util.spec_from_file_location(n,p); m=importlib.util.module_from_spec(spec); spec.loader.exec_module(m); return m
new=load('/repo/hail/python/hailtop/batch_client/parse.py','pn'); old=load('/verif/demos/C25_parse_before_fix.py','po')
assert new.parse_cpu_in_mcpu('1.001')==1001 and old.parse_cpu_in_mcpu('1.001')==1000
assert new.parse_cpu_in_mcpu('1001m')==1001 and new.parse_cpu_in_mcpu('.5')==500 and new.parse_cpu_in_mcpu('+2')==2000 and new.parse_cpu_in_mcpu('0.0005')==0
assert new.parse_memory_in_bytes('0.067G')==67000000 and old.parse_memory_in_bytes('0.067G')==67000001
assert new.parse_memory_in_bytes('1.1P')==1100000000000000
assert new.parse_storage_in_bytes('1.0000000000000000001')==2
assert new.parse_memory_in_bytes('3.75Gi')==old.parse_memory_in_bytes('3.75Gi')
random.seed(1); nd=0
for _ in range(200000):
    a=random.randint(0,5000); d=random.randint(0,4); frac=''.join(random.choice('0123456789') for _ in range(d))
    s=f'{a}.{frac}' if d else str(a)
    for suf in ['','m']:
        x,y=new.parse_cpu_in_mcpu(s+suf),old.parse_cpu_in_mcpu(s+suf)
        exact=int(Fraction(s)*(1 if suf else 1000))
        assert x==exact
        if x!=y: nd+=1; assert abs(x-y)<=1
    for suf in ['','K','Mi','G','Ti']:
        x,y=new.parse_memory_in_bytes(s+suf),old.parse_memory_in_bytes(s+suf)
        if x!=y: nd+=1; assert abs(x-y)<=1
print('ok; differences from the float version (all off-by-one corrections):',nd)
