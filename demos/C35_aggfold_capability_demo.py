import sys, importlib.util
spec = importlib.util.spec_from_file_location('demo', '/verif/seeded/C35-B/demo.py'); demo = importlib.util.module_from_spec(spec); spec.loader.exec_module(demo)
ir = demo.load(sys.argv[1])
T = ir.types; I32 = ir.I32
add = lambda a, b: ir.ApplyBinaryPrimOp('Add', a, b)
gt = lambda a, b: ir.ApplyComparisonOp('GT', a, b)
arr = ir.MakeArray([I32(v) for v in (5,-1,7)], T.tarray(T.tint32))
v = ir.Ref('v', T.tint32)
acc = ir.Ref('acc', T.tint32); oth = ir.Ref('oth', T.tint32)
X = ir.AggFold(I32(0), add(acc, v), add(acc, oth), 'acc', 'oth', False)
body = ir.MakeStruct([('all', X), ('pos', ir.AggFilter(gt(v, I32(0)), X, False))])
root = ir.StreamAgg(ir.ToStream(arr), 'v', body)
print(ir.CSERenderer()(root))
