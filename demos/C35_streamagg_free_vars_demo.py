import sys, importlib.util
spec = importlib.util.spec_from_file_location('demo', '/verif/seeded/C35-B/demo.py'); demo = importlib.util.module_from_spec(spec); spec.loader.exec_module(demo)
ir = demo.load('/repo')
T = ir.types; I32 = ir.I32
add = lambda a, b: ir.ApplyBinaryPrimOp('Add', a, b)
arr = ir.MakeArray([I32(v) for v in (1,2,3)], T.tarray(T.tint32))
c = ir.Ref('c', T.tint32); v = ir.Ref('v', T.tint32)
sa = ir.StreamAgg(ir.ToStream(arr), 'v', add(ir.ApplyAggOp('Sum', [], [v]), c))
root = ir.Let('c', I32(3), ir.MakeTuple([sa, sa]))
inl = str(root); lifted = ir.CSERenderer()(root)
print('lifted :', lifted)
print(demo.run(inl), demo.run(lifted))
bad = 0
for name, r in demo.build_cases(ir):
    a, b = demo.run(str(r)), demo.run(ir.CSERenderer()(r)); print(name, a == b); bad += a != b
sys.exit(1 if bad or demo.run(inl) != demo.run(lifted) else 0)
