"""Witness search for the C37 R5 known finding (LeveneHaldane.rightMidP > 1): a transcription of LeveneHaldane.scala\n(apply, probability, cumulativeProbability, rightMidP) operation by operation in IEEE-754 doubles.  Not part of any check: the rule\n(rules/c37.py R5) decides from the shape of the code; this only prints inputs for the demonstration text in known_findings.json."""
import itertools, math
def LH(n,nA):
    nB=2*n-nA; parity=nA%2
    x=(nA+1.0)*(nB+1)/(2*n+3)
    mode=int(2*math.floor((x-parity)/2+0.5)+parity)
    R=[];nAB=mode;p=1.0
    while nAB<=nA+2 and len(R)<5000:
        R.append(p); p=p*(nA-nAB)*(nB-nAB)/((nAB+2.0)*(nAB+1)); nAB+=2
    L=[];nAB=mode;p=1.0
    while nAB>=-2 and len(L)<5000:
        L.append(p); p=p*nAB*(nAB-1)/((nA-nAB+2.0)*(nB-nAB+2)); nAB-=2
    def tw(seq,c):
        s=0.0
        for v in seq:
            if not v>c: break
            s=s+v
        return s
    pN=tw(R,1e-16)+tw(L,1e-16)-1.0
    def prob(nAB):
        if nAB<0 or nAB>nA or nAB%2!=nA%2: return 0.0
        if nAB>=mode: return R[(nAB-mode)//2]/pN
        return L[(mode-nAB)//2]/pN
    def cum(n0,n1):
        if n0>=n1 or n0>=nA or n1<nA%2: return 0.0
        if n0>=mode:
            cutoff=R[(n0-mode)//2+1]*1e-16
            return tw(R[(n0-mode)//2+1:(n1-mode)//2+1],cutoff)/pN
        if n1<mode:
            cutoff=L[(mode-n1+1)//2]*1e-16
            return tw(L[(mode-n1+1)//2:(mode-n0+1)//2],cutoff)/pN
        c=1e-16
        return (tw(L[1:(mode-n0+1)//2],c)+tw(R[0:(n1-mode)//2+1],c))/pN
    return mode,pN,prob,cum
if __name__=='__main__':
    hits=[]
    for n in range(2,140):
        for hr in range(0,n+1):
            for het in (0,1):
                hv=n-hr-het
                if hv<hr: continue
                nA=het+2*min(hr,hv)
                if nA<0 or nA>n: continue
                mode,pN,prob,cum=LH(n,nA)
                r=cum(het,nA)+0.5*prob(het)
                if r>1.0: hits.append(((hr,het,hv),r))
    print(len(hits),hits[:10])
