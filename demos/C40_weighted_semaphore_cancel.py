import asyncio, importlib.util, sys
spec=importlib.util.spec_from_file_location('ws', sys.argv[1]); m=importlib.util.module_from_spec(spec); spec.loader.exec_module(m)
async def main():
    s=m.WeightedSemaphore(10)
    await s.acquire(10)
    t=asyncio.create_task(s.acquire(5)); await asyncio.sleep(0)
    t.cancel()
    try: await t
    except asyncio.CancelledError: pass
    s.release(10)
    assert s.value==10 and len(s.events)==0, (s.value, len(s.events))
    # cancel after grant
    await s.acquire(10)
    t=asyncio.create_task(s.acquire(5)); await asyncio.sleep(0)
    s.release(10)   # grants 5 to t (event set) but t not yet resumed
    t.cancel()
    try: await t
    except asyncio.CancelledError: pass
    assert s.value==10, s.value
    print('ok')
asyncio.run(main())
