"""Finite abstract domains evaluated exhaustively over *extracted* syntax trees.

 * predicate abstraction of Python branch structure (truth tables over opaque atoms)
 * integer interval evaluation of straight-line Python arithmetic
 * (SQL three-valued evaluation lives in sqlfront.SqlEval)

Repository code is never imported or run: these evaluators interpret `ast` nodes.
"""
from __future__ import annotations

import ast
import itertools
from typing import Any, Callable, Dict, Iterable, List, Optional, Sequence, Set, Tuple

from .common import AnalysisError, norm

# --------------------------------------------------------------------------------------
# predicate abstraction over Python statements
# --------------------------------------------------------------------------------------


def atom_key(e: ast.AST) -> str:
    return norm(ast.unparse(e))


def bool_atoms(e: ast.AST, out: Optional[List[ast.AST]] = None) -> List[ast.AST]:
    """Atoms of a boolean expression: BoolOp/Not are structure, everything else is an atom."""
    if out is None:
        out = []
    if isinstance(e, ast.BoolOp):
        for v in e.values:
            bool_atoms(v, out)
    elif isinstance(e, ast.UnaryOp) and isinstance(e.op, ast.Not):
        bool_atoms(e.operand, out)
    elif isinstance(e, ast.Constant):
        pass
    else:
        if atom_key(e) not in [atom_key(x) for x in out]:
            out.append(e)
    return out


def eval_bool(e: ast.AST, val: Callable[[ast.AST], bool]) -> bool:
    if isinstance(e, ast.BoolOp):
        if isinstance(e.op, ast.And):
            return all(eval_bool(v, val) for v in e.values)
        return any(eval_bool(v, val) for v in e.values)
    if isinstance(e, ast.UnaryOp) and isinstance(e.op, ast.Not):
        return not eval_bool(e.operand, val)
    if isinstance(e, ast.Constant):
        return bool(e.value)
    return val(e)


class Outcome:
    def __init__(self, kind: str, executed: List[ast.stmt], node: Optional[ast.stmt] = None):
        self.kind = kind  # fall | raise | return | break | continue
        self.executed = executed
        self.node = node


def walk_block(stmts: Sequence[ast.stmt], val: Callable[[ast.AST], bool], executed: Optional[List[ast.stmt]] = None) -> Outcome:
    """Execute a statement list abstractly: tests are decided by `val` on their atoms; simple statements are recorded.
    Loops / try inside the block are not supported (AnalysisError) - the anchors this is used on have none."""
    if executed is None:
        executed = []
    for st in stmts:
        if isinstance(st, ast.If):
            branch = st.body if eval_bool(st.test, val) else st.orelse
            o = walk_block(branch, val, executed)
            if o.kind != 'fall':
                return o
        elif isinstance(st, ast.Raise):
            executed.append(st)
            return Outcome('raise', executed, st)
        elif isinstance(st, ast.Return):
            executed.append(st)
            return Outcome('return', executed, st)
        elif isinstance(st, ast.Break):
            return Outcome('break', executed, st)
        elif isinstance(st, ast.Continue):
            return Outcome('continue', executed, st)
        elif isinstance(st, (ast.For, ast.While, ast.Try, ast.AsyncFor, ast.Match)):
            raise AnalysisError(f'absdom.walk_block: unsupported compound statement {type(st).__name__} at line {st.lineno}')
        elif isinstance(st, (ast.With, ast.AsyncWith)):
            executed.append(st)
            o = walk_block(st.body, val, executed)
            if o.kind != 'fall':
                return o
        else:
            executed.append(st)
    return Outcome('fall', executed)


def collect_test_atoms(stmts: Sequence[ast.stmt]) -> List[ast.AST]:
    atoms: List[ast.AST] = []
    for st in stmts:
        for n in ast.walk(st):
            if isinstance(n, ast.If):
                bool_atoms(n.test, atoms)
    # de-dup by key
    seen: Set[str] = set()
    out = []
    for a in atoms:
        k = atom_key(a)
        if k not in seen:
            seen.add(k)
            out.append(a)
    return out


def valuations(keys: Sequence[str]) -> Iterable[Dict[str, bool]]:
    for bits in itertools.product([False, True], repeat=len(keys)):
        yield dict(zip(keys, bits))


# --------------------------------------------------------------------------------------
# integer intervals
# --------------------------------------------------------------------------------------


class Interval:
    __slots__ = ('lo', 'hi')

    def __init__(self, lo: int, hi: int):
        if lo > hi:
            raise AnalysisError(f'empty interval [{lo},{hi}]')
        self.lo = lo
        self.hi = hi

    def __repr__(self) -> str:
        return f'[{self.lo},{self.hi}]'

    def __eq__(self, o: object) -> bool:
        return isinstance(o, Interval) and (self.lo, self.hi) == (o.lo, o.hi)


def _corners(a: Interval, b: Interval, f: Callable[[int, int], int]) -> Interval:
    vals = [f(x, y) for x in (a.lo, a.hi) for y in (b.lo, b.hi)]
    return Interval(min(vals), max(vals))


def eval_interval(e: ast.AST, env: Dict[str, Interval], funcs: Optional[Dict[str, Callable[..., Interval]]] = None) -> Interval:
    """Interval semantics of integer expressions built from + - * // << min max and `random.randrange(n)`.
    Monotone operators evaluated at corners (sound for the non-negative operands the callers guarantee)."""
    funcs = funcs or {}
    if isinstance(e, ast.Constant) and isinstance(e.value, int) and not isinstance(e.value, bool):
        return Interval(e.value, e.value)
    if isinstance(e, ast.Name):
        if e.id not in env:
            raise AnalysisError(f'interval evaluation: unbound name {e.id}')
        return env[e.id]
    if isinstance(e, ast.BinOp):
        a = eval_interval(e.left, env, funcs)
        b = eval_interval(e.right, env, funcs)
        if isinstance(e.op, ast.Add):
            return Interval(a.lo + b.lo, a.hi + b.hi)
        if isinstance(e.op, ast.Sub):
            return Interval(a.lo - b.hi, a.hi - b.lo)
        if isinstance(e.op, ast.Mult):
            return _corners(a, b, lambda x, y: x * y)
        if isinstance(e.op, ast.FloorDiv):
            if b.lo <= 0:
                raise AnalysisError('interval evaluation: division by a possibly non-positive value')
            return _corners(a, b, lambda x, y: x // y)
        if isinstance(e.op, ast.LShift):
            if b.lo < 0 or b.hi > 4096:
                raise AnalysisError('interval evaluation: shift amount out of range')
            return _corners(a, b, lambda x, y: x << y)
        if isinstance(e.op, ast.Pow):
            if b.lo < 0 or b.hi > 4096 or a.lo < 0:
                raise AnalysisError('interval evaluation: pow out of range')
            return _corners(a, b, lambda x, y: x**y)
        raise AnalysisError(f'interval evaluation: unsupported operator {type(e.op).__name__}')
    if isinstance(e, ast.Call):
        name = ast.unparse(e.func)
        args = [eval_interval(a, env, funcs) for a in e.args]
        if name == 'min' and len(args) >= 2 and not e.keywords:
            return Interval(min(a.lo for a in args), min(a.hi for a in args))
        if name == 'max' and len(args) >= 2 and not e.keywords:
            return Interval(max(a.lo for a in args), max(a.hi for a in args))
        if name in ('random.randrange', 'randrange') and len(args) == 1:
            if args[0].lo < 1:
                raise AnalysisError('interval evaluation: randrange of a possibly non-positive bound')
            return Interval(0, args[0].hi - 1)
        if name in ('random.randint', 'randint') and len(args) == 2:
            return Interval(args[0].lo, args[1].hi)
        if name == 'int' and len(args) == 1:
            return args[0]
        if name in funcs:
            return funcs[name](*args)
        raise AnalysisError(f'interval evaluation: unsupported call {name}')
    raise AnalysisError(f'interval evaluation: unsupported expression {ast.unparse(e)}')


def eval_straightline(fn: ast.FunctionDef, env: Dict[str, Interval]) -> Interval:
    """Evaluate a function whose body is assignments followed by a return."""
    env = dict(env)
    for st in fn.body:
        if isinstance(st, ast.Expr) and isinstance(st.value, ast.Constant):
            continue  # docstring
        if isinstance(st, ast.Assign) and len(st.targets) == 1 and isinstance(st.targets[0], ast.Name):
            env[st.targets[0].id] = eval_interval(st.value, env)
        elif isinstance(st, ast.AnnAssign) and isinstance(st.target, ast.Name) and st.value is not None:
            env[st.target.id] = eval_interval(st.value, env)
        elif isinstance(st, ast.Return) and st.value is not None:
            return eval_interval(st.value, env)
        else:
            raise AnalysisError(f'{fn.name}: not straight-line (line {st.lineno}: {type(st).__name__})')
    raise AnalysisError(f'{fn.name}: no return')
