"""absexec: abstract execution of small byte-copy routines over polynomial normal forms (engines/polysign).

The routines analysed (a file copied in parts, an exact-length read loop) compute with a handful of integers: sizes, part
numbers, offsets, a remaining-byte counter.  This module executes their *syntax tree* abstractly:

  * integer values are `Poly` over named unknowns; a case ("rem > 0, this is the last part", "n > BUFFER_SIZE") is a
    substitution of those unknowns by slack unknowns ranging over the naturals (`Exec.sub`), applied when a test has to be
    decided or an identity checked - a test whose truth is not uniform over the case is `Undecided` (an AnalysisError:
    the caller declines);
  * everything else (streams, part creators, parameters with a role) is an opaque record `Op`;
  * calls that matter are recorded as events in execution order (`open`, `read`, `write`, `append`, `invoke`, `gather`...);
  * `while` loops are not iterated: `loop_cases` executes the body once per case of the loop counter and reports, for each
    clause of an exact-length copy loop, either nothing, a refutation with the case it fails in, or Undecided.


Forks and re-division (round 4).  With `Exec.script` set (a list of choices already taken) the execution is *forkable*:
  * a test that is not uniform in the current case is not an error: the execution asks for a choice (`Fork`), the driver
    (`explore`) re-runs the function once per answer; the answer is recorded as an ASSUMPTION (`Exec.assumptions`), it is
    never used to decide anything but the very same comparison again;
  * a division of the file size by something that is not the current part size starts a new GENERATION: the divisor becomes
    the part size `P#k` of a fresh decomposition size = q#k*P#k + rem#k with its own case (one choice out of
    `Exec.rebase_cases`), and every variable that held the divisor / the size now holds `P#k` / `q#k*P#k + rem#k`.  The unknowns
    of the earlier decompositions keep their names and their meaning, so every value computed before stays valid; a value
    that still carries them afterwards is a result of a superseded division (a stale remainder, a stale part count):
    nothing relates it to the fresh decomposition but the link size == q#k*P#k + rem#k, P#k == divisor recorded in `Exec.gens`;
  * a division of anything else by a positive divisor yields an opaque quotient / remainder pair (`atom` generation):
    naturals about which nothing else is known.
Proofs (sign decisions) stay sound: they hold for every value of the unknowns, related or not.  Refutations are different:
a point of N^k is a real input only if it respects the links between the generations and the assumptions, so `refute`
only returns REALISABLE points (`real_points`: the unknowns of the first generation are free, those of later generations
are computed from the links) - when it finds none the caller declines.

Nothing from the repository is imported or run.
"""
from __future__ import annotations

import ast
import itertools
import operator
from typing import Any, Callable, Dict, Iterator, List, Optional, Sequence, Set, Tuple

from . import pyfacts as pf
from .common import AnalysisError
from .polysign import ONE, ZERO, Poly, decide, witnesses


class Undecided(AnalysisError):
    pass


class Fork(Exception):
    """The forkable execution needs a choice it has not been scripted for (caught by `explore`, never by the analysis)."""

    def __init__(self, key: str, options: Sequence[Any]):
        super().__init__(key)
        self.key = key
        self.options = list(options)


class Infeasible(Exception):
    """The chosen combination of cases contradicts itself (the superseded and the fresh decomposition cannot denote one size)."""


CANONICAL = ('q', 'P', 'rem', 's_', 'r_', 'u_', 'e_', 'c_')   # unknowns of a decomposition size = q*P + rem and the slack of its cases
OPS = {'==': operator.eq, '!=': operator.ne, '<': operator.lt, '<=': operator.le, '>': operator.gt, '>=': operator.ge}
NEG = {'==': '!=', '!=': '==', '<': '>=', '>=': '<', '>': '<=', '<=': '>'}
FLIP = {'==': '==', '!=': '!=', '<': '>', '>': '<', '<=': '>=', '>=': '<='}


def rename_poly(p: Poly, ren: Callable[[str], str]) -> Poly:
    t: Dict[Tuple[str, ...], int] = {}
    for m, c in p.t.items():
        m2 = tuple(sorted(ren(v) for v in m))
        t[m2] = t.get(m2, 0) + c
    return Poly(t)


class Op:
    """Opaque abstract value / event record."""

    def __init__(self, kind: str, **kw: Any):
        self.kind = kind
        self.d = kw

    def __getattr__(self, k: str) -> Any:
        try:
            return self.__dict__['d'][k]
        except KeyError:
            raise AttributeError(k)

    def same(self, o: Any) -> bool:
        if not isinstance(o, Op) or o.kind != self.kind or set(o.d) != set(self.d):
            return False
        return all(_same(self.d[k], o.d[k]) for k in self.d)

    def __repr__(self) -> str:
        inner = ', '.join(f'{k}={v!r}' for k, v in self.d.items() if k not in ('node',))
        return f'{self.kind}({inner})'


def _same(a: Any, b: Any) -> bool:
    if a is b:
        return True
    if isinstance(a, Op):
        return a.same(b)
    if isinstance(a, Poly) or isinstance(b, Poly):
        return isinstance(a, Poly) and isinstance(b, Poly) and a == b
    if isinstance(a, (tuple, list)) and isinstance(b, (tuple, list)):
        return len(a) == len(b) and all(_same(x, y) for x, y in zip(a, b))
    if isinstance(a, ast.AST) or isinstance(b, ast.AST):
        return False
    return a == b


CMP = {ast.Lt: '<', ast.LtE: '<=', ast.Gt: '>', ast.GtE: '>=', ast.Eq: '==', ast.NotEq: '!='}
STREAM_OPENERS = ('open', 'open_from', 'create', 'create_part', 'multi_part_create')


def bind_args(fn: pf.FuncDef, args: Sequence[Any], kwargs: Dict[str, Any], skip_self: bool = True) -> Dict[str, Any]:
    """Positional/keyword actuals -> parameter names of fn (no defaults evaluated: missing ones are absent)."""
    params = [a.arg for a in fn.args.posonlyargs + fn.args.args]
    if skip_self and params and params[0] in ('self', 'cls'):
        params = params[1:]
    if len(args) > len(params) and fn.args.vararg is None:
        raise AnalysisError(f'{fn.name}: called with {len(args)} positional arguments, takes {len(params)}')
    out = dict(zip(params, args))
    for k, v in kwargs.items():
        if k in out:
            raise AnalysisError(f'{fn.name}: argument {k} given twice')
        out[k] = v
    return out


class Exec:
    def __init__(self, m: pf.Module, fn: pf.FuncDef, env: Dict[str, Any], sub: Optional[Dict[str, Poly]] = None, label: str = ''):
        self.m = m
        self.fn = fn
        self.env: Dict[str, Any] = dict(env)
        self.sub: Dict[str, Poly] = dict(sub or {})
        self.label = label
        self.events: List[Op] = []
        self.withs: List[Any] = []
        self.handler_depth = 0
        self.loops: List[Dict[str, Any]] = []
        self.returned: List[Any] = []
        self.divmod_of: Optional[Tuple[Poly, Poly, Poly, Poly]] = None  # (dividend, divisor, quotient, remainder)
        self.call_model: Optional[Callable[['Exec', ast.Call, Any, str], Any]] = None
        self.read_len: Poly = Poly.var('L')
        self._fresh = 0
        # forkable execution (see the module docstring); all inert while script is None
        self.script: Optional[List[Any]] = None
        self.script_pos = 0
        self.trace: List[Tuple[str, Any]] = []          # (what was asked, what was chosen), in execution order
        self.assumptions: List[Tuple[str, Poly, Poly, bool, str]] = []   # (op, a, b, assumed truth, source text)
        self.gens: List[Op] = []                        # links between generations / definitions of opaque quotients
        self.rebase_cases: List[Tuple[str, Dict[str, Poly]]] = []
        self.keep: Set[str] = set()                     # unknowns that do not belong to a decomposition (buffer size ...)
        self._saved: List[Dict[str, Any]] = []          # environments put aside by try statements (follow a re-division like the live one)
        self.gen_names: Dict[str, str] = {}             # canonical unknown -> its name in the decomposition in force (identity at first)
        self.canonical_divmod: Optional[Tuple[Poly, Poly, Poly, Poly]] = None   # divmod_of in canonical names (set with rebase_cases)

    def child(self, fn: pf.FuncDef, env: Dict[str, Any], sub: Dict[str, Poly], label: str) -> 'Exec':
        """A non-forkable execution in the same world (same generations, same assumptions)."""
        ex = Exec(self.m, fn, env, sub, label)
        ex.call_model, ex.divmod_of = self.call_model, self.divmod_of
        ex.assumptions, ex.gens, ex.keep, ex.gen_names = self.assumptions, self.gens, self.keep, self.gen_names
        ex.__dict__['root'] = self.__dict__.get('root') or self
        return ex

    # ---- forks ------------------------------------------------------------------------------
    def choose(self, key: str, options: Sequence[Any]) -> Any:
        if self.script is None:
            raise Undecided(f'{self.label}: {key} is not decided by the analysis')
        if self.script_pos >= len(self.script):
            raise Fork(key, options)
        c = self.script[self.script_pos]
        self.script_pos += 1
        return c

    def assumed(self, op: str, a: Poly, b: Poly) -> Optional[bool]:
        """Truth of `a op b` as far as it follows from ONE assumption about the very same difference."""
        d = self.inst(a) - self.inst(b)
        for op2, a2, b2, t2, _ in self.assumptions:
            d2 = self.inst(a2) - self.inst(b2)
            if d2 == d:
                o2 = op2
            elif d2 == -d:
                o2 = FLIP[op2]
            else:
                continue
            if not t2:
                o2 = NEG[o2]
            allowed = [sg for sg in (-1, 0, 1) if OPS[o2](sg, 0)]   # sign classes of d the assumption leaves
            ans = {OPS[op](sg, 0) for sg in allowed}
            if len(ans) == 1:
                return ans.pop()
        return None

    # ---- deciding ---------------------------------------------------------------------------
    def inst(self, p: Poly) -> Poly:
        # substitutions may mention other case unknowns: apply until stable (bounded)
        for _ in range(4):
            q = p.subst(self.sub)
            if q == p:
                return q
            p = q
        return p

    def decide(self, op: str, a: Poly, b: Poly) -> Optional[bool]:
        return decide(op, self.inst(a), self.inst(b))

    def must(self, op: str, a: Poly, b: Poly, what: str) -> bool:
        d = self.decide(op, a, b)
        if d is None:
            d = self.assumed(op, a, b)
        if d is None and self.script is not None:
            d = bool(self.choose(f'test `{what}`', [True, False]))
            self.assumptions.append((op, a, b, d, what))
            self.trace.append(('test', f'`{what}` is {"true" if d else "false"}'))
        if d is None:
            raise Undecided(f'{self.label}: cannot decide `{what}` ({self.inst(a)!r} {op} {self.inst(b)!r}) uniformly in this case')
        return d

    # ---- expressions ------------------------------------------------------------------------
    def fresh(self, kind: str, **kw: Any) -> Op:
        self._fresh += 1
        return Op(kind, id=self._fresh, **kw)

    def ev(self, e: ast.AST) -> Any:
        if isinstance(e, ast.Constant):
            if isinstance(e.value, bool):
                return Poly.const(int(e.value))
            if isinstance(e.value, int):
                return Poly.const(e.value)
            return Op('const', value=e.value)
        if isinstance(e, ast.Await):
            return self.ev(e.value)
        if isinstance(e, ast.Name):
            if e.id in self.env:
                return self.env[e.id]
            return Op('name', name=e.id)
        if isinstance(e, ast.Attribute):
            d = pf.dotted(e)
            if d is not None and d in self.env:
                return self.env[d]
            v = self.ev(e.value)
            return Op('attr', of=v, name=e.attr)
        if isinstance(e, ast.Tuple):
            return tuple(self.ev(x) for x in e.elts)
        if isinstance(e, ast.List):
            if e.elts:
                return Op('listlit', items=[self.ev(x) for x in e.elts])
            return self.fresh('list')
        if isinstance(e, ast.UnaryOp):
            if isinstance(e.op, ast.Not):
                return Poly.const(int(not self.truth(e.operand)))
            v = self.ev(e.operand)
            if isinstance(e.op, ast.USub) and isinstance(v, Poly):
                return -v
            raise AnalysisError(f'{self.label}: unsupported unary operator in `{pf.nsrc(e)}`')
        if isinstance(e, ast.BoolOp) and not any(isinstance(x, (ast.Call, ast.Await)) for v in e.values[:-1] for x in ast.walk(v)):
            # value of `a or b` / `a and b`: the first operand that decides it, else the last (`rem or part_size`)
            for v in e.values[:-1]:
                if self.truth(v) == isinstance(e.op, ast.Or):
                    return self.ev(v)
            return self.ev(e.values[-1])
        if isinstance(e, (ast.Compare, ast.BoolOp)):
            return Poly.const(int(self.truth(e)))
        if isinstance(e, ast.IfExp):
            t = e.test
            if isinstance(t, ast.Compare) and len(t.ops) == 1 and isinstance(t.ops[0], (ast.Lt, ast.LtE, ast.Gt, ast.GtE)) \
                    and all(isinstance(x, (ast.Name, ast.Attribute)) for x in (t.left, t.comparators[0], e.body, e.orelse)):
                # `a if a < b else b` and its variants are min / max whatever the comparison says where a == b
                l, r, bo, oe = (pf.nsrc(x) for x in (t.left, t.comparators[0], e.body, e.orelse))
                lv, rv = self.ev(t.left), self.ev(t.comparators[0])
                if {bo, oe} == {l, r} and l != r and isinstance(lv, Poly) and isinstance(rv, Poly):
                    less = isinstance(t.ops[0], (ast.Lt, ast.LtE))
                    return self._pick('min' if (bo == l) == less else 'max', [lv, rv], pf.nsrc(e), [l, r])
            return self.ev(e.body if self.truth(e.test) else e.orelse)
        if isinstance(e, ast.BinOp):
            a, b = self.ev(e.left), self.ev(e.right)
            if not (isinstance(a, Poly) and isinstance(b, Poly)):
                return Op('expr', src=pf.nsrc(e))
            if isinstance(e.op, ast.Add):
                return a + b
            if isinstance(e.op, ast.Sub):
                return a - b
            if isinstance(e.op, ast.Mult):
                return a * b
            if isinstance(e.op, (ast.FloorDiv, ast.Mod)):
                qr = self._divmod(a, b, pf.nsrc(e))
                return qr[0] if isinstance(e.op, ast.FloorDiv) else qr[1]
            if isinstance(e.op, ast.Div):
                return Op('truediv', a=a, b=b, src=pf.nsrc(e))   # only int(), math.floor(), math.ceil() make an integer of it again
            raise AnalysisError(f'{self.label}: unsupported arithmetic `{pf.nsrc(e)}`')
        if isinstance(e, ast.Call):
            return self.ev_call(e)
        if isinstance(e, (ast.ListComp, ast.GeneratorExp)):
            return Op('comp', node=e, env=dict(self.env))
        if isinstance(e, ast.Starred):
            return Op('starred', value=self.ev(e.value))
        if isinstance(e, ast.JoinedStr):
            return Op('const', value='<f-string>')
        return Op('expr', src=pf.nsrc(e))

    def _divmod(self, a: Poly, b: Poly, src: str) -> Tuple[Poly, Poly]:
        if self.divmod_of is not None and a == self.divmod_of[0] and b == self.divmod_of[1]:
            return self.divmod_of[2], self.divmod_of[3]
        if a.is_const() and b.is_const() and b.const_value() != 0:
            q, r = divmod(a.const_value(), b.const_value())
            return Poly.const(q), Poly.const(r)
        if self.divmod_of is not None:
            size, P, qv, rv = self.divmod_of
            if b == P:
                r = self._by_part_size(a, src)
                if r is not None:
                    return r
            elif self.script is not None and self.rebase_cases:
                # the file size (or its ceiling idioms -size, size + d - 1) divided by something else: a fresh decomposition
                shape = 'size' if a == size else 'neg' if a == -size else 'ceil' if a == size + b - ONE else None
                if shape is not None:
                    if self.decide('>=', b, ONE) is not True:
                        if self.decide('<=', b, ZERO) is True:
                            raise Infeasible(f'{self.label}: `{src}` divides by {self.inst(b)!r}')
                        raise Undecided(f'{self.label}: the divisor of `{src}` ({self.inst(b)!r}) is not known to be positive')
                    self.rebase(b, src)
                    size, P = self.divmod_of[0], self.divmod_of[1]
                    a2 = {'size': size, 'neg': -size, 'ceil': size + P - ONE}[shape]
                    r = self._by_part_size(a2, src) if shape != 'size' else (self.divmod_of[2], self.divmod_of[3])
                    if r is not None:
                        return r
        if self.script is not None and self.decide('>=', b, ONE) is True and (self.decide('>=', a, ZERO) is True or self.decide('<=', a, ZERO) is True):
            return self._opaque_division(a, b, src)
        raise AnalysisError(f'{self.label}: division `{src}` is not the recognised division of the file size by the part size')

    def _by_part_size(self, a: Poly, src: str) -> Optional[Tuple[Poly, Poly]]:
        """a // P and a % P for a = m*P + t with 0 <= t < P decided in the current case (size + P - 1, -size, size - 1 ...)."""
        P = self.divmod_of[1]  # type: ignore[index]
        pn = P.unknowns()
        if len(pn) != 1 or P != Poly.var(pn[0]):
            return None
        x = pn[0]
        m0: Dict[Tuple[str, ...], int] = {}
        t0: Dict[Tuple[str, ...], int] = {}
        for mono, c in a.t.items():
            if x in mono:
                rest = list(mono)
                rest.remove(x)
                m0[tuple(rest)] = m0.get(tuple(rest), 0) + c
            else:
                t0[mono] = c
        m, t = Poly(m0), Poly(t0)
        for j in (0, -1, 1, -2, 2):
            tj = t - Poly.const(j) * P
            if self.decide('>=', tj, ZERO) is True and self.decide('<', tj, P) is True:
                return m + Poly.const(j), tj
        return None

    def _opaque_division(self, a: Poly, b: Poly, src: str) -> Tuple[Poly, Poly]:
        """Quotient and remainder of a division the decomposition says nothing about: two naturals defined by the link (a, b); the only
        case split is remainder = 0 / > 0.  A non-positive dividend -x is reduced to x (floor(-x/b) = -ceil(x/b))."""
        neg = self.decide('>=', a, ZERO) is not True
        x = -a if neg else a
        k = len(self.gens) + 1
        qn, rn, sn = f'dq{k}', f'dr{k}', f'dr{k}_'
        pos = self.choose(f'remainder of `{src}`', [False, True])
        self.trace.append(('atom', f'`{src}` leaves {"a" if pos else "no"} remainder'))
        self.sub[rn] = ONE + Poly.var(sn) if pos else ZERO
        if not pos and self.decide('>=', x, ONE) is True:
            self.sub[qn] = ONE + Poly.var(qn + '_')     # a positive number divided without remainder: the quotient is positive
        self.gens.append(Op('gen', what='atom', k=k, size=x, div=b, q=qn, P=None, rem=rn, src=src))
        qv, rv = Poly.var(qn), Poly.var(rn)
        if not neg:
            return qv, rv
        return (-qv - ONE, b - rv) if pos else (-qv, ZERO)

    # ---- generations ------------------------------------------------------------------------
    def cur(self, p: Poly) -> Poly:
        """A normal form written with the canonical unknowns (q, P, rem, s_, r_, u_, e_, c_) in the names of the decomposition in force."""
        return rename_poly(p, lambda n: self.gen_names.get(n, n))

    def generation(self, name: str) -> Optional[int]:
        """The decomposition an unknown belongs to (1 = the original one); None for unknowns that belong to none (buffer size, opaque quotients)."""
        if '#' in name:
            return int(name.rsplit('#', 1)[1])
        if name in self.keep or name.startswith(('dq', 'dr')):
            return None
        return 1

    def current_generation(self) -> int:
        return 1 + sum(1 for g in self.gens if g.what == 'size')

    def is_stale(self, p: Poly) -> bool:
        k = self.current_generation()
        return any(self.generation(u) not in (None, k) for u in p.unknowns())

    def rebase(self, b: Poly, src: str) -> None:
        """Start a new generation: the size is from now on decomposed by `b` (see the module docstring).  The unknowns of the decompositions
        so far keep their names and their meaning (values already computed stay valid); the fresh decomposition gets names tagged #k."""
        size, P, qv, rv = self.divmod_of  # type: ignore[misc]
        if self.canonical_divmod is None:
            self.canonical_divmod = self.divmod_of
        desc, csub = self.choose(f'case of the division `{src}`', self.rebase_cases)
        k = self.current_generation() + 1
        names = {n: f'{n}#{k}' for n in CANONICAL}

        def ren(n: str) -> str:
            return names.get(n, n)
        self.gens.append(Op('gen', what='size', k=k, size=size, div=b, q=names['q'], P=names['P'], rem=names['rem'], src=src))
        new = tuple(rename_poly(p, ren) for p in self.canonical_divmod)
        for env in (self.env, *self._saved):
            for name, v in list(env.items()):
                if isinstance(v, Poly):
                    if v == b:
                        env[name] = new[1]
                    elif v == size:
                        env[name] = new[0]
        for n, v in csub.items():
            self.sub[ren(n)] = rename_poly(v, ren)
        self.divmod_of = new  # type: ignore[assignment]
        self.gen_names = names
        self.trace.append(('division', f'size re-divided by `{src}`: {desc}'))
        # the two decompositions denote one number, the fresh part size is the divisor: drop combinations that cannot
        if self.decide('==', size, new[0]) is False or self.decide('==', b, new[1]) is False:
            raise Infeasible(f'{self.label}: {desc} contradicts the superseded decomposition')

    def _pick(self, name: str, vals: List[Poly], src: str, srcs: Optional[List[str]] = None) -> Any:
        best, bi = vals[0], 0
        for vi, v in enumerate(vals[1:], 1):
            op = '<=' if name == 'min' else '>='
            d = self.decide(op, v, best)
            if d is None and self.decide(op, best, v) is True:
                d = False   # the candidate so far is at least as good everywhere in this case (equal where the order is not strict)
            if d is None and self.script is not None:
                d = self.must(op, v, best, f'{srcs[vi]} {op} {srcs[bi]}' if srcs else f'{self.inst(v)!r} {op} {self.inst(best)!r} in {src}')
            if d is None:
                return Op('expr', src=src)  # not uniform in this case: only an error if somebody needs the value
            if d:
                best, bi = v, vi
        return best

    def ev_call(self, e: ast.Call) -> Any:
        name = pf.dotted(e.func)
        if name == 'divmod' and len(e.args) == 2:
            a, b = self.ev(e.args[0]), self.ev(e.args[1])
            if isinstance(a, Poly) and isinstance(b, Poly):
                return self._divmod(a, b, pf.nsrc(e))
        if name in ('min', 'max') and len(e.args) >= 2 and not e.keywords:
            vals = [self.ev(a) for a in e.args]
            if all(isinstance(v, Poly) for v in vals):
                return self._pick(name, vals, pf.nsrc(e), [pf.nsrc(a) for a in e.args])
        if name == 'len' and len(e.args) == 1:
            v = self.ev(e.args[0])
            if isinstance(v, Op) and v.kind == 'buf':
                return v.L
            return Op('expr', src=pf.nsrc(e))
        if name in ('int', 'math.floor', 'floor', 'math.ceil', 'ceil') and len(e.args) == 1:
            v = self.ev(e.args[0])
            if isinstance(v, Op) and v.kind == 'truediv':
                # exact for the magnitudes at hand only in the integers: treated as the integer floor / ceiling of the quotient
                if name in ('math.ceil', 'ceil'):
                    return -self._divmod(-v.a, v.b, pf.nsrc(e))[0]
                if name == 'int' and self.decide('>=', v.a, ZERO) is not True:
                    raise AnalysisError(f'{self.label}: `{pf.nsrc(e)}` truncates a quotient whose sign is not known')
                return self._divmod(v.a, v.b, pf.nsrc(e))[0]
            if name != 'int' and not isinstance(v, Poly):
                return Op('expr', src=pf.nsrc(e))
            return v
        if name == 'bool' and len(e.args) == 1:
            return Poly.const(int(self.truth(e.args[0])))
        if name in ('cast', 'typing.cast') and len(e.args) == 2:
            return self.ev(e.args[1])
        if name == 'range' and 1 <= len(e.args) <= 2 and not e.keywords:
            lo = self.ev(e.args[0]) if len(e.args) == 2 else ZERO
            return Op('range', lo=lo, hi=self.ev(e.args[-1]))
        if name in ('functools.partial', 'partial') and e.args:
            return Op('partial', target=e.args[0], args=[self.ev(a) for a in e.args[1:]], kwargs={k.arg: self.ev(k.value) for k in e.keywords})
        recv = self.ev(e.func.value) if isinstance(e.func, ast.Attribute) else None
        attr = e.func.attr if isinstance(e.func, ast.Attribute) else (name or '')
        if self.call_model is not None:
            r = self.call_model(self, e, recv, attr)
            if r is not NotImplemented:
                return r
        return self.default_call(e, recv, attr)

    def _arg(self, e: ast.Call, pos: int, kw: str) -> Any:
        for k in e.keywords:
            if k.arg == kw:
                return self.ev(k.value)
        if pos < len(e.args) and not isinstance(e.args[pos], ast.Starred):
            return self.ev(e.args[pos])
        return None

    def default_call(self, e: ast.Call, recv: Any, attr: str) -> Any:
        if attr in ('read', 'readexactly') and recv is not None:
            k = self._arg(e, 0, 'n')
            exact = attr == 'readexactly'
            if k is not None and not isinstance(k, Poly):
                raise AnalysisError(f'{self.label}: read count `{pf.nsrc(e)}` is not an integer expression')
            buf = self.fresh('buf', stream=recv, k=k, exact=exact, L=(k if exact and k is not None else self.read_len), node=e)
            self.events.append(Op('read', buf=buf, node=e, alt=self.handler_depth))
            return buf
        if attr == 'write' and recv is not None and len(e.args) == 1:
            data = self.ev(e.args[0])
            self.events.append(Op('sink', how='write', target=recv, data=data, node=e, alt=self.handler_depth))
            return data.L if isinstance(data, Op) and data.kind == 'buf' else Op('expr', src=pf.nsrc(e))
        if attr == 'append' and recv is not None and len(e.args) == 1:
            data = self.ev(e.args[0])
            self.events.append(Op('sink', how='append', target=recv, data=data, node=e, alt=self.handler_depth))
            return Op('const', value=None)
        if attr == 'join' and recv is not None and len(e.args) == 1:
            return Op('join', sep=recv, seq=self.ev(e.args[0]))
        if attr == 'open' and recv is not None:
            v = Op('open', src=self._arg(e, 0, 'url'), node=e)
            self.events.append(Op('opened', stream=v, alt=self.handler_depth))
            return v
        if attr == 'open_from' and recv is not None:
            v = Op('open_from', src=self._arg(e, 0, 'url'), start=self._arg(e, 1, 'start'), length=self._arg(e, 2, 'length'), node=e)
            self.events.append(Op('opened', stream=v, alt=self.handler_depth))
            return v
        if attr == 'create' and recv is not None:
            v = Op('create', dest=self._arg(e, 0, 'url'))
            self.events.append(Op('opened', stream=v, node=e, alt=self.handler_depth))
            return v
        if attr == 'multi_part_create' and recv is not None:
            v = Op('mpc', dest=self._arg(e, 1, 'url'), n=self._arg(e, 2, 'num_parts'))
            self.events.append(Op('opened', stream=v, node=e, alt=self.handler_depth))
            return v
        if attr == 'create_part' and recv is not None:
            v = Op('create_part', pc=recv, number=self._arg(e, 0, 'number'), start=self._arg(e, 1, 'start'), size_hint=self._arg(e, 2, 'size_hint'), node=e)
            self.events.append(Op('opened', stream=v, alt=self.handler_depth))
            return v
        # evaluate arguments for their events (nested reads etc.), then forget
        for a in e.args:
            self.ev(a.value if isinstance(a, ast.Starred) else a)
        for k in e.keywords:
            self.ev(k.value)
        return Op('call', src=pf.nsrc(e), node=e)

    def truth(self, e: ast.AST) -> bool:
        if isinstance(e, ast.BoolOp):
            if isinstance(e.op, ast.And):
                for v in e.values:
                    if not self.truth(v):
                        return False
                return True
            for v in e.values:
                if self.truth(v):
                    return True
            return False
        if isinstance(e, ast.UnaryOp) and isinstance(e.op, ast.Not):
            return not self.truth(e.operand)
        if isinstance(e, ast.Constant):
            return bool(e.value)
        if isinstance(e, ast.Compare) and len(e.ops) == 1:
            a, b = self.ev(e.left), self.ev(e.comparators[0])
            op = e.ops[0]
            if isinstance(a, Poly) and isinstance(b, Poly) and type(op) in CMP:
                return self.must(CMP[type(op)], a, b, pf.nsrc(e))
            if isinstance(op, (ast.Is, ast.IsNot)) and isinstance(b, Op) and b.kind == 'const' and b.value is None:
                is_none = isinstance(a, Op) and a.kind == 'const' and a.value is None
                if isinstance(a, Poly) or (isinstance(a, Op) and a.kind in ('const', 'buf', 'open', 'open_from', 'create', 'create_part', 'mpc')):
                    return is_none if isinstance(op, ast.Is) else not is_none
            raise Undecided(f'{self.label}: test `{pf.nsrc(e)}` is not a comparison of integer expressions')
        v = self.ev(e)
        if isinstance(v, Poly):
            return self.must('!=', v, ZERO, pf.nsrc(e))
        if isinstance(v, Op) and v.kind == 'buf':
            return self.must('!=', v.L, ZERO, pf.nsrc(e))
        if isinstance(v, Op) and v.kind == 'const':
            return bool(v.value)
        raise Undecided(f'{self.label}: truth of `{pf.nsrc(e)}` is not decided by the analysis')

    # ---- statements -------------------------------------------------------------------------
    def run(self) -> str:
        return self.block(self.fn.body)

    def block(self, stmts: Sequence[ast.stmt]) -> str:
        for st in stmts:
            r = self.stmt(st)
            if r != 'fall':
                return r
        return 'fall'

    def _bind(self, target: ast.AST, v: Any) -> None:
        if isinstance(target, ast.Name):
            self.env[target.id] = v
        elif isinstance(target, (ast.Tuple, ast.List)):
            if not isinstance(v, tuple) or len(v) != len(target.elts):
                raise AnalysisError(f'{self.label}: cannot unpack `{pf.nsrc(target)}`')
            for t, x in zip(target.elts, v):
                self._bind(t, x)
        else:
            raise AnalysisError(f'{self.label}: unsupported assignment target `{pf.nsrc(target)}`')

    def stmt(self, st: ast.stmt) -> str:
        if isinstance(st, ast.Expr):
            if not isinstance(st.value, ast.Constant):
                self.ev(st.value)
            return 'fall'
        if isinstance(st, ast.Assign):
            v = self.ev(st.value)
            for t in st.targets:
                self._bind(t, v)
            return 'fall'
        if isinstance(st, ast.AnnAssign):
            if st.value is not None:
                self._bind(st.target, self.ev(st.value))
            return 'fall'
        if isinstance(st, ast.AugAssign):
            if not isinstance(st.target, ast.Name):
                raise AnalysisError(f'{self.label}: unsupported augmented assignment `{pf.nsrc(st)}`')
            cur, v = self.env.get(st.target.id), self.ev(st.value)
            if isinstance(cur, Poly) and isinstance(v, Poly) and isinstance(st.op, (ast.Add, ast.Sub, ast.Mult)):
                self.env[st.target.id] = cur + v if isinstance(st.op, ast.Add) else (cur - v if isinstance(st.op, ast.Sub) else cur * v)
            else:
                self.env[st.target.id] = Op('expr', src=pf.nsrc(st))
            return 'fall'
        if isinstance(st, ast.If):
            return self.block(st.body if self.truth(st.test) else st.orelse)
        if isinstance(st, ast.Return):
            self.returned.append(self.ev(st.value) if st.value is not None else None)
            return 'return'
        if isinstance(st, ast.Raise):
            self.events.append(Op('raise', node=st, alt=self.handler_depth))
            return 'raise'
        if isinstance(st, (ast.Assert, ast.Pass, ast.Global, ast.Nonlocal, ast.Import, ast.ImportFrom)):
            return 'fall'
        if isinstance(st, (ast.FunctionDef, ast.AsyncFunctionDef)):
            self.env[st.name] = Op('closure', node=st)
            return 'fall'
        if isinstance(st, (ast.With, ast.AsyncWith)):
            n = 0
            for item in st.items:
                v = self.ev(item.context_expr)
                if item.optional_vars is not None:
                    self._bind(item.optional_vars, v)
                self.withs.append(v)
                n += 1
            try:
                return self.block(st.body)
            finally:
                del self.withs[len(self.withs) - n:]
        if isinstance(st, ast.Try):
            env0 = dict(self.env)
            self._saved.append(env0)
            try:
                r = self.block(st.body)
            finally:
                self._saved.pop()
            merged = self.env
            for h in st.handlers:
                self.env = dict(env0)
                if h.name:
                    self.env[h.name] = Op('exception')
                self.handler_depth += 1
                try:
                    rh = self.block(h.body)
                except AnalysisError:
                    # the handler is an alternative path we cannot follow: whatever it assigns is unknown afterwards
                    rh = 'fall'
                    self.env = dict(env0)
                    for nm in _assigned_names(h.body):
                        self.env[nm] = Op('conflict', name=nm)
                finally:
                    self.handler_depth -= 1
                if rh == 'fall':
                    keys = set(merged) | set(self.env)
                    merged = {k: (merged[k] if k in merged and k in self.env and _same(merged[k], self.env[k]) else Op('conflict', name=k)) for k in keys}
            self.env = merged
            if st.orelse and r == 'fall':
                r = self.block(st.orelse)
            if st.finalbody:
                rf = self.block(st.finalbody)
                if rf != 'fall':
                    return rf
            return r
        if isinstance(st, ast.While):
            return self.on_while(st)
        if isinstance(st, ast.Break):
            return 'break'
        if isinstance(st, ast.Continue):
            return 'continue'
        raise AnalysisError(f'{self.label}: unsupported statement {type(st).__name__} at line {st.lineno}')

    # ---- loops ------------------------------------------------------------------------------
    def on_while(self, loop: ast.While) -> str:
        info = loop_cases(self, loop)
        self.loops.append(info)
        return 'fall'


def _assigned_names(stmts: Sequence[ast.stmt]) -> List[str]:
    out: List[str] = []
    for st in stmts:
        for n in ast.walk(st):
            if isinstance(n, (ast.Assign, ast.AugAssign, ast.AnnAssign)):
                ts = n.targets if isinstance(n, ast.Assign) else [n.target]
                for t in ts:
                    for x in ast.walk(t):
                        if isinstance(x, ast.Name) and x.id not in out:
                            out.append(x.id)
    return out


def _describe(ex: Exec, unknowns: Sequence[str], point: Dict[str, int]) -> str:
    return ', '.join(f'{u}={ex.inst(Poly.var(u)).at(point)}' for u in unknowns)


def refute(ex: Exec, op: str, a: Poly, b: Poly, guards: Sequence[Poly] = ()) -> Optional[Dict[str, int]]:
    """A REALISABLE valuation of the unknowns (all guards >= 0 there) at which `a op b` is false, else None.  Without generations and
    assumptions every point of N^k is realisable; otherwise see `real_points`."""
    ia, ib = ex.inst(a), ex.inst(b)
    gs = [ex.inst(g) for g in guards]
    unk = set(ia.unknowns()) | set(ib.unknowns())
    for g in gs:
        unk |= set(g.unknowns())
    f = OPS[op]
    for pt in real_points(ex, unk):
        if all(g.at(pt) >= 0 for g in gs) and not f(ia.at(pt), ib.at(pt)):
            return pt
    return None


def _lower_bounds(ex: Exec) -> Dict[str, int]:
    """Lower bounds on single unknowns that the assumptions force (u_ >= 9998 for `3 + u_ > 10000`): where the small witnesses start."""
    lb: Dict[str, int] = {}
    for op, a, b, t, _ in ex.assumptions:
        if not t:
            op = NEG[op]
        d = ex.inst(a) - ex.inst(b)
        if op in ('<', '<='):
            d, op = -d, FLIP[op]
        if op not in ('>', '>='):
            continue
        unk = d.unknowns()
        if len(unk) != 1 or set(d.t) - {(), (unk[0],)}:
            continue
        c, k = d.t.get((unk[0],), 0), d.const_value()
        if c <= 0:
            continue
        need = (1 if op == '>' else 0) - k          # c*x >= need
        if need > 0:
            lb[unk[0]] = max(lb.get(unk[0], 0), -(-need // c))
    return lb


class _Solver:
    """Values of unknowns that are defined by equations (the case substitutions `q#2 = 2 + u_#2`, `u_#2 = shift + c_#2 + e_#2`): given the
    value of the left-hand side, the unknowns on the right are computed (all but one enumerated over 0..2 when there are several)."""

    def __init__(self, ex: Exec):
        self.ex = ex
        self._inst: Dict[str, Poly] = {}

    def inst_var(self, n: str) -> Poly:
        if n not in self._inst:
            self._inst[n] = self.ex.inst(Poly.var(n))
        return self._inst[n]

    def known(self, pt: Dict[str, int], n: str) -> Optional[int]:
        if n in self.ex.sub:
            p = self.inst_var(n)
            for u in p.unknowns():
                if u not in pt:
                    return None
            return p.at(pt)
        return pt.get(n)

    def assign(self, pt: Dict[str, int], n: str, value: int) -> Iterator[Dict[str, int]]:
        if value < 0:
            return
        if n in self.ex.sub:
            yield from self.assign_poly(pt, self.ex.sub[n], value)
        elif n in pt:
            if pt[n] == value:
                yield pt
        else:
            p2 = dict(pt)
            p2[n] = value
            yield p2

    def assign_poly(self, pt: Dict[str, int], poly: Poly, value: int) -> Iterator[Dict[str, int]]:
        unk = [u for u in poly.unknowns() if self.known(pt, u) is None]
        if not unk:
            vals = {u: self.known(pt, u) for u in poly.unknowns()}
            if poly.at(vals) == value:  # type: ignore[arg-type]
                yield pt
            return
        x = unk[-1]
        if any(x in mono and mono != (x,) for mono in poly.t):
            return
        c = poly.t[(x,)]
        lin = poly - Poly({(x,): c})

        def rest(pt1: Dict[str, int], others: List[str]) -> Iterator[Dict[str, int]]:
            if not others:
                vals = {u: self.known(pt1, u) for u in lin.unknowns()}
                r = value - lin.at(vals)  # type: ignore[arg-type]
                if r % c == 0:
                    yield from self.assign(pt1, x, r // c)
                return
            for v in (0, 1, 2):
                for pt2 in self.assign(pt1, others[0], v):
                    yield from rest(pt2, others[1:])
        yield from rest(pt, unk[:-1])


def _closure(ex: Exec, names: Set[str]) -> Set[str]:
    out: Set[str] = set()
    todo = list(names)
    while todo:
        n = todo.pop()
        if n in out:
            continue
        out.add(n)
        if n in ex.sub:
            todo.extend(ex.sub[n].unknowns())
    return out


def _root_points(root: Exec, limit: int = 729) -> List[Dict[str, int]]:
    """The realisable points of a finished execution (computed once): the unknowns of the ORIGINAL decomposition and the shared ones are free
    naturals; the unknowns of every later generation / opaque division are computed from its link (quotient and remainder of the dividend by
    the divisor, both evaluated at the point) - a point whose computed values fall outside the case being analysed is dropped, and so is a
    point that contradicts an assumption made at a fork.  Ordinary integer evaluation of normal forms, used for witnesses only."""
    stamp = (len(root.gens), len(root.assumptions), len(root.sub))
    cached = root.__dict__.get('_points')
    if cached is not None and cached[0] == stamp:
        return cached[1]
    ex, gens, sv = root, root.gens, _Solver(root)
    roots: Set[str] = set(ex.sub)
    for g in gens:
        roots |= set(g.size.unknowns()) | set(g.div.unknowns())
    for _, a, b, _, _ in ex.assumptions:
        roots |= set(a.unknowns()) | set(b.unknowns())
    solved = _closure(ex, {g.d[key] for g in gens for key in ('q', 'P', 'rem') if g.d[key] is not None})   # computed from the links
    free = sorted(n for n in _closure(ex, roots) if n not in ex.sub and n not in solved)
    lb = _lower_bounds(ex)
    links = [(g, ex.inst(g.size), ex.inst(g.div)) for g in gens]
    asm = [(op, ex.inst(a), ex.inst(b), t) for op, a, b, t, _ in ex.assumptions]
    # second round, only when no small point is realisable at all: values next to the constants the links and assumptions mention
    # (a fork `size > 1024 * part_size`, a divisor 10000) for the unknowns that occur next to them
    consts: Set[int] = set()
    near: Set[str] = set()
    for p in [ia - ib for _, ia, ib, _ in asm] + [di for _, _, di in links] + [si for _, si, _ in links]:
        big = {abs(c) for c in p.t.values() if abs(c) >= 3}
        if big:
            consts |= big
            near |= set(p.unknowns())
    consts = set(sorted(consts)[-2:])

    def through(pt: Dict[str, int], i: int) -> Iterator[Dict[str, int]]:
        if i == len(links):
            yield pt
            return
        g, si, di = links[i]
        for u in si.unknowns() + di.unknowns():
            if u not in pt:
                return
        sval, dval = si.at(pt), di.at(pt)
        if dval < 1 or sval < 0:
            return
        qv, rv = divmod(sval, dval)
        targets = [(g.rem, rv)] + ([(g.P, dval)] if g.P is not None else []) + [(g.q, qv)]

        def go(pt1: Dict[str, int], ts: List[Tuple[str, int]]) -> Iterator[Dict[str, int]]:
            if not ts:
                yield from through(pt1, i + 1)
                return
            for pt2 in sv.assign(pt1, ts[0][0], ts[0][1]):
                yield from go(pt2, ts[1:])
        yield from go(pt, targets)

    def holds(pt: Dict[str, int]) -> bool:
        for op, ia, ib, t in asm:
            for u in ia.unknowns() + ib.unknowns():
                if u not in pt:
                    return False
            if OPS[op](ia.at(pt), ib.at(pt)) != t:
                return False
        return True

    out: List[Dict[str, int]] = []
    for rnd in (0, 1):
        if rnd == 0:
            cands = [[lb.get(n, 0) + d for d in (0, 1, 2)] for n in free]
        else:
            if out or not consts:
                break
            cands = [sorted({lb.get(n, 0) + d for d in (0, 1, 2)} | ({max(0, c + d) for c in consts for d in (-3, -2, -1, 0, 1)} if n in near else set())) for n in free]
        combos = sorted(itertools.product(*[range(len(c)) for c in cands]), key=lambda c: (sum(c), c))[:limit if rnd == 0 else 12000]
        for combo in combos:
            pt0 = {n: cands[j][combo[j]] for j, n in enumerate(free)}
            for pt in through(pt0, 0):
                if holds(pt):
                    out.append(pt)
            if len(out) >= (limit if rnd == 0 else 40):
                break
    root.__dict__['_points'] = (stamp, out)
    return out


def real_points(ex: Exec, want: Set[str], limit: int = 729) -> Iterator[Dict[str, int]]:
    """Valuations of (at least) the unknowns `want` that are real inputs.  Without generations and assumptions: the small points of N^k.
    Otherwise the realisable points of the finished execution this one belongs to (`_root_points`), extended to the unknowns that this
    execution defines differently (the part-kind encodings u_ = shift + c_ + e_) or that are free here."""
    root = ex.__dict__.get('root') or ex
    if not root.gens and not root.assumptions:
        yield from witnesses(want, limit=limit)
        return
    sv = _Solver(ex)
    redefined = [n for n in ex.sub if n not in root.sub or root.sub[n] != ex.sub[n]]
    n_out = 0
    for base in _root_points(root):
        pts: List[Dict[str, int]] = [dict(base)]
        for n in redefined:
            if n in base:
                v = base[n]
                nxt: List[Dict[str, int]] = []
                for pt in pts:
                    pt = {k: x for k, x in pt.items() if k != n}
                    nxt.extend(sv.assign_poly(pt, ex.sub[n], v))
                pts = nxt
        for pt in pts:
            loose = sorted(u for u in _closure(ex, set(want)) if u not in ex.sub and u not in pt)
            for combo in itertools.product((0, 1, 2), repeat=len(loose)):
                p2 = dict(pt)
                p2.update(zip(loose, combo))
                yield p2
                n_out += 1
                if n_out >= limit:
                    return


def explore(make: Callable[[List[Any]], Exec], limit: int = 600) -> Iterator[Tuple[Exec, str]]:
    """Run a forkable execution once per combination of choices: (finished execution, how it ended).  Combinations that contradict
    themselves are dropped."""
    pending: List[List[Any]] = [[]]
    runs = 0
    while pending:
        script = pending.pop()
        runs += 1
        if runs > limit:
            raise Undecided(f'more than {limit} combinations of cases')
        ex = make(script)
        ex.script = list(script)
        try:
            status = ex.run()
        except Fork as f:
            pending.extend(script + [o] for o in reversed(f.options))
            continue
        except Infeasible:
            continue
        yield ex, status


def _refutations(ex: Exec, op: str, a: Poly, b: Poly):
    import operator
    ia, ib = ex.inst(a), ex.inst(b)
    f = {'==': operator.eq, '!=': operator.ne, '<': operator.lt, '<=': operator.le, '>': operator.gt, '>=': operator.ge}[op]
    for pt in witnesses(set(ia.unknowns()) | set(ib.unknowns())):
        if not f(ia.at(pt), ib.at(pt)):
            yield pt


def _test_at(ex: Exec, loop: ast.While, counter: str, value: Poly) -> Optional[bool]:
    """Truth of the loop test with the counter bound to `value` (None when not uniform in the current case)."""
    keep = ex.env.get(counter)
    ex.env[counter] = value
    try:
        return ex.truth(loop.test)
    except Undecided:
        return None
    finally:
        ex.env[counter] = keep


def loop_cases(ex: Exec, loop: ast.While) -> Dict[str, Any]:
    """Analyse `while <test>: <body>` as a byte-copy loop.  Two shapes:
      counted:  a remaining-byte counter n tested by the loop, each iteration reads k bytes and passes them on, n decreases
      eof:      `while True`, each iteration reads a chunk and passes it on, leaves the loop when the chunk is empty
    Returns dict(kind, counter, n0, problems=[(clause, message)], holds=[clause...], facts...)."""
    label = ex.label
    if loop.orelse:
        raise AnalysisError(f'{label}: while/else not analysed')
    assigned = _assigned_names(loop.body)
    tnames = pf.names_in(loop.test)
    counters = [n for n in assigned if n in tnames and isinstance(ex.env.get(n), Poly)]
    const_true = isinstance(loop.test, ast.Constant) and bool(loop.test.value)
    saved_env, saved_sub, saved_events = dict(ex.env), dict(ex.sub), list(ex.events)
    problems: List[Tuple[str, str]] = []
    holds: List[str] = []
    info: Dict[str, Any] = {'node': loop, 'problems': problems, 'holds': holds}

    def run_body(sub_extra: Dict[str, Poly], env_extra: Dict[str, Any]) -> Tuple[str, List[Op], Dict[str, Any]]:
        ex.env = dict(saved_env)
        ex.env.update(env_extra)
        ex.sub = dict(saved_sub)
        ex.sub.update(sub_extra)
        ex.events = []
        try:
            status = ex.block(loop.body)
            return status, ex.events, ex.env
        finally:
            pass

    def restore() -> None:
        ex.env, ex.sub, ex.events = dict(saved_env), dict(saved_sub), saved_events
        for nm in assigned:  # values computed inside the loop are unknown after it
            ex.env[nm] = Op('loopvar', name=nm)

    try:
        if const_true and not counters:
            info['kind'] = 'eof'
            lv = Poly.var('L')
            ok_stop = ok_pass = True
            bsub = saved_sub.get('B')
            eof_cases = [('an empty read (end of file)', {'L': ZERO}),
                         ('a read of 1 <= L < buffer bytes', {'L': ONE + Poly.var('l_'), 'B': Poly.const(2) + Poly.var('l_') + Poly.var('m_')}),
                         ('a read of L >= buffer bytes', {'B': ONE + Poly.var('b_'), 'L': ONE + Poly.var('b_') + Poly.var('l_')})]
            for cname, csub_ in eof_cases:
                lsub = csub_['L']
                status, evs, _ = run_body(csub_, {})
                reads = [x for x in evs if x.kind == 'read']
                sinks = [x for x in evs if x.kind == 'sink']
                if len(reads) != 1:
                    raise AnalysisError(f'{label}: loop body performs {len(reads)} reads on {cname} (one expected)')
                buf = reads[0].buf
                info.setdefault('read', buf)
                if buf.exact:
                    raise AnalysisError(f'{label}: read-until-EOF loop uses readexactly (not analysed)')
                if buf.k is not None:
                    d = ex.decide('>=', buf.k, ONE)
                    neg = ex.decide('==', buf.k, Poly.const(-1))
                    if d is False and neg is not True:
                        problems.append(('request', f'`{pf.nsrc(buf.node)}` asks for {ex.inst(buf.k)!r} bytes: a read of 0 bytes returns b"" at once and the loop takes it for end of file'))
                    elif d is None and neg is not True:
                        raise Undecided(f'{label}: sign of the read count `{pf.nsrc(buf.node)}` not decided')
                if lsub is ZERO:
                    if status not in ('return', 'break'):
                        ok_stop = False
                        problems.append(('stop', f'on {cname} the loop body ends by `{status}` instead of leaving the loop: the copy never finishes'))
                else:
                    good = [s for s in sinks if s.data is buf]
                    if not ok_pass:
                        pass
                    elif status not in ('fall', 'continue'):
                        ok_pass = False
                        problems.append(('pass', f'on {cname} the loop is left (`{status}`): the rest of the file is never copied'))
                    elif len(good) != 1 or len(sinks) != 1:
                        ok_pass = False
                        problems.append(('pass', f'on {cname} the chunk is passed on {len(good)} time(s)' + (f' (`{pf.nsrc(sinks[0].node)}` writes something else)' if sinks and not good else '')
                                         + ': bytes are lost or duplicated'))
                    else:
                        info['sink'] = good[0]
            if ok_stop:
                holds.append('stop')
            if ok_pass:
                holds.append('pass')
            if not any(c == 'request' for c, _ in problems):
                holds.append('request')
            restore()
            return info

        if len(counters) != 1:
            raise AnalysisError(f'{label}: loop `while {pf.nsrc(loop.test)}` has {len(counters)} integer counters assigned in its body (one expected)')
        cn = counters[0]
        info['kind'] = 'counted'
        info['counter'] = cn
        info['n0'] = saved_env[cn]
        nv = Poly.var('n_')
        # --- the loop test: continue iff n >= 1 ---
        bad_test = None
        for desc, nsub, want in (('0 bytes', ZERO, False), ('1 byte', ONE, True), ('2 or more bytes', Poly.const(2) + Poly.var('t_'), True)):
            ex.env = dict(saved_env)
            ex.env[cn] = nv
            ex.sub = dict(saved_sub)
            ex.sub['n_'] = nsub
            got = ex.truth(loop.test)
            if got != want:
                bad_test = (f'with {desc} remaining the test `{pf.nsrc(loop.test)}` is {got}: '
                            + ('the loop stops and those bytes are never copied' if want else 'the loop runs again with nothing left to copy (a 0-byte read is an unexpected end of file)'))
                break
        if bad_test:
            problems.append(('test', bad_test))
        else:
            holds.append('test')
        # --- the body, n >= 1, both orders of n and the buffer size ---
        bvar = 'B'
        cases = [('remaining <= buffer', {'n_': ONE + Poly.var('t_'), bvar: ONE + Poly.var('t_') + Poly.var('s_')}),
                 ('remaining > buffer', {bvar: ONE + Poly.var('b_'), 'n_': Poly.const(2) + Poly.var('b_') + Poly.var('t_')})]
        seen: Dict[str, bool] = {}

        def fail(clause: str, msg: str) -> None:
            if not seen.get(clause):
                seen[clause] = True
                problems.append((clause, msg))
        # other integers carried from one iteration to the next (a running offset, a done-so-far count): the body is executed once, so their
        # value at the head of an arbitrary iteration must be an invariant.  x = x0 + (n0 - n) / x0 - (n0 - n) is tried (it holds before the
        # first iteration and is kept when the body changes x by exactly what it takes from / adds to the counter); anything else is opaque.
        loaded = {x.id for st in loop.body for x in ast.walk(st) if isinstance(x, ast.Name) and isinstance(x.ctx, ast.Load)}
        carried = [nm for nm in assigned if nm != cn and nm in loaded and nm in saved_env]
        inv: Dict[str, Any] = {}
        for nm in carried:
            x0 = saved_env[nm]
            guess: Any = Op('loopvar', name=nm)
            if isinstance(x0, Poly):
                signs = set()
                for _, csub in cases:
                    csub = dict(csub)
                    csub['L'] = ONE + Poly.var('l_')
                    probe = {c2: Op('loopvar', name=c2) for c2 in carried if c2 != nm}
                    probe.update({cn: nv, nm: Poly.var(nm + '__')})
                    try:
                        _, _, env_after = run_body(csub, probe)
                    except AnalysisError:
                        signs.add(None)
                        continue
                    xa, na = env_after.get(nm), env_after.get(cn)
                    if isinstance(xa, Poly) and isinstance(na, Poly):
                        delta, dec = xa - Poly.var(nm + '__'), nv - na
                        signs.add(1 if delta == dec else -1 if delta == -dec else None)
                    else:
                        signs.add(None)
                if signs == {1}:
                    guess = x0 + (saved_env[cn] - nv)
                elif signs == {-1}:
                    guess = x0 - (saved_env[cn] - nv)
            inv[nm] = guess
        for cdesc, csub in cases:
            csub = dict(csub)
            csub['L'] = ONE + Poly.var('l_')
            status, evs, env_after = run_body(csub, dict(inv, **{cn: nv}))
            where = f'case {cdesc}'
            if status not in ('fall', 'continue'):
                fail('exit', f'{where}: the loop body ends by `{status}` before the count is exhausted')
                continue
            reads = [x for x in evs if x.kind == 'read']
            sinks = [x for x in evs if x.kind == 'sink']
            if len(reads) != 1 or len(sinks) != 1:
                raise AnalysisError(f'{label}: loop body performs {len(reads)} reads / {len(sinks)} writes per iteration (one each expected)')
            buf, sink = reads[0].buf, sinks[0]
            info['read'], info['sink'] = buf, sink
            if buf.k is None:
                fail('request', f'`{pf.nsrc(buf.node)}` reads without a byte count: it reads across the part boundary to the end of the file')
                continue
            k = buf.k
            lo, hi = ex.decide('>=', k, ONE), ex.decide('<=', k, nv)
            # a clause must hold at every point of the case: not uniformly true + a concrete point where it fails = refuted
            if lo is None:
                lo = False if refute(ex, '>=', k, ONE) is not None else None
            if hi is None:
                hi = False if refute(ex, '<=', k, nv) is not None else None
            if lo is None or hi is None:
                raise Undecided(f'{label}: {where}: cannot order the read count {ex.inst(k)!r} against 1 and the remaining count {ex.inst(nv)!r}')
            if not hi:
                pt = refute(ex, '<=', k, nv) or {}
                fail('request', f'{where}: `{pf.nsrc(buf.node)}` asks for {ex.inst(k).at(pt)} bytes with {ex.inst(nv).at(pt)} remaining (buffer {ex.inst(Poly.var(bvar)).at(pt)}): '
                     'it reads across the end of the part - bytes of the next part are written into this one, or the last part hits end of file')
            if not lo:
                fail('request', f'{where}: `{pf.nsrc(buf.node)}` asks for {ex.inst(k)!r} bytes: no progress')
            st_ = buf.stream
            if isinstance(st_, Op) and st_.kind == 'open_from' and st_.length is not None:
                if not isinstance(st_.length, Poly):
                    raise AnalysisError(f'{label}: length of `{pf.nsrc(st_.node)}` is not an integer expression')
                dl = ex.decide('>=', st_.length, k)
                if dl is None and refute(ex, '>=', st_.length, k) is not None:
                    dl = False
                if dl is None:
                    raise Undecided(f'{label}: {where}: cannot order the stream length against the read count')
                if not dl:
                    fail('request', f'{where}: the source is opened with length {ex.inst(st_.length)!r} but {ex.inst(k)!r} bytes are read from it: readexactly raises UnexpectedEOFError on every chunk')
            if sink.data is not buf:
                fail('data', f'{where}: `{pf.nsrc(sink.node)}` does not pass on the bytes just read (`{pf.nsrc(buf.node)}`)')
            after = env_after.get(cn)
            if not isinstance(after, Poly):
                raise AnalysisError(f'{label}: counter {cn} is not an integer expression after the loop body')
            want_after = nv - buf.L
            d = ex.decide('==', after, want_after)
            if d is not True and ex.decide('==', want_after, ZERO) is True and _test_at(ex, loop, cn, after) is False:
                d = True  # everything has been passed on and the loop stops: the exact final value of the counter does not matter
            if d is not True:
                if not buf.exact:
                    # with a short read the decrement may still be right if the stream always fills the request: contract-dependent
                    ex.sub['L'] = k
                    if ex.decide('==', after, nv - k) is True:
                        raise Undecided(f'{label}: {cn} is decreased by the requested count after `{pf.nsrc(buf.node)}`, which may return fewer bytes; '
                                        'whether that loses bytes depends on the stream implementation, not decided')
                    ex.sub['L'] = csub['L']
                pt = None
                for cand in _refutations(ex, '==', after, want_after):
                    # not a refutation if at this point nothing remains and the loop stops anyway
                    if ex.inst(want_after).at(cand) == 0 and _test_at(ex, loop, cn, Poly.const(ex.inst(after).at(cand))) is False:
                        continue
                    pt = cand
                    break
                if pt is None:
                    raise Undecided(f'{label}: {where}: cannot compare the new counter {ex.inst(after)!r} with remaining - bytes passed on {ex.inst(want_after)!r}')
                fail('decrement', f'{where}: {ex.inst(nv).at(pt)} bytes remaining, {ex.inst(buf.L).at(pt)} passed on, but {cn} becomes {ex.inst(after).at(pt)} '
                     f'(should be {ex.inst(want_after).at(pt)}): ' + ('bytes are skipped' if ex.inst(after).at(pt) < ex.inst(want_after).at(pt) else 'bytes are copied twice / past the end'))
            info.setdefault('src_offsets', []).append(st_.start if isinstance(st_, Op) and st_.kind == 'open_from' else None)
        for clause in ('exit', 'request', 'data', 'decrement'):
            if not seen.get(clause):
                holds.append(clause)
        restore()
        ex.env[cn] = ZERO
        return info
    except Exception:
        restore()
        raise
