"""Facts about asyncio concurrency structures, computed from the AST/CFG only (serves C16, C20, C24, C26, C40).

In a single-threaded event loop a coroutine is atomic between two suspension points, so the questions are
  * guard dominance: is a mutation reached only through a given branch of a test, with no `await` in between?
  * what runs when an `await` raises CancelledError (enclosing handlers / finally blocks)?
  * which operations touch a shared container attribute (FIFO discipline, single writer)?
  * small exhaustive evaluators over *extracted* tests: order relation x emptiness, linear forms.

Nothing here imports or runs repository code.
"""
from __future__ import annotations

import ast
import itertools
from fractions import Fraction
from typing import Callable, Dict, Iterable, List, Optional, Sequence, Set, Tuple

from . import pyfacts as pf
from .common import AnalysisError

# --------------------------------------------------------------------------------------
# CFG helpers
# --------------------------------------------------------------------------------------


def test_node(cfg: pf.CFG, test: ast.AST) -> pf.Node:
    for n in cfg.nodes:
        if n.kind == 'test' and n.ast is test:
            return n
    raise AnalysisError(f'internal: no CFG test node for `{pf.nsrc(test)}`')


def stmt_nodes(cfg: pf.CFG, pred: Callable[[pf.Node], bool]) -> List[pf.Node]:
    """Reachable CFG nodes satisfying pred."""
    reach = cfg.reachable_from(cfg.entry)
    return [n for n in cfg.nodes if n.ast is not None and n.id in reach and pred(n)]


def every_path_uses_edge(cfg: pf.CFG, target: pf.Node, tnode: pf.Node, label: str) -> bool:
    """Every path entry -> target traverses the `label` edge out of tnode."""
    if target is tnode:
        return False
    p = cfg.path_avoiding(cfg.entry, lambda m: m is target, lambda m: False,
                          edge_ok=lambda a, b, lab: not (a is tnode and lab == label))
    return p is None


def between(cfg: pf.CFG, src: pf.Node, dst: pf.Node, first_label: Optional[str] = None) -> List[pf.Node]:
    """Nodes strictly between src and dst on some path src -> dst that does not pass src or dst in the middle.
    If first_label is given the path must leave src through an edge with that label."""
    fwd: Set[int] = set()
    stack = [m for m, lab in src.succ if first_label is None or lab == first_label]
    while stack:
        n = stack.pop()
        if n.id in fwd or n is src or n is dst:
            continue
        fwd.add(n.id)
        stack.extend(m for m, _ in n.succ)
    bwd: Set[int] = set()
    stack = [p for p, _ in dst.pred]
    while stack:
        n = stack.pop()
        if n.id in bwd or n is src or n is dst:
            continue
        bwd.add(n.id)
        stack.extend(p for p, _ in n.pred)
    return [n for n in cfg.nodes if n.id in fwd and n.id in bwd]


def direct(cfg: pf.CFG, src: pf.Node, dst: pf.Node, first_label: Optional[str] = None) -> bool:
    """dst reachable from src (through first_label) without re-passing src."""
    starts = [m for m, lab in src.succ if first_label is None or lab == first_label]
    seen: Set[int] = set()
    stack = list(starts)
    while stack:
        n = stack.pop()
        if n is dst:
            return True
        if n.id in seen or n is src:
            continue
        seen.add(n.id)
        stack.extend(m for m, _ in n.succ)
    return False


def must_pass(cfg: pf.CFG, start: pf.Node, goal: Callable[[pf.Node], bool], through: Callable[[pf.Node], bool],
              first_label: Optional[str] = None, edge_ok: Optional[Callable[[pf.Node, pf.Node, str], bool]] = None) -> Optional[List[pf.Node]]:
    """None if every path start -> goal passes a `through` node; otherwise a witness path avoiding them."""
    def ok(a: pf.Node, b: pf.Node, lab: str) -> bool:
        if a is start and first_label is not None and lab != first_label:
            return False
        return edge_ok(a, b, lab) if edge_ok is not None else True
    return cfg.path_avoiding(start, goal, through, edge_ok=ok)


def node_is_call(n: pf.Node, dotted_name: str) -> Optional[ast.Call]:
    for c in pf.node_calls(n):
        if pf.dotted(c.func) == dotted_name:
            return c
    return None


def writes_attr(n: pf.Node, attr_src: str) -> bool:
    """Does the statement at this node assign / aug-assign / delete the attribute expression `attr_src`?"""
    a = n.ast
    if n.kind not in ('stmt', 'return'):
        return False
    targets: List[ast.AST] = []
    if isinstance(a, ast.Assign):
        targets = list(a.targets)
    elif isinstance(a, (ast.AugAssign, ast.AnnAssign)):
        targets = [a.target]
    elif isinstance(a, ast.Delete):
        targets = list(a.targets)
    for t in targets:
        for x in ast.walk(t):
            if isinstance(x, (ast.Attribute, ast.Name)) and isinstance(getattr(x, 'ctx', None), (ast.Store, ast.Del)) and pf.nsrc(x) == attr_src:
                return True
    return False


# --------------------------------------------------------------------------------------
# what runs when an await raises CancelledError
# --------------------------------------------------------------------------------------

_CANCEL_TYPES = {'asyncio.CancelledError', 'CancelledError', 'BaseException', 'asyncio.exceptions.CancelledError',
                 'concurrent.futures.CancelledError'}


def _handler_catches_cancel(h: ast.ExceptHandler) -> bool:
    if h.type is None:
        return True
    types = h.type.elts if isinstance(h.type, ast.Tuple) else [h.type]
    return any(pf.dotted(t) in _CANCEL_TYPES for t in types)


def _block_always_raises(stmts: Sequence[ast.stmt]) -> bool:
    """Conservative: the last top-level statement is a `raise`."""
    return bool(stmts) and isinstance(stmts[-1], ast.Raise)


def cancel_blocks(m: pf.Module, fn: pf.FuncDef, node: ast.AST) -> Tuple[List[Tuple[str, List[ast.stmt]]], bool]:
    """Statement blocks of `fn` executed when CancelledError is raised at `node` (innermost first), and whether the
    exception still leaves the function afterwards.  Blocks: ('except', handler body) / ('finally', finalbody).
    `async with` exits are not modelled (callers treat them separately)."""
    par = m.parents()
    blocks: List[Tuple[str, List[ast.stmt]]] = []
    cur: ast.AST = node
    propagating = True
    while cur is not fn:
        p = par.get(cur)
        if p is None:
            raise AnalysisError('internal: node not inside function')
        if isinstance(p, ast.Try) and propagating:
            in_body = any(cur is s for s in p.body)
            in_handler = any(cur is h for h in p.handlers)
            in_else = any(cur is s for s in p.orelse)
            if in_body:
                for h in p.handlers:
                    if _handler_catches_cancel(h):
                        blocks.append(('except', h.body))
                        if not _block_always_raises(h.body):
                            propagating = False
                        break
            if (in_body or in_handler or in_else) and p.finalbody:
                blocks.append(('finally', p.finalbody))
        elif isinstance(p, ast.Try) and not propagating:
            # swallowed: outer finally blocks still run on the normal path but are no longer "on cancellation"
            pass
        cur = p
    return blocks, propagating


def enclosing_with(m: pf.Module, fn: pf.FuncDef, node: ast.AST) -> List[ast.AST]:
    """`with` / `async with` statements of fn whose *body* contains node (innermost first)."""
    par = m.parents()
    out: List[ast.AST] = []
    cur: ast.AST = node
    while cur is not fn:
        p = par.get(cur)
        if p is None:
            break
        if isinstance(p, (ast.With, ast.AsyncWith)) and any(cur is s for s in p.body):
            out.append(p)
        cur = p
    return out


def enclosing_func_chain(m: pf.Module, node: ast.AST) -> List[pf.FuncDef]:
    par = m.parents()
    out: List[pf.FuncDef] = []
    cur = par.get(node)
    while cur is not None:
        if isinstance(cur, (ast.FunctionDef, ast.AsyncFunctionDef)):
            out.append(cur)
        cur = par.get(cur)
    return out


# --------------------------------------------------------------------------------------
# uses of a container attribute
# --------------------------------------------------------------------------------------


class Use:
    __slots__ = ('kind', 'detail', 'node', 'func')

    def __init__(self, kind: str, detail: str, node: ast.AST, func: str):
        self.kind = kind  # method:<name> | index:<src> | truth | len | assign | other
        self.detail = detail
        self.node = node
        self.func = func


def container_uses(m: pf.Module, cls: ast.ClassDef, attr_src: str) -> List[Use]:
    """Every occurrence of the expression `attr_src` (e.g. 'self.queue') inside the class, classified by its syntactic context."""
    par = m.parents()
    out: List[Use] = []
    for n in ast.walk(cls):
        if not isinstance(n, ast.Attribute) or pf.nsrc(n) != attr_src:
            continue
        fn = m.enclosing_func(n)
        q = m.qualname(fn) if fn is not None else cls.name
        p = par.get(n)
        if isinstance(n.ctx, ast.Store):
            out.append(Use('assign', pf.nsrc(p) if p is not None else '', n, q))
        elif isinstance(p, ast.Attribute) and p.value is n and isinstance(par.get(p), ast.Call) and par[p].func is p:  # type: ignore[union-attr]
            out.append(Use('method:' + p.attr, pf.nsrc(par[p]), par[p], q))
        elif isinstance(p, ast.Subscript) and p.value is n:
            kind = 'index:' + pf.nsrc(p.slice)
            if isinstance(p.ctx, ast.Store):
                kind = 'setitem:' + pf.nsrc(p.slice)
            elif isinstance(p.ctx, ast.Del):
                kind = 'delitem:' + pf.nsrc(p.slice)
            out.append(Use(kind, pf.nsrc(p), p, q))
        elif isinstance(p, ast.Call) and pf.dotted(p.func) == 'len' and len(p.args) == 1 and p.args[0] is n:
            out.append(Use('len', pf.nsrc(p), p, q))
        elif isinstance(p, (ast.If, ast.While, ast.IfExp)) and p.test is n:
            out.append(Use('truth', pf.nsrc(n), n, q))
        elif isinstance(p, ast.UnaryOp) and isinstance(p.op, ast.Not):
            out.append(Use('truth', pf.nsrc(p), p, q))
        elif isinstance(p, ast.BoolOp):
            out.append(Use('truth', pf.nsrc(p), p, q))
        elif isinstance(p, ast.Compare) and any(isinstance(o, (ast.In, ast.NotIn)) for o in p.ops) and any(c is n for c in p.comparators):
            out.append(Use('contains', pf.nsrc(p), p, q))
        else:
            out.append(Use('other', pf.nsrc(p) if p is not None else '', n, q))
    return out


# --------------------------------------------------------------------------------------
# exhaustive evaluation of extracted tests over  order-relation x emptiness
# --------------------------------------------------------------------------------------

RELS = ('<', '==', '>')


def _cmp(op: ast.cmpop, rel: str) -> Optional[bool]:
    table = {ast.Lt: rel == '<', ast.LtE: rel in ('<', '=='), ast.Gt: rel == '>', ast.GtE: rel in ('>', '=='),
             ast.Eq: rel == '==', ast.NotEq: rel != '=='}
    return table.get(type(op))


def _flip(rel: str) -> str:
    return {'<': '>', '>': '<', '==': '=='}[rel]


class TestEval:
    """Evaluate a boolean test whose atoms are (a) one comparison between two named quantities `left`/`right`
    (given as normalised source text) and (b) emptiness tests of named containers.  Anything else -> AnalysisError."""

    def __init__(self, left: str, right: str, containers: Sequence[str] = ()):
        self.left = left
        self.right = right
        self.containers = list(containers)

    def atom(self, a: ast.AST, rel: str, nonempty: Dict[str, bool], free: Optional[Dict[str, bool]] = None) -> bool:
        s = pf.nsrc(a)
        if free and s in free:
            return free[s]
        if s in nonempty:
            return nonempty[s]
        if isinstance(a, ast.Call) and pf.dotted(a.func) == 'len' and len(a.args) == 1 and pf.nsrc(a.args[0]) in nonempty:
            return nonempty[pf.nsrc(a.args[0])]
        if isinstance(a, ast.Call) and pf.dotted(a.func) == 'bool' and len(a.args) == 1:
            return self.atom(a.args[0], rel, nonempty, free)
        if isinstance(a, ast.Compare) and len(a.ops) == 1:
            lhs, rhs, op = a.left, a.comparators[0], a.ops[0]
            ls, rs = pf.nsrc(lhs), pf.nsrc(rhs)
            if (ls, rs) == (self.left, self.right):
                v = _cmp(op, rel)
                if v is not None:
                    return v
            if (ls, rs) == (self.right, self.left):
                v = _cmp(op, _flip(rel))
                if v is not None:
                    return v
            # linear spelling of the same comparison:  left - right <op> 0,  0 <op> right - left, ...
            if self.left != '?' and self.right != '?' and not isinstance(op, (ast.Eq, ast.NotEq)):
                nz = compare_leq_zero(a, {self.left: 'L', self.right: 'R'})
                if nz is not None:
                    d, strict = nz
                    if d == {'L': 1, 'R': -1}:      # L - R (<|<=) 0
                        return rel == '<' or (not strict and rel == '==')
                    if d == {'L': -1, 'R': 1}:      # R - L (<|<=) 0
                        return rel == '>' or (not strict and rel == '==')
            # len(C) <op> small constant
            for x, y, flipped in ((lhs, rhs, False), (rhs, lhs, True)):
                if isinstance(x, ast.Call) and pf.dotted(x.func) == 'len' and len(x.args) == 1 and pf.nsrc(x.args[0]) in nonempty \
                        and isinstance(y, ast.Constant) and isinstance(y.value, int) and not isinstance(y.value, bool):
                    ne = nonempty[pf.nsrc(x.args[0])]
                    c = y.value
                    # abstract len as 0 (empty) or "some n >= 1": decidable only for thresholds 0/1
                    results = set()
                    for ln in ([0] if not ne else [1, 2, 10 ** 6]):
                        a_, b_ = (c, ln) if flipped else (ln, c)
                        r = {ast.Lt: a_ < b_, ast.LtE: a_ <= b_, ast.Gt: a_ > b_, ast.GtE: a_ >= b_, ast.Eq: a_ == b_, ast.NotEq: a_ != b_}.get(type(op))
                        if r is None:
                            raise AnalysisError(f'unrecognised comparison `{s}`')
                        results.add(r)
                    if len(results) == 1:
                        return results.pop()
                    raise AnalysisError(f'`{s}` depends on the exact length, not only on emptiness (not a recognised guard)')
        raise AnalysisError(f'unrecognised atom `{s}` in guard (known quantities: {self.left}, {self.right}, containers {self.containers})')

    def _free_atoms(self, test: ast.AST) -> List[str]:
        """Atoms the domain does not interpret but that cannot hide the analysed comparison: plain comparisons / names without calls
        that do not relate `left` and `right`.  They are enumerated as unconstrained booleans.  Anything else -> AnalysisError."""
        from . import absdom
        free: List[str] = []
        probe_ne = {c: False for c in self.containers}
        for a in absdom.bool_atoms(test):
            try:
                self.atom(a, '==', probe_ne, {})
                continue
            except AnalysisError:
                pass
            has_call = any(isinstance(x, (ast.Call, ast.Await, ast.Lambda, ast.NamedExpr)) for x in ast.walk(a))
            relates = mentions(a, self.left) and mentions(a, self.right)
            touches_container = any(mentions(a, c) for c in self.containers)
            if has_call or relates or touches_container or not isinstance(a, (ast.Compare, ast.Name, ast.Attribute)):
                raise AnalysisError(f'unrecognised atom `{pf.nsrc(a)}` in guard (known quantities: {self.left}, {self.right}, containers {self.containers})')
            free.append(pf.nsrc(a))
        return free

    def rows(self, test: ast.AST) -> List[Tuple[str, Dict[str, bool], bool]]:
        free = self._free_atoms(test)
        out = []
        for rel in RELS:
            for bits in itertools.product([False, True], repeat=len(self.containers)):
                ne = dict(zip(self.containers, bits))
                for fbits in itertools.product([False, True], repeat=len(free)):
                    out.append((rel, ne, self.eval(test, rel, ne, dict(zip(free, fbits)))))
        return out

    def eval(self, test: ast.AST, rel: str, nonempty: Dict[str, bool], free: Optional[Dict[str, bool]] = None) -> bool:
        free = free or {}
        if isinstance(test, ast.BoolOp):
            vals = [self.eval(v, rel, nonempty, free) for v in test.values]
            return all(vals) if isinstance(test.op, ast.And) else any(vals)
        if isinstance(test, ast.UnaryOp) and isinstance(test.op, ast.Not):
            return not self.eval(test.operand, rel, nonempty, free)
        if isinstance(test, ast.Constant):
            return bool(test.value)
        return self.atom(test, rel, nonempty, free)


def mentions(test: ast.AST, text: str) -> bool:
    return any(isinstance(x, (ast.Attribute, ast.Name, ast.Subscript, ast.Call)) and pf.nsrc(x) == text for x in ast.walk(test))


def implied_on_edge(test: ast.AST, label: str, atom_text: str, value: bool = True) -> bool:
    """Taking the `label` ('T'/'F') edge of `test` implies that the boolean atom with source `atom_text` has `value`
    (exhaustive over all valuations of the test's atoms; atoms are treated as independent)."""
    from . import absdom
    atoms = absdom.bool_atoms(test)
    keys = [absdom.atom_key(a) for a in atoms]
    if atom_text not in keys:
        return False
    want = label == 'T'
    seen = False
    for v in absdom.valuations(keys):
        if absdom.eval_bool(test, lambda a: v[absdom.atom_key(a)]) == want:
            seen = True
            if v[atom_text] != value:
                return False
    return seen


# --------------------------------------------------------------------------------------
# linear forms over named atoms
# --------------------------------------------------------------------------------------

Lin = Dict[str, Fraction]


def linear(e: ast.AST, atoms: Dict[str, str]) -> Optional[Lin]:
    """e as sum coef*symbol (+ const under key '1'); `atoms` maps normalised source text of atomic sub-expressions to symbols.
    None if e is not linear over these atoms."""
    s = pf.nsrc(e)
    if s in atoms:
        return {atoms[s]: Fraction(1)}
    if isinstance(e, ast.Constant) and isinstance(e.value, (int, float)) and not isinstance(e.value, bool):
        return {'1': Fraction(e.value)} if e.value != 0 else {}
    if isinstance(e, ast.UnaryOp) and isinstance(e.op, (ast.USub, ast.UAdd)):
        a = linear(e.operand, atoms)
        if a is None:
            return None
        return {k: (-v if isinstance(e.op, ast.USub) else v) for k, v in a.items()}
    if isinstance(e, ast.BinOp) and isinstance(e.op, (ast.Add, ast.Sub)):
        a, b = linear(e.left, atoms), linear(e.right, atoms)
        if a is None or b is None:
            return None
        out = dict(a)
        for k, v in b.items():
            out[k] = out.get(k, Fraction(0)) + (v if isinstance(e.op, ast.Add) else -v)
        return {k: v for k, v in out.items() if v != 0}
    if isinstance(e, ast.BinOp) and isinstance(e.op, ast.Mult):
        a, b = linear(e.left, atoms), linear(e.right, atoms)
        if a is None or b is None:
            return None
        for x, y in ((a, b), (b, a)):
            if set(x) <= {'1'}:
                c = x.get('1', Fraction(0))
                return {k: v * c for k, v in y.items() if v * c != 0}
        return None
    return None


def lin_sub(a: Lin, b: Lin) -> Lin:
    out = dict(a)
    for k, v in b.items():
        out[k] = out.get(k, Fraction(0)) - v
    return {k: v for k, v in out.items() if v != 0}


def lin_neg(a: Lin) -> Lin:
    return {k: -v for k, v in a.items()}


def lin_str(a: Lin) -> str:
    if not a:
        return '0'
    parts = []
    for k in sorted(a):
        v = a[k]
        c = str(v) if v.denominator != 1 else str(v.numerator)
        parts.append(c if k == '1' else (f'{c}*{k}' if v != 1 else k))
    return ' + '.join(parts).replace('+ -', '- ')


def compare_leq_zero(c: ast.Compare, atoms: Dict[str, str]) -> Optional[Tuple[Lin, bool]]:
    """Normalise `L op R` (one of < <= > >=) to (d, strict) meaning  d < 0  /  d <= 0."""
    if len(c.ops) != 1:
        return None
    L, R = linear(c.left, atoms), linear(c.comparators[0], atoms)
    if L is None or R is None:
        return None
    op = c.ops[0]
    if isinstance(op, (ast.Lt, ast.LtE)):
        return lin_sub(L, R), isinstance(op, ast.Lt)
    if isinstance(op, (ast.Gt, ast.GtE)):
        return lin_sub(R, L), isinstance(op, ast.Gt)
    return None


# --------------------------------------------------------------------------------------
# constants
# --------------------------------------------------------------------------------------


def const_number(m: pf.Module, e: ast.AST, depth: int = 4) -> Optional[Fraction]:
    """Value of a numeric constant expression: literals, + - * // **, int(float literal), module-level names and Class.NAME."""
    if depth < 0:
        return None
    if isinstance(e, ast.Constant) and isinstance(e.value, (int, float)) and not isinstance(e.value, bool):
        return Fraction(e.value)
    if isinstance(e, ast.UnaryOp) and isinstance(e.op, ast.USub):
        v = const_number(m, e.operand, depth)
        return -v if v is not None else None
    if isinstance(e, ast.BinOp):
        a, b = const_number(m, e.left, depth), const_number(m, e.right, depth)
        if a is None or b is None:
            return None
        if isinstance(e.op, ast.Add):
            return a + b
        if isinstance(e.op, ast.Sub):
            return a - b
        if isinstance(e.op, ast.Mult):
            return a * b
        if isinstance(e.op, ast.FloorDiv) and b != 0:
            return Fraction(a // b)
        if isinstance(e.op, ast.Pow) and b.denominator == 1 and 0 <= b <= 64:
            return a ** int(b)
        return None
    if isinstance(e, ast.Call) and pf.dotted(e.func) == 'int' and len(e.args) == 1 and not e.keywords:
        v = const_number(m, e.args[0], depth)
        return Fraction(int(v)) if v is not None else None
    if isinstance(e, ast.Name):
        try:
            return const_number(m, m.global_assign(e.id), depth - 1)
        except AnalysisError:
            return None
    if isinstance(e, ast.Attribute) and isinstance(e.value, ast.Name):
        try:
            cls = m.cls(e.value.id)
        except AnalysisError:
            return None
        for st in cls.body:
            if isinstance(st, ast.Assign) and len(st.targets) == 1 and isinstance(st.targets[0], ast.Name) and st.targets[0].id == e.attr:
                return const_number(m, st.value, depth - 1)
        return None
    return None


def method(m: pf.Module, cls: ast.ClassDef, name: str) -> pf.FuncDef:
    for st in cls.body:
        if isinstance(st, (ast.FunctionDef, ast.AsyncFunctionDef)) and st.name == name:
            return st
    raise AnalysisError(f'anchor vanished: {m.rel}::{cls.name}.{name}')


def body_no_doc(fn: pf.FuncDef) -> List[ast.stmt]:
    return [s for s in fn.body if not (isinstance(s, ast.Expr) and isinstance(s.value, ast.Constant) and isinstance(s.value.value, str))]


# --------------------------------------------------------------------------------------
# weighted-semaphore shapes shared by C16 (FIFOWeightedSemaphore) and C40 (WeightedSemaphore)
# --------------------------------------------------------------------------------------


class Guarded:
    """A decrement `value -= w` together with the test edge that guards it."""

    def __init__(self, fnname: str, dec: pf.Node, w: str, test: pf.Node, label: str, rows):
        self.fnname = fnname
        self.dec = dec
        self.w = w
        self.test = test
        self.label = label
        self.rows = rows


def _names_assigned(n: pf.Node) -> Set[str]:
    out: Set[str] = set()
    for e in pf.node_exprs(n):
        for x in ast.walk(e):
            if isinstance(x, ast.Name) and isinstance(x.ctx, (ast.Store, ast.Del)):
                out.add(x.id)
    return out


def guarded_decrements(ctx, m: pf.Module, cls: ast.ClassDef, rule: str, value_src: str, containers: Sequence[str]) -> List[Guarded]:
    """R(safety): every `value_src -= w` in the class is reached only through a test edge that implies value_src >= w,
    with no suspension point, no other write of value_src and no rebinding of w in between."""
    found: List[Guarded] = []
    for st in cls.body:
        if not isinstance(st, (ast.FunctionDef, ast.AsyncFunctionDef)):
            continue
        fn = st
        q = f'{cls.name}.{fn.name}'
        cfg = pf.cfg(fn)
        # every write of value_src must be a recognised one
        for n in stmt_nodes(cfg, lambda n: writes_attr(n, value_src)):
            a = n.ast
            if isinstance(a, ast.AugAssign) and isinstance(a.op, (ast.Add, ast.Sub)) and pf.nsrc(a.target) == value_src:
                continue
            if fn.name == '__init__' and isinstance(a, (ast.Assign, ast.AnnAssign)):
                continue
            raise AnalysisError(f'{m.rel}::{q}: unrecognised write of {value_src}: `{pf.nsrc(a)}`')
        decs = stmt_nodes(cfg, lambda n: n.kind == 'stmt' and isinstance(n.ast, ast.AugAssign) and isinstance(n.ast.op, ast.Sub)
                          and pf.nsrc(n.ast.target) == value_src)
        for D in decs:
            w = pf.nsrc(D.ast.value)  # type: ignore[union-attr]
            cons = f'{m.rel}::{q}::{pf.nsrc(D.ast)}'
            ev = TestEval(value_src, w, containers)
            unknown: List[str] = []
            weak: List[str] = []
            good: Optional[Guarded] = None
            problems: List[str] = []
            for t in cfg.nodes:
                if t.kind != 'test' or not mentions(t.ast, value_src):
                    continue
                for label in ('T', 'F'):
                    if not any(lab == label for _, lab in t.succ):
                        continue
                    if not every_path_uses_edge(cfg, D, t, label) or not direct(cfg, t, D, label):
                        continue
                    try:
                        rows = ev.rows(t.ast)
                    except AnalysisError as e:
                        unknown.append(str(e))
                        continue
                    admits_less = [r for r in rows if r[2] == (label == 'T') and r[0] == '<']
                    if admits_less:
                        weak.append(f'guard `{pf.nsrc(t.ast)}` ({label}-branch) admits {value_src} < {w}')
                        continue
                    mid = between(cfg, t, D, label)
                    bad_mid = [x for x in mid if pf.node_has_await(x)]
                    if bad_mid:
                        problems.append(f'suspension point `{bad_mid[0].text()}` between the guard `{pf.nsrc(t.ast)}` and the decrement: '
                                        f'another coroutine can take the capacity in between')
                        continue
                    wr = [x for x in mid if writes_attr(x, value_src) or (_names_assigned(x) & pf.names_in(D.ast.value))]  # type: ignore[union-attr]
                    if wr:
                        problems.append(f'`{wr[0].text()}` changes {value_src} or {w} between the guard and the decrement')
                        continue
                    if cfg.path_avoiding(D, lambda n: n is D, lambda n, t=t: n is t) is not None:
                        problems.append(f'the decrement can repeat without re-evaluating the guard `{pf.nsrc(t.ast)}`')
                        continue
                    good = Guarded(fn.name, D, w, t, label, rows)
            if good is not None:
                ctx.ok(rule, cons, {'guard': pf.nsrc(good.test.ast), 'branch': good.label, 'atomic': True})
                found.append(good)
            elif problems:
                ctx.bad(rule, cons, problems[0], m.path, D.lineno)
            elif weak:
                ctx.bad(rule, cons, weak[0] + f': more than the free capacity can be granted ({value_src} goes negative)', m.path, D.lineno)
            elif unknown:
                raise AnalysisError(f'{cons}: guard not recognised: {unknown[0]}')
            else:
                ctx.bad(rule, cons, f'`{pf.nsrc(D.ast)}` is not dominated by a test implying {value_src} >= {w}: capacity can be over-granted',
                        m.path, D.lineno)
    return found


class WakeLoop:
    def __init__(self):
        self.fn: Optional[pf.FuncDef] = None
        self.cfg: Optional[pf.CFG] = None
        self.stmt: Optional[ast.stmt] = None      # the While (or If, when the loop was lost)
        self.is_loop = False
        self.head: Optional[ast.Assign] = None    # X, Y = cont[0]
        self.names: List[str] = []
        self.fit: Optional[ast.If] = None


def wake_loop(m: pf.Module, cls: ast.ClassDef, fname: str, value_src: str, cont_src: str) -> WakeLoop:
    """Recognise  `while <cont non-empty>: a, b = cont[0]; if <value fits>: wake... else: leave`  in release()."""
    fn = method(m, cls, fname)
    wl = WakeLoop()
    wl.fn = fn
    wl.cfg = pf.cfg(fn)
    ev = TestEval('?', '?', [cont_src])
    cands = []
    for n in pf.walk_shallow(fn):
        if isinstance(n, (ast.While, ast.If)) and mentions(n.test, cont_src):
            try:
                rows = ev.rows(n.test)
            except AnalysisError:
                continue
            if all(r[2] == r[1][cont_src] for r in rows):
                cands.append(n)
    if len(cands) != 1:
        raise AnalysisError(f'{m.rel}::{cls.name}.{fname}: expected exactly one `while {cont_src}:` wake loop, found {len(cands)}')
    wl.stmt = cands[0]
    wl.is_loop = isinstance(cands[0], ast.While)
    body = cands[0].body
    heads = [s for s in body if isinstance(s, ast.Assign) and len(s.targets) == 1 and isinstance(s.targets[0], ast.Tuple)
             and all(isinstance(e, ast.Name) for e in s.targets[0].elts) and isinstance(s.value, ast.Subscript) and pf.nsrc(s.value.value) == cont_src]
    if len(heads) != 1:
        raise AnalysisError(f'{m.rel}::{cls.name}.{fname}: head of the waiter container is not read by one tuple-unpacking assignment')
    wl.head = heads[0]
    wl.names = [e.id for e in heads[0].targets[0].elts]  # type: ignore[attr-defined,union-attr]
    fits = [s for s in ast.walk(cands[0]) if isinstance(s, ast.If) and s is not cands[0] and mentions(s.test, value_src)]
    if len(fits) == 0:
        # the loop decides on something else than the total free capacity: recognise "compares the head with the released amount only"
        others = [s for s in ast.walk(cands[0]) if isinstance(s, ast.If) and s is not cands[0] and any(mentions(s.test, n_) for n_ in wl.names)]
        params = [a.arg for a in fn.args.args][1:]
        for s in others:
            for c in ast.walk(s.test):
                if isinstance(c, ast.Compare):
                    sides = [c.left] + list(c.comparators)
                    rest = [x for x in sides if not any(mentions(x, n_) for n_ in wl.names)]
                    if rest and all((pf.names_in(x) <= set(params)) and pf.names_in(x) for x in rest):
                        raise FitNotOnValue(f'{m.rel}::{cls.name}.{fname}', pf.nsrc(s.test), s.lineno, value_src)
    if len(fits) != 1:
        raise AnalysisError(f'{m.rel}::{cls.name}.{fname}: expected one fit test on {value_src} in the wake loop, found {len(fits)}')
    wl.fit = fits[0]
    return wl


class FitNotOnValue(AnalysisError):
    """The wake loop compares the head waiter's weight only with the amount being released, not with the total free capacity."""

    def __init__(self, where: str, test_src: str, lineno: int, value_src: str):
        super().__init__(f'{where}: wake loop decides on `{test_src}`')
        self.where = where
        self.test_src = test_src
        self.lineno = lineno
        self.value_src = value_src


def blocked(ctx, because: str, *rules: str) -> None:
    """Dependent rule instances cannot be evaluated because a (new, not already listed) violation of rule `because` has been
    reported on the construct they build on; the run ends with exit 1 anyway, so the vacuity minimum of the dependent rules is
    waived for this run."""
    from .common import load_known_findings
    listed = {(k['property'], k['key']) for k in load_known_findings().get('findings', [])}
    fresh = [f for f in ctx.findings if f.rule == because and (ctx.pid, f.key) not in listed]
    if not fresh:
        raise AnalysisError(f'internal: dependent checks of {rules} skipped without a reported violation of {because}')
    for r in rules:
        ctx.min_counts[r] = 0
