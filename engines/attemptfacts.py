"""Facts about the life-cycle of one `attempts` row, shared by C02 and C03.

* the finite *order domain*: every weak ordering (with NULLs) of the OLD timestamps and the fresh timestamp symbols a writer supplies;
* an interpreter for the parsed BEFORE UPDATE trigger over that domain (MySQL three-valued logic);
* the writer statements of attempts.{start_time,end_time,rollup_time,reason} (effective SQL program + embedded SQL) with the value
  *expression* each column receives.  Expressions over parameters are evaluated symbolically per ordering class: NULL propagation of
  + - GREATEST LEAST, first-non-NULL of COALESCE/IFNULL, IF/CASE on order predicates, and a max/min-of-linear-forms normal form that must
  collapse to one of the symbols (x + GREATEST(y - x, 0) = max(x, y)); anything else is declined (AnalysisError);
* per Python call chain: NULL class of every timestamp parameter, reason literals (followed through forwarding parameters);
* `transitions`: every (OLD row, row written, row stored by the trigger) of a writer - the before-trigger's outputs are the
  after-trigger's inputs.
Nothing here imports or runs repository code.
"""
from __future__ import annotations

import ast
import itertools
from typing import Any, Callable, Dict, Iterator, List, Optional, Sequence, Set, Tuple

from . import callsites as cs
from . import pyfacts as pf
from . import sqlfront as sf
from . import sqlrules as sr
from .common import AnalysisError, Ctx
from .sqlast import N, text
from .sqleval import Unbound, _truth, ev

TIME_COLS = ['start_time', 'end_time', 'rollup_time']
COLS = TIME_COLS + ['reason']
ZERO = -1          # the literal 0 used as a timestamp: below every reported timestamp (timestamps are positive)
PY_DIRS = ['batch/batch']


# ----------------------------------------------------------------------------------------------------
# order domain
# ----------------------------------------------------------------------------------------------------
_wo_cache: Dict[int, List[Tuple[Optional[int], ...]]] = {}


def weak_orderings(n: int) -> List[Tuple[Optional[int], ...]]:
    """All assignments of n variables to NULL or a rank, ranks forming an initial segment 0..k-1."""
    if n in _wo_cache:
        return _wo_cache[n]

    def rec(i: int, cur: List[Optional[int]], k: int):
        if i == n:
            yield tuple(cur)
            return
        cur.append(None)
        yield from rec(i + 1, cur, k)
        cur.pop()
        for r in range(k + 1):
            cur.append(r)
            yield from rec(i + 1, cur, max(k, r + 1))
            cur.pop()
    # ranks produced above are "first-use" labels, not order; enumerate order by permuting labels
    seen = set()
    out = []
    for lab in rec(0, [], 0):
        k = 1 + max([x for x in lab if x is not None], default=-1)
        for perm in itertools.permutations(range(k)):
            t = tuple(None if x is None else perm[x] for x in lab)
            if t not in seen:
                seen.add(t)
                out.append(t)
    _wo_cache[n] = out
    return out


def realise(vals: Dict[str, Any]) -> Dict[str, Any]:
    return {k: (None if v is None else (1000 * (v + 1) if isinstance(v, int) else v)) for k, v in vals.items()}


def inv(row: Dict[str, Any]) -> bool:
    r, e = row['rollup_time'], row['end_time']
    return r is None or e is None or r <= e


# ----------------------------------------------------------------------------------------------------
# interpreter for the BEFORE UPDATE trigger
# ----------------------------------------------------------------------------------------------------
_exec_cache: Dict[Tuple, Dict[str, Any]] = {}


def exec_trigger(body: List[N], old: Dict[str, Any], new: Dict[str, Any]) -> Dict[str, Any]:
    key = (id(body), tuple(old[c] for c in COLS), tuple(new[c] for c in COLS))
    hit = _exec_cache.get(key)
    if hit is not None:
        return dict(hit)
    new = dict(new)
    loc: Dict[str, Any] = {}       # DECLAREd locals (typed and restricted to order-exact values by the caller's syntactic rule)

    def env(c: N):
        if c.kind == 'col' and len(c.parts) == 2 and c.parts[0].upper() in ('OLD', 'NEW'):
            return (old if c.parts[0].upper() == 'OLD' else new)[c.parts[1].lower()]
        if c.kind == 'col' and len(c.parts) == 1 and c.parts[0].lower() in loc:
            return loc[c.parts[0].lower()]
        raise AnalysisError(f'trigger reads `{text(c)}` which is not an OLD./NEW. column')

    def run(stmts: List[N]):
        for st in stmts:
            if st.kind == 'if':
                done = False
                for c, b in st.branches:
                    if _truth(ev(c, env)):
                        run(b)
                        done = True
                        break
                if not done and st.orelse is not None:
                    run(st.orelse)
            elif st.kind == 'block':
                run(st.body)
            elif st.kind == 'declare':
                for nm in st.names:
                    loc[nm.lower()] = ev(st.default, env) if st.default is not None else None
            elif st.kind == 'set':
                for t, v in st.assigns:
                    if t.kind == 'col' and len(t.parts) == 1 and t.parts[0].lower() in loc:
                        loc[t.parts[0].lower()] = ev(v, env)
                        continue
                    if not (t.kind == 'col' and len(t.parts) == 2 and t.parts[0].upper() == 'NEW'):
                        raise AnalysisError(f'trigger assigns `{text(t)}`')
                    new[t.parts[1].lower()] = ev(v, env)
            else:
                raise AnalysisError(f'attempts_before_update: unsupported statement {st.kind}')
    try:
        run(body)
    except (Unbound, TypeError) as e:
        raise AnalysisError(f'attempts_before_update: expression outside the evaluated fragment ({e})')
    _exec_cache[key] = dict(new)
    return new


# ----------------------------------------------------------------------------------------------------
# which trigger expressions are functions of the ordering / NULL pattern alone
# ----------------------------------------------------------------------------------------------------
# A value expression is *order-exact* when it returns one of its timestamp inputs (or NULL) chosen by comparisons and IS NULL tests of
# those inputs: columns, NULL, GREATEST / LEAST (NULL if any argument is NULL), COALESCE / IFNULL (first non-NULL), IF(cond, a, b),
# CASE.  Its result in an ordering class is then the same input for every numeric realisation of the class, so the finite order domain
# stays exact.  Arithmetic, numeric literals, other functions, truthiness of a timestamp, ordering of texts are not.
_SELECT_FUNCS = ('GREATEST', 'LEAST', 'COALESCE', 'IFNULL', 'IF')


def _unify(ts: Sequence[str], what: N, where: str) -> str:
    kinds = {t for t in ts if t != 'null'}
    if len(kinds) > 1:
        raise AnalysisError(f'{where}: `{text(what)}` mixes timestamps and text (order abstraction not applicable)')
    return kinds.pop() if kinds else 'null'


def order_exact_value(e: N, where: str, col_ok: Callable[[N], Optional[str]]) -> str:
    """Type ('time' | 'text' | 'null') of an order-exact value expression; AnalysisError if it is not one.
    col_ok(col node) returns 'time' / 'text' for a column the domain models, None otherwise."""
    k = e.kind
    if k == 'col':
        t = col_ok(e)
        if t is None:
            raise AnalysisError(f'{where} reads `{text(e)}`; only OLD./NEW. start_time, end_time, rollup_time, reason (and typed locals) are modelled')
        if t == 'bool':
            raise AnalysisError(f'{where}: boolean `{text(e)}` used as a value (order abstraction not applicable)')
        return t
    if k == 'lit':
        if e.value is None:
            return 'null'
        if isinstance(e.value, str):
            return 'text'
        raise AnalysisError(f'{where}: numeric / boolean literal `{text(e)}` used as a value (order abstraction not applicable)')
    if k == 'bin' and e.op in ('+', '-', '*', '/', 'DIV', '%', 'MOD'):
        raise AnalysisError(f'{where}: arithmetic on timestamps `{text(e)}` (order abstraction not applicable)')
    if k == 'func' and e.name in ('GREATEST', 'LEAST') and e.args:
        ts = [order_exact_value(a, where, col_ok) for a in e.args]
        if _unify(ts, e, where) == 'text':
            raise AnalysisError(f'{where}: `{text(e)}` orders text values (collation not modelled)')
        return 'null' if 'null' in ts else 'time'
    if k == 'func' and e.name in ('COALESCE', 'IFNULL') and e.args:
        return _unify([order_exact_value(a, where, col_ok) for a in e.args], e, where)
    if k == 'func' and e.name == 'IF' and len(e.args) == 3:
        order_exact_cond(e.args[0], where, col_ok)
        return _unify([order_exact_value(a, where, col_ok) for a in e.args[1:]], e, where)
    if k == 'case':
        if e.arg is not None:
            bt = order_exact_value(e.arg, where, col_ok)
            for c, _ in e.whens:
                _unify([bt, order_exact_value(c, where, col_ok)], e, where)
        else:
            for c, _ in e.whens:
                order_exact_cond(c, where, col_ok)
        vals = [v for _, v in e.whens] + ([e.default] if e.default is not None else [])
        return _unify([order_exact_value(v, where, col_ok) for v in vals], e, where)
    raise AnalysisError(f'{where}: `{text(e)}` outside the analysed fragment (order abstraction not applicable)')


def order_exact_cond(c: N, where: str, col_ok: Callable[[N], Optional[str]]) -> None:
    """A condition decided by the ordering / NULL pattern of the timestamps and by equality of reason texts."""
    k = c.kind
    if (k == 'col' and col_ok(c) == 'bool') or (k == 'lit' and isinstance(c.value, bool)):
        return
    if k == 'bin' and c.op in ('AND', 'OR'):
        order_exact_cond(c.left, where, col_ok)
        order_exact_cond(c.right, where, col_ok)
        return
    if k == 'un' and c.op == 'NOT':
        order_exact_cond(c.arg, where, col_ok)
        return
    if k == 'isnull':
        order_exact_value(c.arg, where, col_ok)
        return
    if k == 'bin' and c.op in ('=', '!=', '<', '<=', '>', '>=', '<=>'):
        t = _unify([order_exact_value(c.left, where, col_ok), order_exact_value(c.right, where, col_ok)], c, where)
        if t == 'text' and c.op not in ('=', '!=', '<=>'):
            raise AnalysisError(f'{where}: `{text(c)}` orders text values (collation not modelled)')
        return
    if k == 'in' and isinstance(c.items, list):
        _unify([order_exact_value(c.arg, where, col_ok)] + [order_exact_value(i, where, col_ok) for i in c.items], c, where)
        return
    raise AnalysisError(f'{where}: condition `{text(c)}` outside the analysed fragment (order abstraction not applicable)')


def local_type(sql_type: str) -> Optional[str]:
    """Abstract type of a DECLAREd trigger local: 'time' (integer types: holds a timestamp), 'text', 'bool'; None: not modelled."""
    t = sql_type.upper().split('(')[0].split()[0] if sql_type else ''
    if t in ('BIGINT', 'INT', 'INTEGER'):
        return 'time'
    if t in ('VARCHAR', 'CHAR', 'TEXT'):
        return 'text'
    if t in ('BOOLEAN', 'BOOL', 'TINYINT'):
        return 'bool'
    return None


def zeroing_reasons(body: List[N]) -> Dict[str, List[str]]:
    """Reason literals the trigger treats specially by erasing a timestamp: {literal: [columns set to NULL]}.
    (IF NEW.reason = '<lit>' THEN SET NEW.<time col> = NULL)"""
    out: Dict[str, List[str]] = {}
    for st, guard in sf.guarded_statements(body):
        if st.kind != 'set':
            continue
        nulled = [t.parts[1].lower() for t, v in st.assigns if t.kind == 'col' and len(t.parts) == 2 and t.parts[0].upper() == 'NEW'
                  and t.parts[1].lower() in TIME_COLS and v.kind == 'lit' and v.value is None]
        if not nulled:
            continue
        for c, pol in guard:
            if not pol:
                continue
            for a in sf.conjuncts(c):
                lits: List[str] = []
                if a.kind == 'bin' and a.op in ('=', '<=>'):
                    for x, y in ((a.left, a.right), (a.right, a.left)):
                        if x.kind == 'col' and [p.lower() for p in x.parts] == ['new', 'reason'] and y.kind == 'lit' and isinstance(y.value, str):
                            lits.append(y.value)
                elif a.kind == 'in' and not a.negated and isinstance(a.items, list) and a.arg.kind == 'col' and [p.lower() for p in a.arg.parts] == ['new', 'reason']:
                    lits += [y.value for y in a.items if y.kind == 'lit' and isinstance(y.value, str)]
                for lit in lits:
                    out.setdefault(lit, [])
                    out[lit] += [n for n in nulled if n not in out[lit]]
    return out


# ----------------------------------------------------------------------------------------------------
# symbolic value of a SET expression in one ordering class
# ----------------------------------------------------------------------------------------------------
class _Null:
    def __repr__(self) -> str:
        return 'NULL'


NULLV = _Null()
Lin = Tuple[Tuple[Tuple[int, int], ...], int]       # (((rank, coef), ...), const)


def _lin(coefs: Dict[int, int], const: int) -> Lin:
    return (tuple(sorted((r, c) for r, c in coefs.items() if c != 0 and r != ZERO)), const)


def _lin_add(a: Lin, b: Lin, sign: int = 1) -> Lin:
    d = dict(a[0])
    for r, c in b[0]:
        d[r] = d.get(r, 0) + sign * c
    return _lin(d, a[1] + sign * b[1])


class Forms:
    """max / min over linear forms in the rank atoms (kind 'one': a single form)."""

    def __init__(self, kind: str, forms: Sequence[Lin]):
        fs = sorted(set(forms))
        self.kind = 'one' if len(fs) == 1 else kind
        self.forms = fs

    def neg(self) -> 'Forms':
        return Forms({'one': 'one', 'max': 'min', 'min': 'max'}[self.kind], [_lin({r: -c for r, c in f[0]}, -f[1]) for f in self.forms])

    def add(self, o: 'Forms', what: N) -> 'Forms':
        kinds = {self.kind, o.kind} - {'one'}
        if len(kinds) > 1:
            raise AnalysisError(f'`{text(what)}` mixes GREATEST and LEAST under arithmetic (order abstraction not applicable)')
        return Forms(kinds.pop() if kinds else 'one', [_lin_add(a, b) for a in self.forms for b in o.forms])


class ValueEval:
    """Evaluates a SET expression of a writer for one ordering class.  `leaf(node)` returns None (NULL), a rank (int, ZERO allowed)
    or a str (reason text) for parameter / variable / column leaves."""

    def __init__(self, leaf: Callable[[N], Any]):
        self.leaf = leaf

    def forms(self, e: N) -> Any:
        k = e.kind
        if k in ('col', 'param'):
            v = self.leaf(e)
            if v is None:
                return NULLV
            if isinstance(v, str):
                raise AnalysisError(f'text value `{text(e)}` used in a timestamp expression')
            return Forms('one', [_lin({v: 1}, 0)])
        if k == 'lit':
            if e.value is None:
                return NULLV
            if isinstance(e.value, bool) or not isinstance(e.value, int):
                raise AnalysisError(f'literal `{text(e)}` in a timestamp expression (order abstraction not applicable)')
            return Forms('one', [_lin({}, e.value)])
        if k == 'cast':
            return self.forms(e.arg)
        if k == 'un' and e.op == '-':
            a = self.forms(e.arg)
            return a if a is NULLV else a.neg()
        if k == 'bin' and e.op in ('+', '-'):
            a, b = self.forms(e.left), self.forms(e.right)
            if a is NULLV or b is NULLV:
                return NULLV
            return a.add(b if e.op == '+' else b.neg(), e)
        if k == 'func' and e.name in ('GREATEST', 'LEAST') and e.args:
            vals = [self.forms(a) for a in e.args]
            if any(v is NULLV for v in vals):
                return NULLV      # MySQL: GREATEST/LEAST return NULL if any argument is NULL
            want = 'max' if e.name == 'GREATEST' else 'min'
            if any(v.kind not in ('one', want) for v in vals):
                raise AnalysisError(f'`{text(e)}` nests GREATEST and LEAST (order abstraction not applicable)')
            return Forms(want, [f for v in vals for f in v.forms])
        if k == 'func' and e.name in ('COALESCE', 'IFNULL') and e.args:
            for a in e.args:
                v = self.forms(a)
                if v is not NULLV:
                    return v
            return NULLV
        if k == 'func' and e.name == 'IF' and len(e.args) == 3:
            return self.forms(e.args[1] if self.cond(e.args[0]) else e.args[2])
        if k == 'func' and e.name == 'NULLIF' and len(e.args) == 2:
            return NULLV if self.cond(N('bin', op='=', left=e.args[0], right=e.args[1])) else self.forms(e.args[0])
        if k == 'case':
            for c, v in e.whens:
                if self.cond(c if e.arg is None else N('bin', op='=', left=e.arg, right=c)):
                    return self.forms(v)
            return self.forms(e.default) if e.default is not None else NULLV
        raise AnalysisError(f'attempt column assigned `{text(e)}`: not an expression over reported timestamps that the order abstraction can follow')

    @staticmethod
    def rank_of(v: Any, what: N) -> Optional[int]:
        if v is NULLV:
            return None
        ranks = []
        for coefs, const in v.forms:
            if const != 0 or len(coefs) > 1 or (coefs and coefs[0][1] != 1):
                raise AnalysisError(f'attempt column assigned `{text(what)}`: its value is not one of the reported timestamps '
                                    '(a computed offset; order abstraction not applicable)')
            ranks.append(coefs[0][0] if coefs else ZERO)
        return max(ranks) if v.kind in ('one', 'max') else min(ranks)

    def value(self, e: N) -> Optional[int]:
        return self.rank_of(self.forms(e), e)

    def _sign(self, a: Any, b: Any, what: N) -> int:
        """sign of a - b (both non-NULL)."""
        try:
            ra, rb = self.rank_of(a, what), self.rank_of(b, what)
            return (ra > rb) - (ra < rb)
        except AnalysisError:
            d = a.add(b.neg(), what)
            if d.kind == 'one' and d.forms[0][1] == 0:
                coefs = dict(d.forms[0][0])
                pos = [r for r, c in coefs.items() if c == 1]
                negs = [r for r, c in coefs.items() if c == -1]
                if len(pos) + len(negs) == len(coefs) and len(pos) <= 1 and len(negs) <= 1:
                    p = pos[0] if pos else ZERO
                    q = negs[0] if negs else ZERO
                    return (p > q) - (p < q)
            raise AnalysisError(f'comparison `{text(what)}` is not decided by the ordering of the reported timestamps')

    def cond3(self, c: N) -> Optional[bool]:
        k = c.kind
        if k == 'bin' and c.op in ('AND', 'OR'):
            a, b = self.cond3(c.left), self.cond3(c.right)
            if c.op == 'AND':
                return False if a is False or b is False else (None if a is None or b is None else True)
            return True if a is True or b is True else (None if a is None or b is None else False)
        if k == 'un' and c.op == 'NOT':
            a = self.cond3(c.arg)
            return None if a is None else not a
        if k == 'isnull':
            return (self._any(c.arg) is NULLV) != c.negated
        if k == 'bin' and c.op in ('=', '!=', '<>', '<', '<=', '>', '>=', '<=>'):
            a, b = self._any(c.left), self._any(c.right)
            if isinstance(a, str) or isinstance(b, str):
                if c.op == '<=>':
                    return (a is NULLV and b is NULLV) or (a is not NULLV and b is not NULLV and a == b)
                if a is NULLV or b is NULLV:
                    return None
                if c.op in ('=', '!=', '<>') and isinstance(a, str) and isinstance(b, str):
                    return (a.lower() == b.lower()) == (c.op == '=')
                raise AnalysisError(f'comparison `{text(c)}` of text with a timestamp')
            if c.op == '<=>':
                if a is NULLV or b is NULLV:
                    return a is NULLV and b is NULLV
                return self._sign(a, b, c) == 0
            if a is NULLV or b is NULLV:
                return None
            s = self._sign(a, b, c)
            return {'=': s == 0, '!=': s != 0, '<>': s != 0, '<': s < 0, '<=': s <= 0, '>': s > 0, '>=': s >= 0}[c.op]
        if k == 'in' and isinstance(c.items, list) and c.items:
            # a IN (x, ...)  ==  a = x OR ...   (three-valued), NOT IN its negation
            acc: Optional[bool] = False
            for it in c.items:
                r = self.cond3(N('bin', op='=', left=c.arg, right=it))
                acc = True if (acc is True or r is True) else (None if (acc is None or r is None) else False)
            return (None if acc is None else not acc) if c.negated else acc
        raise AnalysisError(f'condition `{text(c)}` inside an attempt column expression is outside the analysed fragment')

    def _any(self, e: N) -> Any:
        if e.kind == 'lit' and isinstance(e.value, str):
            return e.value
        if e.kind in ('col', 'param'):
            v = self.leaf(e)
            if isinstance(v, str):
                return v
        return self.forms(e)

    def cond(self, c: N) -> bool:
        return self.cond3(c) is True


# ----------------------------------------------------------------------------------------------------
# writers
# ----------------------------------------------------------------------------------------------------
class Writer:
    def __init__(self, wid: str, file: str, line: int, assigns: List[Tuple[str, N]], local_vars: Set[str], single_table: bool = True):
        self.wid = wid
        self.file = file
        self.line = line
        self.assigns = assigns              # [(column, value expression)] in SET order, only the four columns
        self.local_vars = local_vars        # names that denote routine parameters / variables (they shadow columns)
        self.single_table = single_table
        self.tsyms: List[str] = []          # free timestamp symbols (parameters / variables) in SET order of first use
        self.rsym: Optional[str] = None     # symbol supplying the reason, if any
        self._collect()
        # call-chain variants: (label, {symbol: 'nonnull'|'null'|'any'|'unknown'}, fresh_attempt, reason values or None)
        # 'unknown': the Python expression bound to the symbol is not followed (treated as unconstrained; see transitions_tagged)
        # fresh_attempt: True = the attempt id of this chain provably names an attempt that has not been billed (see id_provenance),
        #                False = not restricted, None = the provenance of the id is not decided (rows are flagged by transitions_ex)
        self.variants: List[Tuple[str, Dict[str, str], Optional[bool], Optional[Set[Optional[str]]]]] = []
        self.provs: List[Optional[List['Prov']]] = []      # parallel to variants: where the attempt id of the chain comes from (None: not traced)
        self.key_param: Optional[str] = None                # routine parameter compared with attempts.attempt_id in the WHERE of the UPDATE

    @property
    def sets(self) -> Dict[str, str]:
        return {c: self.sym_name(v) or text(v) for c, v in self.assigns}

    @property
    def cols(self) -> List[str]:
        return sorted({c for c, _ in self.assigns})

    def sym_name(self, e: N) -> Optional[str]:
        """Name of the free symbol a leaf denotes; None for literals / row columns."""
        if e.kind == 'param':
            return f'%s@{e.pos}'
        if e.kind == 'col' and len(e.parts) == 1:
            n = e.parts[0].lower()
            if n in self.local_vars or n not in COLS:
                return n
        return None

    def _text_symbols(self) -> Set[str]:
        """Symbols that carry text: the one copied into `reason`, and every symbol a time-column expression compares with a string literal
        or with the reason column.  The literals found are recorded in reason_lits (they partition the reason domain)."""
        out: Set[str] = set()
        for c, v in self.assigns:
            if c == 'reason' and v.kind in ('col', 'param') and self.sym_name(v) is not None:
                out.add(self.sym_name(v))

        def is_reason_col(n: N) -> bool:
            return n.kind == 'col' and self.sym_name(n) is None and n.parts[-1].lower() == 'reason'
        for c, v in self.assigns:
            if c not in TIME_COLS:
                continue
            for n in v.walk():
                sides: List[N] = []
                if n.kind == 'bin' and n.op in ('=', '!=', '<=>', '<', '<=', '>', '>='):
                    sides = [n.left, n.right]
                elif n.kind == 'in' and isinstance(n.items, list):
                    sides = [n.arg] + list(n.items)
                elif n.kind == 'case' and n.arg is not None:
                    sides = [n.arg] + [w for w, _ in n.whens]
                if not sides:
                    continue
                lits = [x.value for x in sides if x.kind == 'lit' and isinstance(x.value, str)]
                if lits or any(is_reason_col(x) for x in sides):
                    for x in sides:
                        if x.kind in ('col', 'param') and self.sym_name(x) is not None:
                            out.add(self.sym_name(x))
                    for lit in lits:
                        if lit not in self.reason_lits:
                            self.reason_lits.append(lit)
        return out

    def _collect(self) -> None:
        assigned: Set[str] = set()
        self.reason_lits: List[str] = []       # string literals the SET expressions of time columns compare a reason with
        text_syms = self._text_symbols()
        for s in sorted(text_syms):
            if not any(c == 'reason' and self.sym_name(v) == s for c, v in self.assigns):
                raise AnalysisError(f'{self.wid}: a timestamp of the attempt depends on the text parameter `{s}`, which is not the reason the statement stores '
                                    '(its values are not modelled)')
        for c, v in self.assigns:
            for n in v.walk():
                if c in TIME_COLS and n.kind in ('col', 'param') and self.sym_name(n) in text_syms:
                    self.rsym = self.sym_name(n)
                    continue
                if n.kind in ('subq', 'exists', 'select', 'uvar', 'hole'):
                    raise AnalysisError(f'{self.wid}: attempt column {c} assigned `{text(v)}` (sub-query / session variable / template hole)')
                if n.kind == 'col':
                    s = self.sym_name(n)
                    if s is None:
                        col = n.parts[-1].lower()
                        if col not in COLS or (len(n.parts) > 1 and n.parts[-2].lower() in ('old', 'new')):
                            raise AnalysisError(f'{self.wid}: attempt column {c} assigned `{text(v)}`, which reads `{text(n)}`')
                        if col in assigned and not self.single_table:
                            raise AnalysisError(f'{self.wid}: multi-table UPDATE reads `{text(n)}` after assigning it (evaluation order undefined)')
                    elif c in TIME_COLS:
                        if s not in self.tsyms:
                            self.tsyms.append(s)
                    else:
                        if not (v is n):
                            raise AnalysisError(f'{self.wid}: reason assigned a computed expression `{text(v)}`')
                        self.rsym = s
                elif n.kind == 'param':
                    s = self.sym_name(n)
                    if c in TIME_COLS:
                        if s not in self.tsyms:
                            self.tsyms.append(s)
                    else:
                        if not (v is n):
                            raise AnalysisError(f'{self.wid}: reason assigned a computed expression `{text(v)}`')
                        self.rsym = s
            if c == 'reason' and not (v.kind in ('col', 'param') or (v.kind == 'lit' and (v.value is None or isinstance(v.value, str)))):
                raise AnalysisError(f'{self.wid}: reason assigned a computed expression `{text(v)}`')
            assigned.add(c)

    def set_where(self, where: Optional[N], attempts_aliases: Sequence[str] = ('attempts',)) -> None:
        """Keep the WHERE conjuncts that are decided by the OLD values of the four columns and the statement's own symbols: rows they
        reject are not updated (no transition).  Every other conjunct is ignored, i.e. assumed to let the row through."""
        self.where_conds: List[N] = []
        if where is None or not self.single_table:
            return

        def col_ok(n: N) -> Optional[str]:
            s = self.sym_name(n)
            if s is not None:
                return 'text' if s == self.rsym else ('time' if s in self.tsyms else None)
            if len(n.parts) == 1 or (len(n.parts) == 2 and n.parts[0].lower() in attempts_aliases):
                col = n.parts[-1].lower()
                return 'text' if col == 'reason' else ('time' if col in TIME_COLS else None)
            return None
        for c in sf.conjuncts(where):
            if any(n.kind == 'param' and self.sym_name(n) not in self.tsyms and self.sym_name(n) != self.rsym for n in c.walk()):
                continue
            if not any(n.kind == 'col' and self.sym_name(n) is None and n.parts[-1].lower() in COLS for n in c.walk()):
                continue
            try:
                order_exact_cond(c, self.wid, col_ok)
            except AnalysisError:
                continue
            self.where_conds.append(c)

    def selects(self, old: Dict[str, Any], pv: Dict[str, Any], reason: Any) -> bool:
        """Does the UPDATE touch a row with these OLD values?  (only the conjuncts kept by set_where are consulted)"""
        conds = getattr(self, 'where_conds', None)
        if not conds:
            return True

        def leaf(n: N) -> Any:
            s = self.sym_name(n)
            if s is not None:
                if s == self.rsym and s not in pv:
                    return old['reason'] if reason == '<keep>' else reason
                return pv[s]
            return old[n.parts[-1].lower()]
        evl = ValueEval(leaf)
        try:
            return all(evl.cond3(c) is True for c in conds)
        except AnalysisError:
            return True

    def add_variant(self, label: str, classes: Dict[str, str], fresh: Optional[bool], rvals: Optional[Set[Optional[str]]], provs: Optional[List['Prov']] = None) -> None:
        self.variants.append((label, classes, fresh, rvals))
        self.provs.append(provs)

    def written_row(self, old: Dict[str, Any], pv: Dict[str, Any], reason: Any) -> Dict[str, Any]:
        """The NEW row the statement hands to the BEFORE UPDATE trigger (single-table UPDATE: assignments apply left to right)."""
        new = dict(old)

        def leaf(n: N) -> Any:
            s = self.sym_name(n)
            if s is not None:
                if s == self.rsym and s not in pv:
                    return old['reason'] if reason == '<keep>' else reason
                return pv[s]
            return new[n.parts[-1].lower()]
        evl = ValueEval(leaf)
        for c, v in self.assigns:
            if c in TIME_COLS:
                new[c] = evl.value(v)
            else:
                if v.kind == 'lit':
                    new[c] = v.value
                else:
                    new[c] = leaf(v)
        return new


def _inline_before(body: Sequence[N], upto: int, variables: Sequence[str]) -> Dict[str, N]:
    """Top-level `SET v = e` of body[:upto] for variables assigned exactly once in the whole routine (earlier ones substituted in)."""
    counts: Dict[str, int] = {}
    for st in sf.all_statements(body):
        targets: List[N] = []
        if st.kind == 'set':
            targets = [t for t, _ in st.assigns]
        elif st.kind in ('select', 'fetch') and getattr(st, 'into', None):
            targets = list(st.into)
        for t in targets:
            if sr.is_var(t):
                counts[t.parts[0].lower()] = counts.get(t.parts[0].lower(), 0) + 1
    vs = {v.lower() for v in variables}
    env: Dict[str, N] = {}
    for st in body[:upto]:
        if st.kind == 'set':
            for t, v in st.assigns:
                if sr.is_var(t) and t.parts[0].lower() in vs and counts.get(t.parts[0].lower()) == 1:
                    env[t.parts[0].lower()] = sr.inline_expr(v, env)
    return env


def _top_index(body: Sequence[N], st: N) -> int:
    for i, top in enumerate(body):
        if top is st or any(x is st for x in sf.all_statements([top])):
            return i
    return len(body)


def find_writers(ctx: Ctx, prog: sf.SqlProgram, rule: Optional[str] = 'R3') -> List[Writer]:
    """Every statement that writes one of the four columns.  With `rule`, INSERT/DELETE on attempts that bypass the UPDATE trigger are
    reported under that rule id."""
    out: List[Writer] = []
    for name, r in sorted(prog.routines.items()):
        a = r.ast
        local_vars = set(sr.declared_vars(a))
        for st in sf.all_statements(a.body):
            if st.kind == 'update' and 'attempts' in [t.lower() for t in sf.table_names(st.frm)]:
                tabs = [t for t in sf.from_tables(st.frm) if t.kind == 'table']
                alias = {(t.alias or t.name).lower(): t.name.lower() for t in tabs}
                env = _inline_before(a.body, _top_index(a.body, st), local_vars)
                assigns = []
                for c, v in st.sets:
                    if c.kind == 'col' and c.parts[-1].lower() in COLS and (len(c.parts) == 1 and tabs[0].name.lower() == 'attempts' or len(c.parts) > 1 and alias.get(c.parts[-2].lower()) == 'attempts'):
                        assigns.append((c.parts[-1].lower(), sr.inline_expr(v, env)))
                if assigns:
                    w = Writer(f'sql:{name}', r.file, r.line_of(st), assigns, local_vars, single_table=len(sf.from_tables(st.frm)) == 1)
                    w.set_where(st.where, [a_ for a_, t_ in alias.items() if t_ == 'attempts'])
                    for c in sf.conjuncts(st.where):
                        if c.kind == 'bin' and c.op == '=':
                            for x, y in ((c.left, c.right), (c.right, c.left)):
                                if x.kind == 'col' and x.parts[-1].lower() == 'attempt_id' and sr.is_var(y) and y.parts[0].lower() in local_vars and \
                                        (len(x.parts) == 1 or alias.get(x.parts[-2].lower()) == 'attempts'):
                                    w.key_param = y.parts[0].lower()
                    out.append(w)
            elif st.kind == 'insert' and st.table.lower() == 'attempts':
                cols = [c.lower() for c in (st.cols or [])]
                if rule:
                    # ON DUPLICATE KEY UPDATE of one of the four columns with anything but the column itself re-enters the row behind the trigger's back
                    dup_bad = [text(c) for c, v in st.on_dup if c.kind == 'col' and c.parts[-1].lower() in COLS and not (v.kind == 'col' and v.parts[-1].lower() == c.parts[-1].lower())]
                    ctx.check(not (set(cols) & set(COLS)) and not dup_bad, rule, f'sql::{name}::INSERT INTO attempts',
                              f'INSERT INTO attempts sets {sorted(set(cols) & set(COLS))} / updates on duplicate: those values bypass or re-enter the BEFORE UPDATE trigger unchecked', r.file, r.line_of(st))
                out.append(Writer(f'sql:{name}::duplicate-insert no-op', r.file, r.line_of(st), [], set()))
    for rel in pf.walk_py(PY_DIRS):
        m = pf.load(rel)
        if 'attempts' not in m.src:
            continue
        for e in sf.embedded_in(m):
            if e.sql_text is None or 'attempts' not in e.sql_text:
                continue
            for st in e.stmts():
                if st.kind == 'update' and [t.lower() for t in sf.table_names(st.frm)][:1] == ['attempts']:
                    assigns = [(c.parts[-1].lower(), v) for c, v in st.sets if c.kind == 'col' and c.parts[-1].lower() in COLS]
                    if assigns:
                        w = Writer(f'py:{rel}::{e.qual}', m.path, e.lineno, assigns, set(), single_table=len(sf.from_tables(st.frm)) == 1)
                        w.set_where(st.where)
                        w.embedded = e          # type: ignore[attr-defined]
                        w.stmt = st             # type: ignore[attr-defined]
                        out.append(w)
                elif st.kind in ('insert', 'delete') and any(t.lower() == 'attempts' for t, _ in sf.written_tables(st)):
                    cols = [c.lower() for c in (getattr(st, 'cols', None) or [])]
                    if rule:
                        ctx.check(st.kind == 'insert' and not (set(cols) & set(COLS)), rule, f'{rel}::{e.qual}::{st.kind} attempts', f'{st.kind} on attempts outside the trigger-protected UPDATE path', m.path, e.lineno)
    return out


# ----------------------------------------------------------------------------------------------------
# Python call chains: NULL classes of timestamp arguments, reason literals
# ----------------------------------------------------------------------------------------------------
# Worker-supplied JSON fields: NULL-ness cannot be seen in the driver; frozen table, one reason per line.  Keyed by the handler function and
# the key path below the decoded request body (locals holding sub-objects are followed, so their names do not matter).
WORKER_FIELDS = {
    ("job_complete_1", ('status', 'start_time')): ('any', 'a job that failed before starting reports start_time None'),
    ("job_complete_1", ('status', 'end_time')): ('nonnull', 'worker.py post_job_complete_1 asserts job.end_time before posting'),
    ("job_started_1", ('status', 'start_time')): ('nonnull', 'the worker sets start_time = time_msecs() before it posts job_started (status schema: start_time: int)'),
    ("billing_update_1", ('timestamp',)): ('nonnull', 'the worker posts billing updates with timestamp = time_msecs()'),
}


def _param_names(fn: pf.FuncDef) -> List[str]:
    return [a.arg for a in fn.args.posonlyargs + fn.args.args]


def _is_method(fn: pf.FuncDef) -> bool:
    names = _param_names(fn)
    return bool(names) and names[0] in ('self', 'cls') and not any(pf.dotted(d) == 'staticmethod' for d in fn.decorator_list)


def default_of(fn: pf.FuncDef, name: str) -> Optional[ast.expr]:
    args = fn.args.posonlyargs + fn.args.args
    defaults = fn.args.defaults
    off = len(args) - len(defaults)
    for i, a in enumerate(args):
        if a.arg == name and i >= off:
            return defaults[i - off]
    for a, d in zip(fn.args.kwonlyargs, fn.args.kw_defaults):
        if a.arg == name:
            return d
    return None


def _has_default(fn: pf.FuncDef, p: str) -> bool:
    return default_of(fn, p) is not None


def bound_arg(call: ast.Call, fn: pf.FuncDef, param: str) -> Tuple[str, Optional[ast.expr]]:
    """('arg', expr) | ('default', default expr) | ('incompatible', None) | ('unknown', None).
    A call through an attribute to a method binds `self` implicitly.  'incompatible': this call cannot be a call of fn
    (too many positional arguments, an unknown keyword, or a required parameter left out - it would raise TypeError)."""
    if any(isinstance(a, ast.Starred) for a in call.args) or any(k.arg is None for k in call.keywords):
        return ('unknown', None)
    names = _param_names(fn)
    shift = 1 if _is_method(fn) and isinstance(call.func, ast.Attribute) else 0
    pos = names[shift:]
    kwonly = [a.arg for a in fn.args.kwonlyargs]
    if len(call.args) > len(pos) and fn.args.vararg is None:
        return ('incompatible', None)
    given = set(pos[:len(call.args)])
    for k in call.keywords:
        if k.arg not in pos and k.arg not in kwonly and fn.args.kwarg is None:
            return ('incompatible', None)
        given.add(k.arg)
    for p in pos + kwonly:
        if p not in given and not _has_default(fn, p):
            return ('incompatible', None)
    if param in pos and pos.index(param) < len(call.args):
        return ('arg', call.args[pos.index(param)])
    for k in call.keywords:
        if k.arg == param:
            return ('arg', k.value)
    if param in pos or param in kwonly:
        return ('default', default_of(fn, param))
    return ('unknown', None)


def callers_of(fn: pf.FuncDef) -> List[Tuple[pf.Module, Optional[pf.FuncDef], ast.Call]]:
    """Call sites (by name) in the driver packages that can be calls of fn."""
    out = []
    for m2, f2, call in cs.call_sites(PY_DIRS, fn.name):
        if f2 is fn:
            continue
        if bound_arg(call, fn, '')[0] == 'incompatible':
            continue
        out.append((m2, f2, call))
    return out


Classes = List[Tuple[str, str]]        # (class, origin); class: 'nonnull' | 'null' | 'any' (both occur) | 'unknown' (the expression is not followed)
_NEG_KIND = {'truthy': 'falsy', 'falsy': 'truthy', 'isnone': 'notnone', 'notnone': 'isnone'}
_NONNULL_BUILTINS = {'int', 'max', 'min', 'round', 'abs', 'float', 'len'}


def _null_test(test: ast.expr) -> Optional[Tuple[str, str]]:
    """(local name, kind) for a test that speaks about the None-ness of one local; kind: 'truthy' | 'falsy' | 'isnone' | 'notnone'."""
    if isinstance(test, ast.Name):
        return (test.id, 'truthy')
    if isinstance(test, ast.UnaryOp) and isinstance(test.op, ast.Not):
        inner = _null_test(test.operand)
        return (inner[0], _NEG_KIND[inner[1]]) if inner else None
    if isinstance(test, ast.Compare) and len(test.ops) == 1 and isinstance(test.left, ast.Name) and isinstance(test.comparators[0], ast.Constant) \
            and test.comparators[0].value is None:
        if isinstance(test.ops[0], (ast.Is, ast.Eq)):
            return (test.left.id, 'isnone')
        if isinstance(test.ops[0], (ast.IsNot, ast.NotEq)):
            return (test.left.id, 'notnone')
    return None


def _established(kind: str, polarity: bool) -> Optional[str]:
    """What the outcome of a None-ness test establishes about the tested local: 'nonnull' | 'null' | None (a falsy value may be None or 0)."""
    if not polarity:
        kind = _NEG_KIND[kind]
    return {'truthy': 'nonnull', 'notnone': 'nonnull', 'isnone': 'null', 'falsy': None}[kind]


def _restrict(classes: Classes, to: Optional[str]) -> Classes:
    if to is None:
        return classes
    return [(to, f'{o} (tested)') for c, o in classes if c == to or c in ('any', 'unknown')]


def _stmt_of(m: pf.Module, node: ast.AST) -> Optional[ast.stmt]:
    par = m.parents()
    cur: Optional[ast.AST] = node
    while cur is not None and not isinstance(cur, ast.stmt):
        cur = par.get(cur)
    return cur      # type: ignore[return-value]


def _inside(m: pf.Module, node: ast.AST, anc: ast.AST) -> bool:
    par = m.parents()
    cur: Optional[ast.AST] = node
    while cur is not None:
        if cur is anc:
            return True
        cur = par.get(cur)
    return False


def _use_site_facts(m: pf.Module, fn: pf.FuncDef, x: ast.Name) -> List[str]:
    """'nonnull' / 'null' facts the enclosing if-statements / conditional expressions establish about local x.id where x is read.
    A test counts only if the local is not re-assigned inside the tested construct (other than by the statement that contains the read)."""
    par = m.parents()
    if x not in par:
        return []
    own = _stmt_of(m, x)
    assigns = [n for n in pf.walk_shallow(fn) if isinstance(n, (ast.Assign, ast.AnnAssign, ast.AugAssign, ast.NamedExpr, ast.For, ast.AsyncFor, ast.With, ast.AsyncWith))
               and any(isinstance(t, ast.Name) and t.id == x.id and isinstance(t.ctx, ast.Store) for t in ast.walk(n))]
    out: List[str] = []
    cur: ast.AST = x
    p = par.get(cur)
    while p is not None and cur is not fn:
        pol: Optional[bool] = None
        if isinstance(p, ast.If) and cur is not p.test:
            pol = True if any(cur is s_ for s_ in p.body) else (False if any(cur is s_ for s_ in p.orelse) else None)
        elif isinstance(p, ast.IfExp) and cur is not p.test:
            pol = True if cur is p.body else (False if cur is p.orelse else None)
        if pol is not None:
            nt = _null_test(p.test)
            if nt is not None and nt[0] == x.id and not any(a is not own and _inside(m, a, p) for a in assigns):
                est = _established(nt[1], pol)
                if est is not None:
                    out.append(est)
        cur = p
        p = par.get(cur)
    return out


def _json_path(fn: Optional[pf.FuncDef], e: ast.AST) -> Optional[Tuple[str, ...]]:
    """Key path of `e` below the decoded body of the request (`(await json_request(request))['status']['start_time']`, through single-definition locals)."""
    keys: List[str] = []
    cur = e
    for _ in range(12):
        if isinstance(cur, ast.Await):
            cur = cur.value
        elif isinstance(cur, ast.Subscript) and pf.const_str(cur.slice) is not None:
            keys.append(pf.const_str(cur.slice))        # type: ignore[arg-type]
            cur = cur.value
        elif isinstance(cur, ast.Name) and fn is not None:
            d = pf.single_def(fn, cur.id)
            if not isinstance(d, ast.expr):
                return None
            cur = d
        else:
            break
    if isinstance(cur, ast.Call) and pf.call_name(cur) in JSON_SOURCES and keys:
        return tuple(reversed(keys))
    return None


_resolving: Dict[Tuple[int, str], Classes] = {}


def _param_classes(ctx: Ctx, m: pf.Module, fn: pf.FuncDef, name: str, depth: int) -> Classes:
    if depth <= 0:
        return [('unknown', f'{m.rel}::{fn.name}({name}) call depth exhausted')]
    out: Classes = []
    for m2, f2, call in callers_of(fn):
        how, a = bound_arg(call, fn, name)
        if how == 'default':
            if a is not None:
                out += classify_time(ctx, m, None, a, 0)
            else:
                out.append(('unknown', f'{m2.rel}:{call.lineno} argument not found'))
            continue
        if how != 'arg' or a is None:
            out.append(('unknown', f'{m2.rel}:{call.lineno} argument not found'))
            continue
        out += classify_time(ctx, m2, f2, a, depth - 1)
    return out or [('unknown', f'no call sites of {fn.name}')]


def _classify_name(ctx: Ctx, m: pf.Module, fn: pf.FuncDef, x: ast.Name, depth: int) -> Classes:
    key = (id(fn), x.id)
    if key in _resolving:
        return list(_resolving[key])        # a read inside the expression that re-defines the local: the value it had before
    defs = pf.assignments(fn).get(x.id, [])
    params = [a for a in defs if isinstance(a, ast.arg)]
    others = [d for d in defs if not isinstance(d, ast.arg)]
    unknown: Classes = [('unknown', f'{m.rel}:{getattr(x, "lineno", 0)} `{x.id}` has definitions the NULL-class analysis does not follow')]
    if not defs:
        return [('unknown', f'{m.rel}:{getattr(x, "lineno", 0)} `{x.id}` is not a local of {fn.name}')]
    if not all(isinstance(d, ast.expr) for d in others):
        return unknown
    if params and not others:
        return _param_classes(ctx, m, fn, x.id, depth)

    def of_def(d: ast.expr, before: Classes) -> Classes:
        _resolving[key] = before
        try:
            return classify_time(ctx, m, fn, d, depth)
        finally:
            del _resolving[key]
    if not params:
        out: Classes = []
        for d in others:
            out += of_def(d, [('unknown', f'{m.rel}:{getattr(d, "lineno", 0)} `{x.id}` is defined in terms of itself')])
        return out
    pcls = _param_classes(ctx, m, fn, x.id, depth)
    par = m.parents()
    sts = [_stmt_of(m, d) for d in others]
    if any(s_ is None for s_ in sts):
        return unknown
    if len(others) == 1:
        d, st = others[0], sts[0]
        cd = of_def(d, pcls)
        if _straight_dominates(m, fn, st, x):
            return cd                       # unconditional re-definition in front of the read
        p = par.get(st)
        if isinstance(p, ast.If) and _straight_dominates(m, fn, p, x) and (any(st is s_ for s_ in p.body) or any(st is s_ for s_ in p.orelse)):
            in_body = any(st is s_ for s_ in p.body)
            nt = _null_test(p.test)
            keep = _restrict(pcls, _established(nt[1], not in_body)) if nt is not None and nt[0] == x.id else pcls
            return cd + keep                # the parameter's own value survives on the other branch
        return unknown
    if len(others) == 2:
        p = par.get(sts[0])
        if isinstance(p, ast.If) and par.get(sts[1]) is p and _straight_dominates(m, fn, p, x):
            a_body = [any(s_ is t for t in p.body) for s_ in sts]
            a_else = [any(s_ is t for t in p.orelse) for s_ in sts]
            if (a_body[0] and a_else[1]) or (a_body[1] and a_else[0]):
                return of_def(others[0], pcls) + of_def(others[1], pcls)
    return unknown


def classify_time(ctx: Ctx, m: pf.Module, fn: Optional[pf.FuncDef], x: ast.expr, depth: int = 3) -> Classes:
    """Possible NULL-classes of a Python expression bound to a timestamp parameter: list of (class, origin).  'unknown' = the expression
    is not followed: a verdict that depends on its NULL-ness must be declined by the caller (it is neither evidence for NULL nor against)."""
    if isinstance(x, ast.Await):
        return classify_time(ctx, m, fn, x.value, depth)
    if isinstance(x, ast.Constant):
        if x.value is None:
            return [('null', f'{m.rel}:{x.lineno} None')]
        if isinstance(x.value, (int, float)) and not isinstance(x.value, bool):
            return [('nonnull', f'{m.rel}:{x.lineno} {x.value!r}')]
    if isinstance(x, ast.Call) and pf.call_name(x) == 'time_msecs':
        return [('nonnull', f'{m.rel}:{x.lineno} time_msecs()')]
    if isinstance(x, ast.Call) and isinstance(x.func, ast.Name) and x.func.id in _NONNULL_BUILTINS:
        return [('nonnull', f'{m.rel}:{x.lineno} {x.func.id}(..) returns a number')]
    if isinstance(x, ast.BinOp) and isinstance(x.op, (ast.Add, ast.Sub, ast.Mult, ast.FloorDiv, ast.Div, ast.Mod)):
        return [('nonnull', f'{m.rel}:{x.lineno} arithmetic yields a number (or raises)')]
    if isinstance(x, ast.IfExp):
        return classify_time(ctx, m, fn, x.body, depth) + classify_time(ctx, m, fn, x.orelse, depth)
    if isinstance(x, ast.BoolOp) and isinstance(x.op, ast.Or):
        # `a or b`: a when a is truthy (then it is not None), otherwise b
        out: Classes = []
        for v in x.values[:-1]:
            if any(c != 'null' for c, _ in classify_time(ctx, m, fn, v, depth)):
                out.append(('nonnull', f'{m.rel}:{x.lineno} truthy operand of `or`'))
        return out + classify_time(ctx, m, fn, x.values[-1], depth)
    if isinstance(x, ast.Name) and fn is not None:
        base = _classify_name(ctx, m, fn, x, depth)
        for est in _use_site_facts(m, fn, x):
            base = _restrict(base, est)
        return base
    if isinstance(x, ast.Subscript) and fn is not None:
        path = _json_path(fn, x)
        if path is not None and (fn.name, path) in WORKER_FIELDS:
            cls, why = WORKER_FIELDS[(fn.name, path)]
            shown = 'body' + ''.join(f'[{k!r}]' for k in path)
            ctx.assume(f'worker-supplied {shown} in {fn.name} is {cls}: {why}')
            return [(cls, f'{m.rel}::{fn.name} {shown}')]
    return [('unknown', f'{m.rel}:{getattr(x, "lineno", 0)} `{pf.nsrc(x)[:40]}` is not followed')]


class Frame:
    """One hop of a call chain: `call` inside function `fn` of module `m`."""

    def __init__(self, m: pf.Module, fn: Optional[pf.FuncDef], call: ast.Call):
        self.m = m
        self.fn = fn
        self.call = call

    @property
    def label(self) -> str:
        return f'{self.m.rel}::{self.m.qualname(self.fn) if self.fn is not None else "<module>"}'


def trace_strings(m: pf.Module, fn: Optional[pf.FuncDef], e: ast.expr, frames: Tuple[Frame, ...], depth: int = 4) -> List[Tuple[Optional[str], Tuple[Frame, ...], str]]:
    """Where the string value of expression `e` (evaluated in fn) comes from.  Each result: (literal or None, frames, note) where frames
    lists the calls the value travels through, outermost (the one that names the literal) first.  None = not a resolvable literal."""
    s = pf.const_str(e)
    if s is not None:
        return [(s, frames, '')]
    if isinstance(e, ast.Constant) and e.value is None:
        return [(None, frames, 'None')]
    if isinstance(e, ast.IfExp):
        return trace_strings(m, fn, e.body, frames, depth) + trace_strings(m, fn, e.orelse, frames, depth)
    if isinstance(e, ast.Name) and fn is not None:
        defs = pf.assignments(fn).get(e.id, [])
        params = [d for d in defs if isinstance(d, ast.arg)]
        others = [d for d in defs if not isinstance(d, ast.arg)]
        out: List[Tuple[Optional[str], Tuple[Frame, ...], str]] = []
        if not defs:
            # not a local: a module-level constant?
            try:
                g = m.global_assign(e.id)
            except Exception:
                g = None
            gs = pf.const_str(g) if g is not None else None
            return [(gs, frames, '' if gs is not None else f'{m.rel}:{e.lineno} {e.id} is not a local or a module-level string constant')]
        for d in others:
            if isinstance(d, ast.expr):
                out += trace_strings(m, fn, d, frames, depth)
            else:
                out.append((None, frames, f'{m.rel}:{getattr(d, "lineno", 0)} opaque definition of {e.id}'))
        if params:
            if depth <= 0:
                out.append((None, frames, f'{m.rel}::{fn.name}({e.id}) call depth exhausted'))
                return out
            sites = callers_of(fn)
            if not sites:
                out.append((None, frames, f'no call sites of {fn.name}'))
            for m2, f2, call in sites:
                how, a = bound_arg(call, fn, e.id)
                fr = (Frame(m2, f2, call),) + frames
                if how in ('arg', 'default') and a is not None:
                    out += trace_strings(m2, f2 if how == 'arg' else None, a, fr, depth - 1)
                else:
                    out.append((None, fr, f'{m2.rel}:{call.lineno} argument for {e.id} not found'))
        return out
    return [(None, frames, f'{m.rel}:{getattr(e, "lineno", 0)} {pf.nsrc(e)[:40]}')]


class ProcCall:
    """`CALL proc(%s, ...)` issued from Python: procedure parameter -> Python expression."""

    def __init__(self, m: pf.Module, e: sf.Embedded, bind: Dict[str, ast.expr]):
        self.m = m
        self.e = e
        self.bind = bind


def proc_calls(ctx: Ctx, prog: sf.SqlProgram, rels: Sequence[str] = ('batch/batch/driver/job.py', 'batch/batch/driver/instance.py')) -> Dict[str, ProcCall]:
    calls: Dict[str, ProcCall] = {}
    for rel in rels:
        m = pf.load(rel)
        for e in sf.embedded_in(m):
            if e.sql_text is None:
                continue
            sts = e.stmts()
            if len(sts) == 1 and sts[0].kind == 'call':
                elts = sr.args_tuple(e.fn, e.call.args[1] if len(e.call.args) > 1 else None)
                if elts is not None and sts[0].name in prog.routines:
                    params = [p[1].lower() for p in prog.routine(sts[0].name).ast.params]
                    ctx.need(len(params) == len(elts), f'CALL {sts[0].name}: arity mismatch between procedure and Python site')
                    calls[sts[0].name] = ProcCall(m, e, dict(zip(params, elts)))
    return calls


def _leading_elts(fn: Optional[pf.FuncDef], arg: Optional[ast.AST]) -> List[ast.expr]:
    """The elements an argument sequence is known to start with: `[a, b, *rest]`, `(a, b) + rest`, `[a] + rest` -> [a, b] / [a]."""
    if isinstance(arg, ast.Name) and fn is not None:
        arg = pf.resolve_expr(fn, arg)
    if isinstance(arg, (ast.List, ast.Tuple)):
        out: List[ast.expr] = []
        for x in arg.elts:
            if isinstance(x, ast.Starred):
                break
            out.append(x)
        return out
    if isinstance(arg, ast.BinOp) and isinstance(arg.op, ast.Add):
        left = _leading_elts(fn, arg.left)
        l0 = pf.resolve_expr(fn, arg.left) if fn is not None and isinstance(arg.left, ast.Name) else arg.left
        if isinstance(l0, (ast.List, ast.Tuple)) and len(left) == len(l0.elts):
            return left + _leading_elts(fn, arg.right)
        return left
    return []


def _one_class(cl: List[Tuple[str, str]]) -> str:
    kinds = {c for c, _ in cl}
    if 'unknown' in kinds or not kinds:
        return 'unknown'
    return kinds.pop() if len(kinds) == 1 else 'any'


def refine_from_callers(ctx: Ctx, prog: sf.SqlProgram, ws: List[Writer]) -> None:
    """Per call chain: NULL-class of each timestamp parameter and the reason values (closed set of CALL sites in the driver)."""
    calls = proc_calls(ctx, prog)
    for w in ws:
        tsyms = list(w.tsyms)
        if w.wid.startswith('py:'):
            # embedded UPDATE: bind %s parameters positionally
            e = w.embedded       # type: ignore[attr-defined]
            m = e.module
            params = sr.params_in_order(w.stmt)     # type: ignore[attr-defined]
            arg = e.call.args[1] if len(e.call.args) > 1 else None
            arg = pf.resolve_expr(e.fn, arg) if arg is not None and e.fn is not None else arg
            leading = _leading_elts(e.fn, arg)
            classes = {}
            for s_ in tsyms:
                x = None
                if s_.startswith('%s@'):
                    pos = int(s_.split('@')[1])
                    idx = [p.pos for p in params].index(pos)
                    x = leading[idx] if idx < len(leading) else None
                cl = classify_time(ctx, m, e.fn, x) if x is not None else [('unknown', 'unbound')]
                classes[s_] = _one_class(cl)
            w.add_variant(e.qual, classes, False, None)
            continue
        name = w.wid[4:].split('::')[0]
        if not w.assigns:
            w.add_variant('no-op', {}, False, None)
            continue
        if name not in calls:
            w.add_variant('unresolved callers', {s_: 'unknown' for s_ in tsyms}, False, None)
            continue
        pc = calls[name]
        m, e, bind = pc.m, pc.e, pc.bind
        wrapper = e.fn
        wparams = [a.arg for a in wrapper.args.posonlyargs + wrapper.args.args + wrapper.args.kwonlyargs]
        forwarded = {s_: bind[s_].id for s_ in tsyms if s_ in bind and isinstance(bind[s_], ast.Name) and bind[s_].id in wparams
                     and not [d for d in pf.assignments(wrapper).get(bind[s_].id, []) if not isinstance(d, ast.arg)]}
        rs = w.rsym
        r_forwarded = rs in bind and isinstance(bind[rs], ast.Name) and bind[rs].id in wparams
        if forwarded or r_forwarded:
            # one variant per caller of the wrapper
            for m2, f2, call in callers_of(wrapper):
                classes = {}
                for s_ in tsyms:
                    if s_ in forwarded:
                        how, a = bound_arg(call, wrapper, forwarded[s_])
                        if how == 'default' and a is not None:
                            cl = classify_time(ctx, m, None, a, 0)
                        else:
                            cl = classify_time(ctx, m2, f2, a) if how == 'arg' and a is not None else [('unknown', 'missing')]
                    else:
                        cl = classify_time(ctx, m, wrapper, bind[s_]) if s_ in bind else [('unknown', 'unbound')]
                    classes[s_] = _one_class(cl)
                rvals: Optional[Set[Optional[str]]] = None
                if rs in bind:
                    if r_forwarded:
                        how, a = bound_arg(call, wrapper, bind[rs].id)
                        srcs = trace_strings(m2, f2, a, ()) if how in ('arg', 'default') and a is not None else [(None, (), 'missing')]
                    else:
                        srcs = trace_strings(m, wrapper, bind[rs], ())
                    rvals = {v for v, _, _ in srcs} if all(v is not None or note == 'None' for v, _, note in srcs) else None
                # an attempt id that is literally None never matches a row: the UPDATE is a no-op
                aid = bind.get(w.key_param) if w.key_param else None
                provs: Optional[List[Prov]] = None
                if isinstance(aid, ast.Name) and aid.id in wparams and not [d for d in pf.assignments(wrapper).get(aid.id, []) if not isinstance(d, ast.arg)]:
                    how, av = bound_arg(call, wrapper, aid.id)
                    if isinstance(av, ast.Constant) and av.value is None:
                        ctx.info(f'{m2.rel}:{call.lineno} calls {wrapper.name} with attempt_id None: `attempt_id = NULL` matches no row, no update happens')
                        continue
                    # which attempts row can this chain's report land on?  (def-use provenance of the id, through callers)
                    if how == 'arg' and av is not None:
                        provs = id_provenance(prog, m2, f2, av, call)
                    elif how == 'default' and av is not None:
                        provs = id_provenance(prog, m, None, av, call)
                w.add_variant(f'{m2.rel}::{m2.qualname(f2) if f2 else "<module>"}', classes, fresh_state(provs), rvals, provs)
        else:
            classes = {}
            for s_ in tsyms:
                cl = classify_time(ctx, m, wrapper, bind[s_]) if s_ in bind else [('unknown', 'unbound')]
                classes[s_] = _one_class(cl)
            rvals = None
            if rs in bind:
                srcs = trace_strings(m, wrapper, bind[rs], ())
                rvals = {v for v, _, _ in srcs} if all(v is not None or note == 'None' for v, _, note in srcs) else None
            w.add_variant(f'{m.rel}::{m.qualname(wrapper)}', classes, False, rvals)
        if any(v[2] for v in w.variants):
            ctx.assume('an attempt id minted by the id generator (' + ', '.join(sorted(MINT_FUNCS)) + ') in the same scheduling pass, or jobs.attempt_id of a job selected WHERE jobs.state = \'Creating\', names '
                       'an attempt that has not ended and has not been billed (OLD: end_time NULL, reason NULL, rollup <= start or one of them NULL): either no row yet, or the row mark_job_creating made '
                       '(start = rollup) whose job was never sent to a worker, so no billing heartbeat has moved rollup_time.  WHERE the id comes from is decided by def-use provenance (C03 R5); '
                       'that such a row is unbilled is the assumption.')
        for note in sorted(_prov_notes):
            ctx.assume('id provenance: ' + note)


# ----------------------------------------------------------------------------------------------------
# provenance of an attempt id: which `attempts` row can a report land on?
# ----------------------------------------------------------------------------------------------------
# A report that carries no times (mark_job_errored: start NULL, end NULL -> rollup NULL) is only harmless for an attempt that has not
# been billed.  Whether the id a call chain hands to the CALL names such an attempt is a def-use question:
#   'minted'    produced by the id generator in the same scheduling pass (names no row, or the row mark_job_creating made in that pass)
#   'creating'  jobs.attempt_id of a job selected WHERE jobs.state = 'Creating' (the attempt mark_job_creating made: start = rollup)
#   'existing'  read from `attempts` (any attempt of the job), jobs.attempt_id of a job in another state, or reported by a worker
#   'none'      the literal None (matches no row)
#   'unknown'   anything else
MINT_FUNCS = {'secret_alnum_string'}
JSON_SOURCES = {'json_request', 'json'}
ROW_METHODS_ONE = {'execute_and_fetchone', 'select_and_fetchone'}
ROW_METHODS_MANY = {'execute_and_fetchall', 'select_and_fetchall'}
FRESH_KINDS = {'minted', 'creating', 'none'}
HOF_NOTE = ('a function object passed as a positional argument of a call is invoked with the positional / keyword arguments that follow it '
            '(waitable_pool.call(f, *args) / retry_transient_errors(f, *args) idiom)')
_prov_notes: Set[str] = set()


class Prov:
    def __init__(self, kind: str, why: str, rel: str, line: int):
        self.kind = kind
        self.why = why
        self.rel = rel
        self.line = line

    def __repr__(self) -> str:
        return f'{self.kind}: {self.why} ({self.rel}:{self.line})'


def _enclosing_fn(m: pf.Module, fn: pf.FuncDef) -> Optional[pf.FuncDef]:
    """The function a nested def lives in (None for module-level functions and methods)."""
    p = m.parents().get(fn)
    while p is not None:
        if isinstance(p, (ast.FunctionDef, ast.AsyncFunctionDef)):
            return p
        if isinstance(p, ast.ClassDef):
            return None
        p = m.parents().get(p)
    return None


def all_call_sites(m: pf.Module, fn: pf.FuncDef) -> Tuple[List[Tuple[pf.Module, Optional[pf.FuncDef], ast.Call, ast.Call]], List[Tuple[pf.Module, ast.AST]]]:
    """(sites, other references).  A site is (module, enclosing function, call as seen by the callee, the real call node): direct calls by
    name and calls that pass the function object followed by its arguments.  For a nested def only its enclosing function is searched."""
    outer = _enclosing_fn(m, fn)
    sites: List[Tuple[pf.Module, Optional[pf.FuncDef], ast.Call, ast.Call]] = []
    other: List[Tuple[pf.Module, ast.AST]] = []
    if outer is not None:
        scopes: List[Tuple[pf.Module, ast.AST]] = [(m, outer)]
    else:
        scopes = []
        for rel in pf.walk_py(PY_DIRS):
            m2 = pf.load(rel)
            if fn.name in m2.src:
                scopes.append((m2, m2.tree))

    def is_ref(x: ast.AST) -> bool:
        return (isinstance(x, ast.Name) and x.id == fn.name) or (outer is None and isinstance(x, ast.Attribute) and x.attr == fn.name)
    for m2, root in scopes:
        used: Set[int] = set()
        for n in ast.walk(root):
            if not isinstance(n, ast.Call):
                continue
            if is_ref(n.func):
                used.add(id(n.func))
                if n is not None and m2.enclosing_func(n) is not fn and bound_arg(n, fn, '')[0] != 'incompatible':
                    sites.append((m2, m2.enclosing_func(n), n, n))
                continue
            for i, a in enumerate(n.args):
                if is_ref(a):
                    used.add(id(a))
                    syn = ast.Call(func=ast.Name(id=fn.name, ctx=ast.Load()), args=list(n.args[i + 1:]), keywords=list(n.keywords))
                    ast.copy_location(syn, n)
                    ast.copy_location(syn.func, n)
                    if bound_arg(syn, fn, '')[0] != 'incompatible':
                        _prov_notes.add(HOF_NOTE)
                        sites.append((m2, m2.enclosing_func(n), syn, n))
                    break
        for n in ast.walk(root):
            if isinstance(n, (ast.Name, ast.Attribute)) and isinstance(getattr(n, 'ctx', None), ast.Load) and is_ref(n) and id(n) not in used:
                if outer is None and isinstance(n, ast.Attribute):
                    continue        # x.name that is not called: some other object's attribute
                other.append((m2, n))
    return sites, other


def _straight_dominates(m: pf.Module, fn: pf.FuncDef, stmt: ast.AST, at: ast.AST) -> bool:
    """stmt is an earlier sibling of `at` or of one of its ancestors inside fn (so it ran before `at` on every path to it)."""
    par = m.parents()
    cur: Optional[ast.AST] = at
    while cur is not None and cur is not fn:
        p = par.get(cur)
        if p is None:
            return False
        for field in ('body', 'orelse', 'finalbody'):
            lst = getattr(p, field, None)
            if isinstance(lst, list) and any(x is cur for x in lst):
                idx = [i for i, x in enumerate(lst) if x is cur][0]
                if any(x is stmt for x in lst[:idx]):
                    return True
        cur = p
    return False


def _const_key(e: ast.AST) -> Optional[str]:
    if isinstance(e, ast.Subscript):
        return pf.const_str(e.slice)
    if isinstance(e, ast.Call) and isinstance(e.func, ast.Attribute) and e.func.attr == 'get' and e.args:
        return pf.const_str(e.args[0])
    return None


def _key_base(e: ast.AST) -> ast.AST:
    return e.value if isinstance(e, ast.Subscript) else e.func.value    # type: ignore[union-attr]


class _ProvTracer:
    def __init__(self, prog: sf.SqlProgram, field: str = 'attempt_id'):
        self.prog = prog
        self.id_col = field
        self.active: Set[Tuple[int, str, str]] = set()

    # -- values ---------------------------------------------------------------------------------------
    def value(self, m: pf.Module, fn: Optional[pf.FuncDef], e: ast.AST, at: ast.AST, depth: int = 10) -> List[Prov]:
        line = getattr(e, 'lineno', getattr(at, 'lineno', 0))
        if depth <= 0:
            return [Prov('unknown', 'definition chain too deep', m.rel, line)]
        if isinstance(e, ast.Await):
            return self.value(m, fn, e.value, at, depth)
        if isinstance(e, ast.Constant) and e.value is None:
            return [Prov('none', 'None', m.rel, line)]
        if isinstance(e, ast.Call) and pf.call_name(e) in MINT_FUNCS:
            return [Prov('minted', f'`{pf.nsrc(e)}` in {m.qualname(fn) if fn is not None else "<module>"}', m.rel, line)]
        if isinstance(e, ast.IfExp):
            return self.value(m, fn, e.body, at, depth - 1) + self.value(m, fn, e.orelse, at, depth - 1)
        if isinstance(e, ast.Name):
            if fn is None:
                return [Prov('unknown', f'module-level name `{e.id}`', m.rel, line)]
            key = (id(fn), 'v', e.id)
            if key in self.active:
                return []
            self.active.add(key)
            try:
                return self._name(m, fn, e.id, at, depth, line)
            finally:
                self.active.discard(key)
        k = _const_key(e)
        if k is not None:
            base = _key_base(e)
            if isinstance(base, ast.Name) and fn is not None:
                return self.field(m, fn, base.id, k, at, depth - 1)
            if self._from_json(m, fn, base, depth):
                return [Prov('existing', f'`{pf.nsrc(e)}` is taken from a request body (an attempt some worker reports on)', m.rel, line)]
        return [Prov('unknown', f'`{pf.nsrc(e)[:60]}`', m.rel, line)]

    def _name(self, m: pf.Module, fn: pf.FuncDef, name: str, at: ast.AST, depth: int, line: int) -> List[Prov]:
        defs = pf.assignments(fn).get(name, [])
        if not defs:
            outer = _enclosing_fn(m, fn)
            if outer is not None:
                return self.value(m, outer, ast.copy_location(ast.Name(id=name, ctx=ast.Load()), fn), fn, depth - 1)
            return [Prov('unknown', f'`{name}` is not a local of {fn.name}', m.rel, line)]
        out: List[Prov] = []
        for d in defs:
            if isinstance(d, ast.arg):
                out += self._param(m, fn, name, depth, lambda m2, f2, a, real: self.value(m2, f2, a, real, depth - 1))
            elif isinstance(d, ast.expr):
                out += self.value(m, fn, d, d, depth - 1)
            else:
                out.append(Prov('unknown', f'`{name}` is bound by a {type(d).__name__} statement', m.rel, getattr(d, 'lineno', line)))
        return out

    def _param(self, m: pf.Module, fn: pf.FuncDef, name: str, depth: int, cont: Callable[[pf.Module, Optional[pf.FuncDef], ast.expr, ast.AST], List[Prov]]) -> List[Prov]:
        sites, other = all_call_sites(m, fn)
        out: List[Prov] = []
        for m2, n in other:
            out.append(Prov('unknown', f'`{fn.name}` is referenced without being called (`{pf.nsrc(m2.parents().get(n, n))[:50]}`)', m2.rel, getattr(n, 'lineno', 0)))
        if not sites and not other:
            out.append(Prov('unknown', f'no call sites of {fn.name}', m.rel, fn.lineno))
        for m2, f2, call, real in sites:
            how, a = bound_arg(call, fn, name)
            if how == 'arg' and a is not None:
                out += cont(m2, f2, a, real)
            elif how == 'default' and a is not None:
                out += self.value(m, None, a, a, depth - 1)
            else:
                out.append(Prov('unknown', f'argument for `{name}` of {fn.name} not found', m2.rel, real.lineno))
        return out

    def _from_json(self, m: pf.Module, fn: Optional[pf.FuncDef], e: ast.AST, depth: int) -> bool:
        """e is (a sub-object of) the decoded body of a request."""
        for _ in range(6):
            if isinstance(e, ast.Await):
                e = e.value
            elif _const_key(e) is not None:
                e = _key_base(e)
            elif isinstance(e, ast.Name) and fn is not None:
                d = pf.single_def(fn, e.id)
                if not isinstance(d, ast.expr):
                    return False
                e = d
            else:
                break
        return isinstance(e, ast.Call) and pf.call_name(e) in JSON_SOURCES

    # -- a field of a record --------------------------------------------------------------------------
    def field(self, m: pf.Module, fn: pf.FuncDef, rname: str, field: str, at: ast.AST, depth: int) -> List[Prov]:
        line = getattr(at, 'lineno', 0)
        if depth <= 0:
            return [Prov('unknown', 'definition chain too deep', m.rel, line)]
        key = (id(fn), 'f', rname + '.' + field)
        if key in self.active:
            return []
        self.active.add(key)
        try:
            return self._field(m, fn, rname, field, at, depth, line)
        finally:
            self.active.discard(key)

    def _field(self, m: pf.Module, fn: pf.FuncDef, rname: str, field: str, at: ast.AST, depth: int, line: int) -> List[Prov]:
        stores = [n for n in pf.walk_shallow(fn) if isinstance(n, ast.Assign) and any(isinstance(t, ast.Subscript) and isinstance(t.value, ast.Name) and t.value.id == rname and pf.const_str(t.slice) == field
                                                                                      for t in n.targets)]
        dom = [s_ for s_ in stores if _straight_dominates(m, fn, s_, at)]
        if dom:
            last = max(dom, key=lambda s_: (s_.lineno, s_.col_offset))
            return self.value(m, fn, last.value, last, depth - 1)
        out: List[Prov] = []
        for s_ in stores:
            out += self.value(m, fn, s_.value, s_, depth - 1)
        opaque = [n for n in pf.walk_shallow(fn) if isinstance(n, ast.Call) and isinstance(n.func, ast.Attribute) and isinstance(n.func.value, ast.Name) and n.func.value.id == rname
                  and n.func.attr in ('update', 'setdefault', 'pop', 'clear', '__setitem__')]
        if opaque:
            out.append(Prov('unknown', f'`{rname}` is modified by `{pf.nsrc(opaque[0])[:50]}`', m.rel, opaque[0].lineno))
        defs = pf.assignments(fn).get(rname, [])
        if not defs:
            outer = _enclosing_fn(m, fn)
            if outer is not None:
                return out + self.field(m, outer, rname, field, fn, depth - 1)
            return out + [Prov('unknown', f'`{rname}` is not a local of {fn.name}', m.rel, line)]
        for d in defs:
            if isinstance(d, ast.arg):
                def cont(m2: pf.Module, f2: Optional[pf.FuncDef], a: ast.expr, real: ast.AST) -> List[Prov]:
                    if isinstance(a, ast.Name) and f2 is not None:
                        return self.field(m2, f2, a.id, field, real, depth - 1)
                    return self.record(m2, f2, a, field, depth - 1)
                out += self._param(m, fn, rname, depth, cont)
            elif isinstance(d, (ast.For, ast.AsyncFor)) and isinstance(d.target, ast.Name) and d.target.id == rname:
                out += self.rows(m, fn, d.iter, field, depth - 1)
            elif isinstance(d, ast.expr):
                out += self.record(m, fn, d, field, depth - 1)
            else:
                out.append(Prov('unknown', f'`{rname}` is bound by a {type(d).__name__} statement', m.rel, getattr(d, 'lineno', line)))
        return out

    def record(self, m: pf.Module, fn: Optional[pf.FuncDef], e: ast.AST, field: str, depth: int) -> List[Prov]:
        """Field `field` of the single record that expression e evaluates to."""
        line = getattr(e, 'lineno', 0)
        if isinstance(e, ast.Await):
            e = e.value
        if isinstance(e, ast.Name) and fn is not None:
            return self.field(m, fn, e.id, field, e, depth - 1)
        if isinstance(e, ast.Dict):
            for k, v in zip(e.keys, e.values):
                if k is not None and pf.const_str(k) == field:
                    return self.value(m, fn, v, v, depth - 1)
            return [Prov('unknown', f'dict literal without the key {field!r}', m.rel, line)]
        if isinstance(e, ast.Call) and isinstance(e.func, ast.Attribute) and e.func.attr in ROW_METHODS_ONE:
            return self._query(m, e, field)
        if self._from_json(m, fn, e, depth):
            return [Prov('existing', f'`{pf.nsrc(e)[:40]}[{field!r}]` is taken from a request body (an attempt some worker reports on)', m.rel, line)]
        return [Prov('unknown', f'record `{pf.nsrc(e)[:50]}`', m.rel, line)]

    def rows(self, m: pf.Module, fn: pf.FuncDef, it: ast.AST, field: str, depth: int) -> List[Prov]:
        """Field `field` of the records that iterating `it` yields."""
        line = getattr(it, 'lineno', 0)
        if depth <= 0:
            return [Prov('unknown', 'definition chain too deep', m.rel, line)]
        if isinstance(it, ast.Name):
            d = pf.single_def(fn, it.id)
            if isinstance(d, ast.expr):
                return self.rows(m, fn, d, field, depth - 1)
            return [Prov('unknown', f'rows `{it.id}`', m.rel, line)]
        if isinstance(it, ast.Await):
            it = it.value
        if isinstance(it, ast.Call) and isinstance(it.func, ast.Attribute) and it.func.attr in ROW_METHODS_MANY:
            return self._query(m, it, field)
        if isinstance(it, ast.Call) and isinstance(it.func, ast.Name):
            gen = self._local_function(m, fn, it.func.id)
            if gen is not None:
                ys = [n for n in pf.walk_shallow(gen) if isinstance(n, ast.Yield)]
                if ys and not any(isinstance(n, ast.YieldFrom) for n in pf.walk_shallow(gen)):
                    out: List[Prov] = []
                    for y in ys:
                        if isinstance(y.value, ast.Name):
                            out += self.field(m, gen, y.value.id, field, y, depth - 1)
                        else:
                            out.append(Prov('unknown', f'`{pf.nsrc(y)[:50]}`', m.rel, y.lineno))
                    return out
        return [Prov('unknown', f'rows `{pf.nsrc(it)[:50]}`', m.rel, line)]

    @staticmethod
    def _local_function(m: pf.Module, fn: pf.FuncDef, name: str) -> Optional[pf.FuncDef]:
        cur: Optional[pf.FuncDef] = fn
        while cur is not None:
            for n in pf.walk_shallow(cur):
                if isinstance(n, (ast.FunctionDef, ast.AsyncFunctionDef)) and n.name == name and n is not cur:
                    return n
            cur = _enclosing_fn(m, cur)
        return m.func(name) if m.has_func(name) else None

    # -- a column of a query result --------------------------------------------------------------------
    def _query(self, m: pf.Module, call: ast.Call, field: str) -> List[Prov]:
        line = call.lineno
        emb = [x for x in sf.embedded_in(m) if x.call is call]
        if len(emb) != 1 or emb[0].sql_text is None:
            return [Prov('unknown', 'query text not resolvable', m.rel, line)]
        sts = emb[0].stmts()
        if emb[0].parse_error or len(sts) != 1 or sts[0].kind != 'select' or sts[0].frm is None or getattr(sts[0], 'union', None):
            return [Prov('unknown', 'query is not a single parsed SELECT', m.rel, line)]
        q = sts[0]
        refs = sf.from_tables(q.frm)
        if any(t.kind != 'table' for t in refs):
            return [Prov('unknown', 'query selects from a derived table', m.rel, line)]
        alias = {(t.alias or t.name).lower(): t.name.lower() for t in refs}
        cols_of = {a: [c.lower() for c in self.prog.tables.get(t, self.prog.tables.get(t.lower(), []))] for a, t in alias.items()}
        for a, t in alias.items():
            if not cols_of[a]:
                cols_of[a] = [c.lower() for k, v in self.prog.tables.items() if k.lower() == t for c in v]

        def owners(col: str) -> List[str]:
            return [a for a in alias if col in cols_of[a]]
        src: List[Tuple[str, str]] = []      # (table alias, column) supplying result key `field`, in select-list order
        for c, al in q.cols:
            if c.kind == 'star':
                for a in ([c.table.lower()] if c.table else list(alias)):
                    if a not in alias:
                        return [Prov('unknown', f'`{c.table}.*` of an unknown table', m.rel, line)]
                    if field in cols_of[a]:
                        src.append((a, field))
                continue
            name = (al or (c.parts[-1] if c.kind == 'col' else '')).lower()
            if name != field:
                continue
            if c.kind != 'col':
                return [Prov('unknown', f'`{text(c)}` AS {field}', m.rel, line)]
            if len(c.parts) > 1:
                src.append((c.parts[-2].lower(), c.parts[-1].lower()))
            else:
                ow = owners(c.parts[-1].lower())
                if len(ow) != 1:
                    return [Prov('unknown', f'column `{text(c)}` is not attributable to one table', m.rel, line)]
                src.append((ow[0], c.parts[-1].lower()))
        if len(src) != 1 or src[0][0] not in alias:
            return [Prov('unknown', f'result column {field!r} has {len(src)} sources in the select list', m.rel, line)]
        a, col = src[0]
        table = alias[a]
        conds = sf.conjuncts(q.where) + [c for j in q.frm.joins for c in sf.conjuncts(j.on)]

        def col_of(n: N, tab_alias: str, names: Sequence[str]) -> bool:
            if n.kind != 'col' or n.parts[-1].lower() not in names:
                return False
            if len(n.parts) > 1:
                return n.parts[-2].lower() == tab_alias
            return owners(n.parts[-1].lower()) == [tab_alias]
        what = f'`{table}.{col}` read by the query at {m.rel}:{line}'
        if table == 'attempts' and col == self.id_col:
            restricted = [c for c in conds if any(col_of(n, a, COLS) for n in c.walk())]
            if restricted or q.having is not None:
                return [Prov('unknown', f'{what}, restricted by `{text(restricted[0]) if restricted else "HAVING"}`', m.rel, line)]
            return [Prov('existing', f'{what}: some attempt of the job that already exists (it may have run and been billed)', m.rel, line)]
        if table == 'jobs' and col == self.id_col:
            for c in conds:
                if c.kind == 'bin' and c.op == '=':
                    for x, y in ((c.left, c.right), (c.right, c.left)):
                        if col_of(x, a, ['state']) and y.kind == 'lit' and y.value == 'Creating':
                            return [Prov('creating', f'{what} WHERE {text(c)}: the attempt mark_job_creating made (start = rollup, not ended)', m.rel, line)]
            return [Prov('existing', f'{what}: the current attempt of a job that is not known to be in state Creating (it may have run and been billed)', m.rel, line)]
        return [Prov('unknown', what, m.rel, line)]


def id_provenance(prog: sf.SqlProgram, m: pf.Module, fn: Optional[pf.FuncDef], e: ast.AST, at: ast.AST) -> List[Prov]:
    return _ProvTracer(prog).value(m, fn, e, at)


def fresh_state(provs: Optional[List[Prov]]) -> Optional[bool]:
    """True: every source is a fresh attempt; False: some source is an existing attempt; None: not decided."""
    if not provs:
        return None
    kinds = {p.kind for p in provs}
    if 'existing' in kinds:
        return False
    if kinds <= FRESH_KINDS and kinds != {'none'}:
        return True
    return None


# ----------------------------------------------------------------------------------------------------
# transitions
# ----------------------------------------------------------------------------------------------------
OLD_REASONS: List[Optional[str]] = [None, 'completed']


def is_fresh_row(old: Dict[str, Any]) -> bool:
    """The attempt has not ended and nothing has been billed for it yet."""
    return old['end_time'] is None and old.get('reason') is None and (old['start_time'] is None or old['rollup_time'] is None or old['rollup_time'] <= old['start_time'])


def unknown_symbols(w: Writer, vi: int) -> List[str]:
    """Timestamp symbols of variant vi whose NULL class the call-chain analysis could not establish."""
    return [s_ for s_ in w.tsyms if w.variants[vi][1].get(s_) == 'unknown']


def transitions_tagged(body: List[N], w: Writer, special_reasons: Sequence[str]) -> Iterator[Tuple[int, str, Dict[str, Any], Dict[str, Any], Dict[str, Any], Optional[Tuple]]]:
    """Like `transitions`, plus a tag: None when the transition belongs to a call chain whose parameter classes are all established;
    otherwise the NULL pattern ((symbol, is NULL), ...) this transition assumes for the symbols whose class is 'unknown'.  Such a
    transition is an over-approximation: it is evidence for a violation only if the same violation shows for EVERY pattern of the chain."""
    for vi, label, old, new, out, fresh, pv in _transitions_pv(body, w, special_reasons):
        if w.variants[vi][2] is True and not fresh:
            continue
        unk = unknown_symbols(w, vi)
        tag: Tuple = tuple((s_, pv[s_] is None) for s_ in unk)
        if w.rsym is not None and w.variants[vi][3] is None and any(c == 'reason' for c, _ in w.assigns):
            tag = tag + (('<reason>', pv['<reason>']),)        # the reason values of this chain are not resolved: every value is an assumption
        yield vi, label, old, new, out, (tag or None)


def transitions_ex(body: List[N], w: Writer, special_reasons: Sequence[str]) -> Iterator[Tuple[int, str, Dict[str, Any], Dict[str, Any], Dict[str, Any], bool]]:
    for vi, label, old, new, out, fresh, _pv in _transitions_pv(body, w, special_reasons):
        yield vi, label, old, new, out, fresh


def _transitions_pv(body: List[N], w: Writer, special_reasons: Sequence[str]) -> Iterator[Tuple[int, str, Dict[str, Any], Dict[str, Any], Dict[str, Any], bool, Dict[str, Any]]]:
    """(variant index, call chain, OLD row, row written by the statement, row stored after the trigger, fresh) for every ordering class and
    every variant, starting from every OLD row that satisfies Inv - WITHOUT applying the fresh-attempt restriction: `fresh` tells whether
    the OLD row is one of an attempt that has not ended and has not been billed.  `special_reasons`: reason literals the trigger
    distinguishes (always part of the reason domain)."""
    tsyms = list(w.tsyms)
    has_reason = any(c == 'reason' for c, _ in w.assigns)
    old_reasons = OLD_REASONS + [r for r in special_reasons if r not in OLD_REASONS]
    for vi, (label, classes, _fresh, rvals) in enumerate(w.variants):
        if not has_reason:
            new_reasons: List[Optional[str]] = ['<keep>']
        elif w.rsym is None:
            new_reasons = ['<literal>']
        elif rvals is not None:
            new_reasons = sorted(rvals, key=str)
        else:
            new_reasons = list(old_reasons)
        for ordv in weak_orderings(3 + len(tsyms)):
            old = dict(zip(TIME_COLS, ordv[:3]))
            if not inv(old):
                continue
            pv = dict(zip(tsyms, ordv[3:]))
            if any((classes.get(s) == 'nonnull' and pv[s] is None) or (classes.get(s) == 'null' and pv[s] is not None) for s in tsyms):
                continue
            for oreason in old_reasons:
                old['reason'] = oreason
                for nr in new_reasons:
                    if not w.selects(old, pv, nr):
                        continue        # the WHERE clause rejects this row: no update, no trigger
                    new = w.written_row(old, pv, nr)
                    out = exec_trigger(body, old, new)
                    yield vi, label, dict(old), new, out, is_fresh_row(old), dict(pv, **{'<reason>': nr})


def transitions(body: List[N], w: Writer, special_reasons: Sequence[str]) -> Iterator[Tuple[str, Dict[str, Any], Dict[str, Any], Dict[str, Any]]]:
    """(call chain, OLD row, row written by the statement, row stored after the trigger) for every ordering class, starting from every
    OLD row that satisfies Inv; chains whose attempt id provably names an unbilled attempt (variant flag True) start from such rows only."""
    for vi, label, old, new, out, fresh in transitions_ex(body, w, special_reasons):
        if w.variants[vi][2] is True and not fresh:
            continue
        yield label, old, new, out


# ----------------------------------------------------------------------------------------------------
# abstract evaluation of a condition over one ordering class (no concrete values)
# ----------------------------------------------------------------------------------------------------
class UnknownLeaf(Exception):
    """The condition reads something the ordering class does not determine."""


class GapBasis:
    """A linear form over rank atoms rewritten over the gaps between consecutive distinct ranks of the class:
    value(rank_k) = g_0 + .. + g_k with every gap an integer >= 1 (g_0: distance of the lowest timestamp from 0).
    The sign of a form is then a question about coefficient signs - decided symbolically, exactly."""

    def __init__(self, ranks: Sequence[Optional[int]]):
        self.rs = sorted({r for r in ranks if r is not None and r != ZERO})

    def coeffs(self, lin: Lin) -> Tuple[Tuple[int, ...], int]:
        cs_ = dict(lin[0])
        for r in cs_:
            if r not in self.rs:
                raise AnalysisError('internal: rank outside the ordering class')
        return tuple(sum(cs_.get(rk, 0) for rk in self.rs[i:]) for i in range(len(self.rs))), lin[1]


Sign3 = Tuple[Optional[bool], Optional[bool], Optional[bool]]      # (can be < 0, can be = 0, can be > 0); None = not decided


def sign_info(a: Sequence[int], c: int) -> Sign3:
    """Which signs c + sum(a_i * g_i) takes when every g_i ranges over the integers >= 1 (exact where not None)."""
    pos = [x for x in a if x > 0]
    neg = [x for x in a if x < 0]
    if not pos and not neg:
        return (c < 0, c == 0, c > 0)
    if pos and not neg:
        mn = c + sum(pos)
        return (mn < 0, True if mn == 0 else (False if mn > 0 else (True if 1 in pos else None)), True)
    if neg and not pos:
        mx = c + sum(neg)
        return (True, True if mx == 0 else (False if mx < 0 else (True if -1 in neg else None)), mx > 0)
    return (True, True if (1 in pos or -1 in neg) else None, True)


class CondEval(ValueEval):
    """Three-valued truth of a condition in one ordering class, decided symbolically.
    Results:  ('const', True|False|None)            the same outcome for every realisation of the class
              ('var', frozenset of outcomes)        exactly these outcomes occur (each for some realisation)
              ('unk',)                              not decided
    `pivot` / `pivot_sign`: an optional linear form (gap basis) whose sign is fixed by the caller's case split; comparisons of
    +-pivot with 0 are then decided by that sign, other arithmetic comparisons whose sign is not constant are 'unk' (correlation)."""

    def __init__(self, leaf: Callable[[N], Any], basis: GapBasis, pivot: Optional[Tuple[Tuple[int, ...], int]] = None, pivot_sign: int = 0):
        super().__init__(leaf)
        self.basis = basis
        self.pivot = pivot
        self.pivot_sign = pivot_sign

    # GREATEST / LEAST are resolved as soon as the ordering class decides which argument wins
    def forms(self, e: N) -> Any:
        if e.kind == 'func' and e.name in ('GREATEST', 'LEAST') and e.args:
            vals = [self.forms(a) for a in e.args]
            if any(v is NULLV for v in vals):
                return NULLV
            if all(v.kind == 'one' for v in vals):
                want_max = e.name == 'GREATEST'
                for v in vals:
                    ok = True
                    for u in vals:
                        if u is v:
                            continue
                        d = v.add(u.neg(), e) if want_max else u.add(v.neg(), e)
                        s = sign_info(*self.basis.coeffs(d.forms[0]))
                        if s[0] is not False:
                            ok = False
                            break
                    if ok:
                        return v
        return super().forms(e)

    def signs(self, f: Forms) -> Tuple[Optional[int], Sign3]:
        """(sign fixed by the pivot case split or None, sign_info over the whole class)"""
        if f.kind != 'one':
            raise UnknownLeaf('unresolved GREATEST/LEAST')
        a, c = self.basis.coeffs(f.forms[0])
        if self.pivot is not None and c == 0 and self.pivot[1] == 0 and any(self.pivot[0]):
            if a == self.pivot[0]:
                return self.pivot_sign, (None, None, None)
            if a == tuple(-x for x in self.pivot[0]):
                return -self.pivot_sign, (None, None, None)
        return None, sign_info(a, c)

    def _operand(self, e: N) -> Any:
        if e.kind == 'lit' and isinstance(e.value, str):
            return e.value
        if e.kind in ('col', 'param'):
            v = self.leaf(e)
            if isinstance(v, str):
                return v
        return self.forms(e)

    def cond(self, c: N) -> bool:        # not used here (ValueEval API)
        r = self.truth(c)
        if r[0] != 'const':
            raise AnalysisError(f'condition `{text(c)}` is not decided by the ordering')
        return r[1] is True

    def truth(self, c: N) -> Tuple:
        try:
            return self._truth(c)
        except UnknownLeaf:
            return ('unk',)
        except AnalysisError:
            return ('unk',)

    @staticmethod
    def _combine(op: str, parts: List[Tuple]) -> Tuple:
        def k3(vals: List[Optional[bool]]) -> Optional[bool]:
            if op == 'AND':
                return False if any(v is False for v in vals) else (None if any(v is None for v in vals) else True)
            return True if any(v is True for v in vals) else (None if any(v is None for v in vals) else False)
        consts = [p[1] for p in parts if p[0] == 'const']
        others = [p for p in parts if p[0] != 'const']
        # absorbing constant decides regardless of the rest
        if (op == 'AND' and any(v is False for v in consts)) or (op == 'OR' and any(v is True for v in consts)):
            return ('const', op == 'OR')
        if not others:
            return ('const', k3(consts))
        if len(others) == 1 and others[0][0] == 'var':
            outs = frozenset(k3(consts + [o]) for o in others[0][1])
            return ('const', next(iter(outs))) if len(outs) == 1 else ('var', outs)
        return ('unk',)

    def _truth(self, c: N) -> Tuple:
        k = c.kind
        if k == 'bin' and c.op in ('AND', 'OR'):
            return self._combine(c.op, [self.truth(c.left), self.truth(c.right)])
        if k == 'un' and c.op == 'NOT':
            r = self.truth(c.arg)
            if r[0] == 'const':
                return ('const', None if r[1] is None else not r[1])
            if r[0] == 'var':
                return ('var', frozenset(None if o is None else not o for o in r[1]))
            return r
        if k == 'lit':
            return ('const', None if c.value is None else bool(c.value))
        if k == 'isnull':
            return ('const', (self._operand(c.arg) is NULLV) != c.negated)
        if k == 'bin' and c.op in ('=', '!=', '<', '<=', '>', '>=', '<=>'):
            a, b = self._operand(c.left), self._operand(c.right)
            if isinstance(a, str) or isinstance(b, str):
                if c.op == '<=>':
                    return ('const', (a is NULLV and b is NULLV) or (isinstance(a, str) and isinstance(b, str) and a.lower() == b.lower()))
                if a is NULLV or b is NULLV:
                    return ('const', None)
                if c.op in ('=', '!=') and isinstance(a, str) and isinstance(b, str):
                    return ('const', (a.lower() == b.lower()) == (c.op == '='))
                return ('unk',)
            if c.op == '<=>' and (a is NULLV or b is NULLV):
                return ('const', a is NULLV and b is NULLV)
            if a is NULLV or b is NULLV:
                return ('const', None)
            fixed, (cn, cz, cp) = self.signs(a.add(b.neg(), c))
            test = {'=': lambda s: s == 0, '<=>': lambda s: s == 0, '!=': lambda s: s != 0, '<': lambda s: s < 0, '<=': lambda s: s <= 0,
                    '>': lambda s: s > 0, '>=': lambda s: s >= 0}[c.op]
            if fixed is not None:
                return ('const', test(fixed))
            if None in (cn, cz, cp):
                # undecided possibilities only matter if they could change the outcome
                sure = {test(s) for s, can in ((-1, cn), (0, cz), (1, cp)) if can is True}
                maybe = {test(s) for s, can in ((-1, cn), (0, cz), (1, cp)) if can is None}
                if len(sure) == 1 and maybe <= sure:
                    return ('const', next(iter(sure)))
                if len(sure) == 2 and self.pivot is None:
                    return ('var', frozenset(sure))
                return ('unk',)
            outs = frozenset(test(s) for s, can in ((-1, cn), (0, cz), (1, cp)) if can)
            if len(outs) == 1:
                return ('const', next(iter(outs)))
            if self.pivot is not None:
                return ('unk',)      # varies inside the class, but the caller's case split may correlate with it
            return ('var', outs)
        raise UnknownLeaf(f'condition `{text(c)}`')


# ----------------------------------------------------------------------------------------------------
# the billed-duration expression of the billing triggers, compared as a value (not as text)
# ----------------------------------------------------------------------------------------------------
def billed_lin(s_: Optional[int], r_: Optional[int]) -> Lin:
    """f = GREATEST(COALESCE(rollup - start, 0), 0) = max(rollup - start, 0), 0 when either is NULL, as a linear form over rank atoms."""
    if s_ is None or r_ is None or r_ <= s_:
        return _lin({}, 0)
    return _lin_add(_lin({r_: 1}, 0), _lin({s_: 1}, 0), -1)


def _lin_text(lin: Lin, row: Dict[str, Optional[int]]) -> str:
    name = {}
    for k, v in row.items():
        if v is not None:
            name.setdefault(v, k)
    parts = [f'{"+" if c > 0 else "-"} {abs(c) if abs(c) != 1 else ""}{name.get(r, "?")}' for r, c in lin[0]]
    if lin[1] or not parts:
        parts.append(f'{"+" if lin[1] >= 0 else "-"} {abs(lin[1])}')
    t = ' '.join(parts)
    return t[2:] if t.startswith('+ ') else t


def compare_value_expr(expr: N, sym_of: Callable[[N], Optional[str]], syms: Sequence[str], want: Callable[[Dict[str, Optional[int]]], Lin]) -> Tuple:
    """Does `expr` (over the timestamp symbols `syms`; sym_of maps a leaf node to its symbol, None = not a timestamp the domain models)
    denote the linear form want(class) in every ordering class (NULLs included) of the symbols?  Decided symbolically per class: NULL
    propagation, COALESCE / IF / CASE selection, GREATEST / LEAST resolved where the ordering fixes the winner, linear normal form over the
    gaps of the class.  ('ok', classes) | ('bad', class, value found, value required) | ('undecided', why).  A class in which the
    expression cannot be reduced to one linear form is skipped (undecided unless another class shows a definite difference)."""
    undecided: Optional[str] = None
    n = 0
    for ordv in weak_orderings(len(syms)):
        row = dict(zip(syms, ordv))
        basis = GapBasis(list(ordv))

        def leaf(nd: N) -> Any:
            s_ = sym_of(nd)
            if s_ is None:
                raise UnknownLeaf(f'`{text(nd)}` is not one of the timestamps of the attempt row')
            return row[s_]
        ce = CondEval(leaf, basis)
        try:
            v = ce.forms(expr)
        except (UnknownLeaf, AnalysisError) as e:
            undecided = undecided or str(e)
            continue
        w_ = want(row)
        if v is NULLV:
            return ('bad', row, 'NULL', _lin_text(w_, row))
        if v.kind != 'one':
            undecided = undecided or f'`{text(expr)}`: a GREATEST / LEAST is not resolved by the ordering of the timestamps alone'
            continue
        n += 1
        if basis.coeffs(v.forms[0]) != basis.coeffs(w_):
            return ('bad', row, _lin_text(v.forms[0], row), _lin_text(w_, row))
    if undecided is not None:
        return ('undecided', undecided)
    return ('ok', n)
