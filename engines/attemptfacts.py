"""Facts about the life-cycle of one `attempts` row, shared by C02 and C03.

* the finite *order domain*: every weak ordering (with NULLs) of the OLD timestamps and the fresh timestamp symbols a writer supplies;
* an interpreter for the parsed BEFORE UPDATE trigger over that domain (MySQL three-valued logic);
* the writer statements of attempts.{start_time,end_time,rollup_time,reason} (effective SQL program + embedded SQL) with the value
  *expression* each column receives.  Expressions over parameters are evaluated symbolically per ordering class: NULL propagation of
  + - GREATEST LEAST, first-non-NULL of COALESCE/IFNULL, IF/CASE on order predicates, and a max/min-of-linear-forms normal form that must
  collapse to one of the symbols (x + GREATEST(y - x, 0) = max(x, y)); anything else is declined (AnalysisError);
* per Python call chain: NULL class of every timestamp parameter, reason literals (followed through forwarding parameters);
* `transitions`: every (OLD row, row written, row stored by the trigger) of a writer - the before-trigger's outputs are the
  after-trigger's inputs.
Nothing here imports or runs repository code.
"""
from __future__ import annotations

import ast
import itertools
from typing import Any, Callable, Dict, Iterator, List, Optional, Sequence, Set, Tuple

from . import callsites as cs
from . import pyfacts as pf
from . import sqlfront as sf
from . import sqlrules as sr
from .common import AnalysisError, Ctx
from .sqlast import N, text
from .sqleval import _truth, ev

TIME_COLS = ['start_time', 'end_time', 'rollup_time']
COLS = TIME_COLS + ['reason']
ZERO = -1          # the literal 0 used as a timestamp: below every reported timestamp (timestamps are positive)
PY_DIRS = ['batch/batch']


# ----------------------------------------------------------------------------------------------------
# order domain
# ----------------------------------------------------------------------------------------------------
_wo_cache: Dict[int, List[Tuple[Optional[int], ...]]] = {}


def weak_orderings(n: int) -> List[Tuple[Optional[int], ...]]:
    """All assignments of n variables to NULL or a rank, ranks forming an initial segment 0..k-1."""
    if n in _wo_cache:
        return _wo_cache[n]

    def rec(i: int, cur: List[Optional[int]], k: int):
        if i == n:
            yield tuple(cur)
            return
        cur.append(None)
        yield from rec(i + 1, cur, k)
        cur.pop()
        for r in range(k + 1):
            cur.append(r)
            yield from rec(i + 1, cur, max(k, r + 1))
            cur.pop()
    # ranks produced above are "first-use" labels, not order; enumerate order by permuting labels
    seen = set()
    out = []
    for lab in rec(0, [], 0):
        k = 1 + max([x for x in lab if x is not None], default=-1)
        for perm in itertools.permutations(range(k)):
            t = tuple(None if x is None else perm[x] for x in lab)
            if t not in seen:
                seen.add(t)
                out.append(t)
    _wo_cache[n] = out
    return out


def realise(vals: Dict[str, Any]) -> Dict[str, Any]:
    return {k: (None if v is None else (1000 * (v + 1) if isinstance(v, int) else v)) for k, v in vals.items()}


def inv(row: Dict[str, Any]) -> bool:
    r, e = row['rollup_time'], row['end_time']
    return r is None or e is None or r <= e


# ----------------------------------------------------------------------------------------------------
# interpreter for the BEFORE UPDATE trigger
# ----------------------------------------------------------------------------------------------------
_exec_cache: Dict[Tuple, Dict[str, Any]] = {}


def exec_trigger(body: List[N], old: Dict[str, Any], new: Dict[str, Any]) -> Dict[str, Any]:
    key = (id(body), tuple(old[c] for c in COLS), tuple(new[c] for c in COLS))
    hit = _exec_cache.get(key)
    if hit is not None:
        return dict(hit)
    new = dict(new)

    def env(c: N):
        if c.kind == 'col' and len(c.parts) == 2 and c.parts[0].upper() in ('OLD', 'NEW'):
            return (old if c.parts[0].upper() == 'OLD' else new)[c.parts[1].lower()]
        raise AnalysisError(f'trigger reads `{text(c)}` which is not an OLD./NEW. column')

    def run(stmts: List[N]):
        for st in stmts:
            if st.kind == 'if':
                done = False
                for c, b in st.branches:
                    if _truth(ev(c, env)):
                        run(b)
                        done = True
                        break
                if not done and st.orelse is not None:
                    run(st.orelse)
            elif st.kind == 'block':
                run(st.body)
            elif st.kind == 'set':
                for t, v in st.assigns:
                    if not (t.kind == 'col' and len(t.parts) == 2 and t.parts[0].upper() == 'NEW'):
                        raise AnalysisError(f'trigger assigns `{text(t)}`')
                    new[t.parts[1].lower()] = ev(v, env)
            else:
                raise AnalysisError(f'attempts_before_update: unsupported statement {st.kind}')
    run(body)
    _exec_cache[key] = dict(new)
    return new


def zeroing_reasons(body: List[N]) -> Dict[str, List[str]]:
    """Reason literals the trigger treats specially by erasing a timestamp: {literal: [columns set to NULL]}.
    (IF NEW.reason = '<lit>' THEN SET NEW.<time col> = NULL)"""
    out: Dict[str, List[str]] = {}
    for st, guard in sf.guarded_statements(body):
        if st.kind != 'set':
            continue
        nulled = [t.parts[1].lower() for t, v in st.assigns if t.kind == 'col' and len(t.parts) == 2 and t.parts[0].upper() == 'NEW'
                  and t.parts[1].lower() in TIME_COLS and v.kind == 'lit' and v.value is None]
        if not nulled:
            continue
        for c, pol in guard:
            if not pol:
                continue
            for a in sf.conjuncts(c):
                lits: List[str] = []
                if a.kind == 'bin' and a.op in ('=', '<=>'):
                    for x, y in ((a.left, a.right), (a.right, a.left)):
                        if x.kind == 'col' and [p.lower() for p in x.parts] == ['new', 'reason'] and y.kind == 'lit' and isinstance(y.value, str):
                            lits.append(y.value)
                elif a.kind == 'in' and not a.negated and isinstance(a.items, list) and a.arg.kind == 'col' and [p.lower() for p in a.arg.parts] == ['new', 'reason']:
                    lits += [y.value for y in a.items if y.kind == 'lit' and isinstance(y.value, str)]
                for lit in lits:
                    out.setdefault(lit, [])
                    out[lit] += [n for n in nulled if n not in out[lit]]
    return out


# ----------------------------------------------------------------------------------------------------
# symbolic value of a SET expression in one ordering class
# ----------------------------------------------------------------------------------------------------
class _Null:
    def __repr__(self) -> str:
        return 'NULL'


NULLV = _Null()
Lin = Tuple[Tuple[Tuple[int, int], ...], int]       # (((rank, coef), ...), const)


def _lin(coefs: Dict[int, int], const: int) -> Lin:
    return (tuple(sorted((r, c) for r, c in coefs.items() if c != 0 and r != ZERO)), const)


def _lin_add(a: Lin, b: Lin, sign: int = 1) -> Lin:
    d = dict(a[0])
    for r, c in b[0]:
        d[r] = d.get(r, 0) + sign * c
    return _lin(d, a[1] + sign * b[1])


class Forms:
    """max / min over linear forms in the rank atoms (kind 'one': a single form)."""

    def __init__(self, kind: str, forms: Sequence[Lin]):
        fs = sorted(set(forms))
        self.kind = 'one' if len(fs) == 1 else kind
        self.forms = fs

    def neg(self) -> 'Forms':
        return Forms({'one': 'one', 'max': 'min', 'min': 'max'}[self.kind], [_lin({r: -c for r, c in f[0]}, -f[1]) for f in self.forms])

    def add(self, o: 'Forms', what: N) -> 'Forms':
        kinds = {self.kind, o.kind} - {'one'}
        if len(kinds) > 1:
            raise AnalysisError(f'`{text(what)}` mixes GREATEST and LEAST under arithmetic (order abstraction not applicable)')
        return Forms(kinds.pop() if kinds else 'one', [_lin_add(a, b) for a in self.forms for b in o.forms])


class ValueEval:
    """Evaluates a SET expression of a writer for one ordering class.  `leaf(node)` returns None (NULL), a rank (int, ZERO allowed)
    or a str (reason text) for parameter / variable / column leaves."""

    def __init__(self, leaf: Callable[[N], Any]):
        self.leaf = leaf

    def forms(self, e: N) -> Any:
        k = e.kind
        if k in ('col', 'param'):
            v = self.leaf(e)
            if v is None:
                return NULLV
            if isinstance(v, str):
                raise AnalysisError(f'text value `{text(e)}` used in a timestamp expression')
            return Forms('one', [_lin({v: 1}, 0)])
        if k == 'lit':
            if e.value is None:
                return NULLV
            if isinstance(e.value, bool) or not isinstance(e.value, int):
                raise AnalysisError(f'literal `{text(e)}` in a timestamp expression (order abstraction not applicable)')
            return Forms('one', [_lin({}, e.value)])
        if k == 'cast':
            return self.forms(e.arg)
        if k == 'un' and e.op == '-':
            a = self.forms(e.arg)
            return a if a is NULLV else a.neg()
        if k == 'bin' and e.op in ('+', '-'):
            a, b = self.forms(e.left), self.forms(e.right)
            if a is NULLV or b is NULLV:
                return NULLV
            return a.add(b if e.op == '+' else b.neg(), e)
        if k == 'func' and e.name in ('GREATEST', 'LEAST') and e.args:
            vals = [self.forms(a) for a in e.args]
            if any(v is NULLV for v in vals):
                return NULLV      # MySQL: GREATEST/LEAST return NULL if any argument is NULL
            want = 'max' if e.name == 'GREATEST' else 'min'
            if any(v.kind not in ('one', want) for v in vals):
                raise AnalysisError(f'`{text(e)}` nests GREATEST and LEAST (order abstraction not applicable)')
            return Forms(want, [f for v in vals for f in v.forms])
        if k == 'func' and e.name in ('COALESCE', 'IFNULL') and e.args:
            for a in e.args:
                v = self.forms(a)
                if v is not NULLV:
                    return v
            return NULLV
        if k == 'func' and e.name == 'IF' and len(e.args) == 3:
            return self.forms(e.args[1] if self.cond(e.args[0]) else e.args[2])
        if k == 'func' and e.name == 'NULLIF' and len(e.args) == 2:
            return NULLV if self.cond(N('bin', op='=', left=e.args[0], right=e.args[1])) else self.forms(e.args[0])
        if k == 'case' and e.arg is None:
            for c, v in e.whens:
                if self.cond(c):
                    return self.forms(v)
            return self.forms(e.default) if e.default is not None else NULLV
        raise AnalysisError(f'attempt column assigned `{text(e)}`: not an expression over reported timestamps that the order abstraction can follow')

    @staticmethod
    def rank_of(v: Any, what: N) -> Optional[int]:
        if v is NULLV:
            return None
        ranks = []
        for coefs, const in v.forms:
            if const != 0 or len(coefs) > 1 or (coefs and coefs[0][1] != 1):
                raise AnalysisError(f'attempt column assigned `{text(what)}`: its value is not one of the reported timestamps '
                                    '(a computed offset; order abstraction not applicable)')
            ranks.append(coefs[0][0] if coefs else ZERO)
        return max(ranks) if v.kind in ('one', 'max') else min(ranks)

    def value(self, e: N) -> Optional[int]:
        return self.rank_of(self.forms(e), e)

    def _sign(self, a: Any, b: Any, what: N) -> int:
        """sign of a - b (both non-NULL)."""
        try:
            ra, rb = self.rank_of(a, what), self.rank_of(b, what)
            return (ra > rb) - (ra < rb)
        except AnalysisError:
            d = a.add(b.neg(), what)
            if d.kind == 'one' and d.forms[0][1] == 0:
                coefs = dict(d.forms[0][0])
                pos = [r for r, c in coefs.items() if c == 1]
                negs = [r for r, c in coefs.items() if c == -1]
                if len(pos) + len(negs) == len(coefs) and len(pos) <= 1 and len(negs) <= 1:
                    p = pos[0] if pos else ZERO
                    q = negs[0] if negs else ZERO
                    return (p > q) - (p < q)
            raise AnalysisError(f'comparison `{text(what)}` is not decided by the ordering of the reported timestamps')

    def cond3(self, c: N) -> Optional[bool]:
        k = c.kind
        if k == 'bin' and c.op in ('AND', 'OR'):
            a, b = self.cond3(c.left), self.cond3(c.right)
            if c.op == 'AND':
                return False if a is False or b is False else (None if a is None or b is None else True)
            return True if a is True or b is True else (None if a is None or b is None else False)
        if k == 'un' and c.op == 'NOT':
            a = self.cond3(c.arg)
            return None if a is None else not a
        if k == 'isnull':
            return (self._any(c.arg) is NULLV) != c.negated
        if k == 'bin' and c.op in ('=', '!=', '<>', '<', '<=', '>', '>=', '<=>'):
            a, b = self._any(c.left), self._any(c.right)
            if isinstance(a, str) or isinstance(b, str):
                if c.op == '<=>':
                    return (a is NULLV and b is NULLV) or (a is not NULLV and b is not NULLV and a == b)
                if a is NULLV or b is NULLV:
                    return None
                if c.op in ('=', '!=', '<>') and isinstance(a, str) and isinstance(b, str):
                    return (a.lower() == b.lower()) == (c.op == '=')
                raise AnalysisError(f'comparison `{text(c)}` of text with a timestamp')
            if c.op == '<=>':
                if a is NULLV or b is NULLV:
                    return a is NULLV and b is NULLV
                return self._sign(a, b, c) == 0
            if a is NULLV or b is NULLV:
                return None
            s = self._sign(a, b, c)
            return {'=': s == 0, '!=': s != 0, '<>': s != 0, '<': s < 0, '<=': s <= 0, '>': s > 0, '>=': s >= 0}[c.op]
        raise AnalysisError(f'condition `{text(c)}` inside an attempt column expression is outside the analysed fragment')

    def _any(self, e: N) -> Any:
        if e.kind == 'lit' and isinstance(e.value, str):
            return e.value
        if e.kind in ('col', 'param'):
            v = self.leaf(e)
            if isinstance(v, str):
                return v
        return self.forms(e)

    def cond(self, c: N) -> bool:
        return self.cond3(c) is True


# ----------------------------------------------------------------------------------------------------
# writers
# ----------------------------------------------------------------------------------------------------
class Writer:
    def __init__(self, wid: str, file: str, line: int, assigns: List[Tuple[str, N]], local_vars: Set[str], single_table: bool = True):
        self.wid = wid
        self.file = file
        self.line = line
        self.assigns = assigns              # [(column, value expression)] in SET order, only the four columns
        self.local_vars = local_vars        # names that denote routine parameters / variables (they shadow columns)
        self.single_table = single_table
        self.tsyms: List[str] = []          # free timestamp symbols (parameters / variables) in SET order of first use
        self.rsym: Optional[str] = None     # symbol supplying the reason, if any
        self._collect()
        # call-chain variants: (label, {symbol: 'nonnull'|'null'|'any'}, fresh_attempt, reason values or None)
        self.variants: List[Tuple[str, Dict[str, str], bool, Optional[Set[Optional[str]]]]] = []

    @property
    def sets(self) -> Dict[str, str]:
        return {c: self.sym_name(v) or text(v) for c, v in self.assigns}

    @property
    def cols(self) -> List[str]:
        return sorted({c for c, _ in self.assigns})

    def sym_name(self, e: N) -> Optional[str]:
        """Name of the free symbol a leaf denotes; None for literals / row columns."""
        if e.kind == 'param':
            return f'%s@{e.pos}'
        if e.kind == 'col' and len(e.parts) == 1:
            n = e.parts[0].lower()
            if n in self.local_vars or n not in COLS:
                return n
        return None

    def _collect(self) -> None:
        assigned: Set[str] = set()
        for c, v in self.assigns:
            for n in v.walk():
                if n.kind in ('subq', 'exists', 'select', 'uvar', 'hole'):
                    raise AnalysisError(f'{self.wid}: attempt column {c} assigned `{text(v)}` (sub-query / session variable / template hole)')
                if n.kind == 'col':
                    s = self.sym_name(n)
                    if s is None:
                        col = n.parts[-1].lower()
                        if col not in COLS or (len(n.parts) > 1 and n.parts[-2].lower() in ('old', 'new')):
                            raise AnalysisError(f'{self.wid}: attempt column {c} assigned `{text(v)}`, which reads `{text(n)}`')
                        if col in assigned and not self.single_table:
                            raise AnalysisError(f'{self.wid}: multi-table UPDATE reads `{text(n)}` after assigning it (evaluation order undefined)')
                    elif c in TIME_COLS:
                        if s not in self.tsyms:
                            self.tsyms.append(s)
                    else:
                        if not (v is n):
                            raise AnalysisError(f'{self.wid}: reason assigned a computed expression `{text(v)}`')
                        self.rsym = s
                elif n.kind == 'param':
                    s = self.sym_name(n)
                    if c in TIME_COLS:
                        if s not in self.tsyms:
                            self.tsyms.append(s)
                    else:
                        if not (v is n):
                            raise AnalysisError(f'{self.wid}: reason assigned a computed expression `{text(v)}`')
                        self.rsym = s
            if c == 'reason' and not (v.kind in ('col', 'param') or (v.kind == 'lit' and (v.value is None or isinstance(v.value, str)))):
                raise AnalysisError(f'{self.wid}: reason assigned a computed expression `{text(v)}`')
            assigned.add(c)

    def written_row(self, old: Dict[str, Any], pv: Dict[str, Any], reason: Any) -> Dict[str, Any]:
        """The NEW row the statement hands to the BEFORE UPDATE trigger (single-table UPDATE: assignments apply left to right)."""
        new = dict(old)

        def leaf(n: N) -> Any:
            s = self.sym_name(n)
            if s is not None:
                if s == self.rsym and s not in pv:
                    return old['reason'] if reason == '<keep>' else reason
                return pv[s]
            return new[n.parts[-1].lower()]
        evl = ValueEval(leaf)
        for c, v in self.assigns:
            if c in TIME_COLS:
                new[c] = evl.value(v)
            else:
                if v.kind == 'lit':
                    new[c] = v.value
                else:
                    new[c] = leaf(v)
        return new


def _inline_before(body: Sequence[N], upto: int, variables: Sequence[str]) -> Dict[str, N]:
    """Top-level `SET v = e` of body[:upto] for variables assigned exactly once in the whole routine (earlier ones substituted in)."""
    counts: Dict[str, int] = {}
    for st in sf.all_statements(body):
        targets: List[N] = []
        if st.kind == 'set':
            targets = [t for t, _ in st.assigns]
        elif st.kind in ('select', 'fetch') and getattr(st, 'into', None):
            targets = list(st.into)
        for t in targets:
            if sr.is_var(t):
                counts[t.parts[0].lower()] = counts.get(t.parts[0].lower(), 0) + 1
    vs = {v.lower() for v in variables}
    env: Dict[str, N] = {}
    for st in body[:upto]:
        if st.kind == 'set':
            for t, v in st.assigns:
                if sr.is_var(t) and t.parts[0].lower() in vs and counts.get(t.parts[0].lower()) == 1:
                    env[t.parts[0].lower()] = sr.inline_expr(v, env)
    return env


def _top_index(body: Sequence[N], st: N) -> int:
    for i, top in enumerate(body):
        if top is st or any(x is st for x in sf.all_statements([top])):
            return i
    return len(body)


def find_writers(ctx: Ctx, prog: sf.SqlProgram, rule: Optional[str] = 'R3') -> List[Writer]:
    """Every statement that writes one of the four columns.  With `rule`, INSERT/DELETE on attempts that bypass the UPDATE trigger are
    reported under that rule id."""
    out: List[Writer] = []
    for name, r in sorted(prog.routines.items()):
        a = r.ast
        local_vars = set(sr.declared_vars(a))
        for st in sf.all_statements(a.body):
            if st.kind == 'update' and 'attempts' in [t.lower() for t in sf.table_names(st.frm)]:
                tabs = [t for t in sf.from_tables(st.frm) if t.kind == 'table']
                alias = {(t.alias or t.name).lower(): t.name.lower() for t in tabs}
                env = _inline_before(a.body, _top_index(a.body, st), local_vars)
                assigns = []
                for c, v in st.sets:
                    if c.kind == 'col' and c.parts[-1].lower() in COLS and (len(c.parts) == 1 and tabs[0].name.lower() == 'attempts' or len(c.parts) > 1 and alias.get(c.parts[-2].lower()) == 'attempts'):
                        assigns.append((c.parts[-1].lower(), sr.inline_expr(v, env)))
                if assigns:
                    out.append(Writer(f'sql:{name}', r.file, r.line_of(st), assigns, local_vars, single_table=len(sf.from_tables(st.frm)) == 1))
            elif st.kind == 'insert' and st.table.lower() == 'attempts':
                cols = [c.lower() for c in (st.cols or [])]
                if rule:
                    ctx.check(not (set(cols) & set(COLS)) and all(text(c).lower() == text(v).lower() for c, v in st.on_dup), rule, f'{r.file}::{name}::INSERT INTO attempts',
                              f'INSERT INTO attempts sets {sorted(set(cols) & set(COLS))} / updates on duplicate: those values bypass or re-enter the BEFORE UPDATE trigger unchecked', r.file, r.line_of(st))
                out.append(Writer(f'sql:{name}::duplicate-insert no-op', r.file, r.line_of(st), [], set()))
    for rel in pf.walk_py(PY_DIRS):
        m = pf.load(rel)
        if 'attempts' not in m.src:
            continue
        for e in sf.embedded_in(m):
            if e.sql_text is None or 'attempts' not in e.sql_text:
                continue
            for st in e.stmts():
                if st.kind == 'update' and [t.lower() for t in sf.table_names(st.frm)][:1] == ['attempts']:
                    assigns = [(c.parts[-1].lower(), v) for c, v in st.sets if c.kind == 'col' and c.parts[-1].lower() in COLS]
                    if assigns:
                        w = Writer(f'py:{rel}::{e.qual}', m.path, e.lineno, assigns, set(), single_table=len(sf.from_tables(st.frm)) == 1)
                        w.embedded = e          # type: ignore[attr-defined]
                        w.stmt = st             # type: ignore[attr-defined]
                        out.append(w)
                elif st.kind in ('insert', 'delete') and any(t.lower() == 'attempts' for t, _ in sf.written_tables(st)):
                    cols = [c.lower() for c in (getattr(st, 'cols', None) or [])]
                    if rule:
                        ctx.check(st.kind == 'insert' and not (set(cols) & set(COLS)), rule, f'{rel}::{e.qual}::{st.kind} attempts', f'{st.kind} on attempts outside the trigger-protected UPDATE path', m.path, e.lineno)
    return out


# ----------------------------------------------------------------------------------------------------
# Python call chains: NULL classes of timestamp arguments, reason literals
# ----------------------------------------------------------------------------------------------------
# Worker-supplied JSON fields: NULL-ness cannot be seen in the driver; frozen table, one reason per line.
WORKER_FIELDS = {
    ("job_complete_1", "job_status['start_time']"): ('any', 'a job that failed before starting reports start_time None'),
    ("job_complete_1", "job_status['end_time']"): ('nonnull', 'worker.py post_job_complete_1 asserts job.end_time before posting'),
    ("job_started_1", "job_status['start_time']"): ('nonnull', 'the worker sets start_time = time_msecs() before it posts job_started (status schema: start_time: int)'),
    ("billing_update_1", "body['timestamp']"): ('nonnull', 'the worker posts billing updates with timestamp = time_msecs()'),
}


def _param_names(fn: pf.FuncDef) -> List[str]:
    return [a.arg for a in fn.args.posonlyargs + fn.args.args]


def _is_method(fn: pf.FuncDef) -> bool:
    names = _param_names(fn)
    return bool(names) and names[0] in ('self', 'cls') and not any(pf.dotted(d) == 'staticmethod' for d in fn.decorator_list)


def default_of(fn: pf.FuncDef, name: str) -> Optional[ast.expr]:
    args = fn.args.posonlyargs + fn.args.args
    defaults = fn.args.defaults
    off = len(args) - len(defaults)
    for i, a in enumerate(args):
        if a.arg == name and i >= off:
            return defaults[i - off]
    for a, d in zip(fn.args.kwonlyargs, fn.args.kw_defaults):
        if a.arg == name:
            return d
    return None


def _has_default(fn: pf.FuncDef, p: str) -> bool:
    return default_of(fn, p) is not None


def bound_arg(call: ast.Call, fn: pf.FuncDef, param: str) -> Tuple[str, Optional[ast.expr]]:
    """('arg', expr) | ('default', default expr) | ('incompatible', None) | ('unknown', None).
    A call through an attribute to a method binds `self` implicitly.  'incompatible': this call cannot be a call of fn
    (too many positional arguments, an unknown keyword, or a required parameter left out - it would raise TypeError)."""
    if any(isinstance(a, ast.Starred) for a in call.args) or any(k.arg is None for k in call.keywords):
        return ('unknown', None)
    names = _param_names(fn)
    shift = 1 if _is_method(fn) and isinstance(call.func, ast.Attribute) else 0
    pos = names[shift:]
    kwonly = [a.arg for a in fn.args.kwonlyargs]
    if len(call.args) > len(pos) and fn.args.vararg is None:
        return ('incompatible', None)
    given = set(pos[:len(call.args)])
    for k in call.keywords:
        if k.arg not in pos and k.arg not in kwonly and fn.args.kwarg is None:
            return ('incompatible', None)
        given.add(k.arg)
    for p in pos + kwonly:
        if p not in given and not _has_default(fn, p):
            return ('incompatible', None)
    if param in pos and pos.index(param) < len(call.args):
        return ('arg', call.args[pos.index(param)])
    for k in call.keywords:
        if k.arg == param:
            return ('arg', k.value)
    if param in pos or param in kwonly:
        return ('default', default_of(fn, param))
    return ('unknown', None)


def callers_of(fn: pf.FuncDef) -> List[Tuple[pf.Module, Optional[pf.FuncDef], ast.Call]]:
    """Call sites (by name) in the driver packages that can be calls of fn."""
    out = []
    for m2, f2, call in cs.call_sites(PY_DIRS, fn.name):
        if f2 is fn:
            continue
        if bound_arg(call, fn, '')[0] == 'incompatible':
            continue
        out.append((m2, f2, call))
    return out


def classify_time(ctx: Ctx, m: pf.Module, fn: Optional[pf.FuncDef], x: ast.expr, depth: int = 3) -> List[Tuple[str, str]]:
    """Possible NULL-classes of a Python expression bound to a timestamp parameter: list of (class, origin)."""
    if isinstance(x, ast.Constant) and x.value is None:
        return [('null', f'{m.rel}:{x.lineno} None')]
    if isinstance(x, ast.Call) and pf.dotted(x.func) == 'time_msecs':
        return [('nonnull', f'{m.rel}:{x.lineno} time_msecs()')]
    if isinstance(x, ast.Name) and fn is not None:
        defs = pf.assignments(fn).get(x.id, [])
        params = [a for a in defs if isinstance(a, ast.arg)]
        others = [d for d in defs if not isinstance(d, ast.arg)]
        # idiom:  if not t: t = time_msecs()
        if params and len(others) == 1 and isinstance(others[0], ast.Call) and pf.dotted(others[0].func) == 'time_msecs':
            for n in pf.walk_shallow(fn):
                if isinstance(n, ast.If) and pf.nsrc(n.test) in (f'not {x.id}', f'{x.id} is None') and any(isinstance(b, ast.Assign) and b.value is others[0] for b in n.body):
                    return [('nonnull', f'{m.rel}::{fn.name} `if not {x.id}: {x.id} = time_msecs()`')]
        if params and not others and depth > 0:
            out: List[Tuple[str, str]] = []
            for m2, f2, call in callers_of(fn):
                how, a = bound_arg(call, fn, x.id)
                if how == 'default':
                    if a is not None:
                        out += classify_time(ctx, m, None, a, 0)
                    else:
                        out.append(('any', f'{m2.rel}:{call.lineno} argument not found'))
                    continue
                if how != 'arg' or a is None:
                    out.append(('any', f'{m2.rel}:{call.lineno} argument not found'))
                    continue
                out += classify_time(ctx, m2, f2, a, depth - 1)
            return out or [('any', f'no call sites of {fn.name}')]
        if len(others) == 1 and not params and isinstance(others[0], ast.expr):
            return classify_time(ctx, m, fn, others[0], depth)
    if isinstance(x, ast.Subscript) and fn is not None:
        key = (fn.name, pf.nsrc(x))
        if key in WORKER_FIELDS:
            cls, why = WORKER_FIELDS[key]
            ctx.assume(f'worker-supplied {key[1]} in {key[0]} is {cls}: {why}')
            return [(cls, f'{m.rel}::{fn.name} {key[1]}')]
    return [('any', f'{m.rel}:{getattr(x, "lineno", 0)} {pf.nsrc(x)[:40]}')]


class Frame:
    """One hop of a call chain: `call` inside function `fn` of module `m`."""

    def __init__(self, m: pf.Module, fn: Optional[pf.FuncDef], call: ast.Call):
        self.m = m
        self.fn = fn
        self.call = call

    @property
    def label(self) -> str:
        return f'{self.m.rel}::{self.m.qualname(self.fn) if self.fn is not None else "<module>"}'


def trace_strings(m: pf.Module, fn: Optional[pf.FuncDef], e: ast.expr, frames: Tuple[Frame, ...], depth: int = 4) -> List[Tuple[Optional[str], Tuple[Frame, ...], str]]:
    """Where the string value of expression `e` (evaluated in fn) comes from.  Each result: (literal or None, frames, note) where frames
    lists the calls the value travels through, outermost (the one that names the literal) first.  None = not a resolvable literal."""
    s = pf.const_str(e)
    if s is not None:
        return [(s, frames, '')]
    if isinstance(e, ast.Constant) and e.value is None:
        return [(None, frames, 'None')]
    if isinstance(e, ast.IfExp):
        return trace_strings(m, fn, e.body, frames, depth) + trace_strings(m, fn, e.orelse, frames, depth)
    if isinstance(e, ast.Name) and fn is not None:
        defs = pf.assignments(fn).get(e.id, [])
        params = [d for d in defs if isinstance(d, ast.arg)]
        others = [d for d in defs if not isinstance(d, ast.arg)]
        out: List[Tuple[Optional[str], Tuple[Frame, ...], str]] = []
        if not defs:
            # not a local: a module-level constant?
            try:
                g = m.global_assign(e.id)
            except Exception:
                g = None
            gs = pf.const_str(g) if g is not None else None
            return [(gs, frames, '' if gs is not None else f'{m.rel}:{e.lineno} {e.id} is not a local or a module-level string constant')]
        for d in others:
            if isinstance(d, ast.expr):
                out += trace_strings(m, fn, d, frames, depth)
            else:
                out.append((None, frames, f'{m.rel}:{getattr(d, "lineno", 0)} opaque definition of {e.id}'))
        if params:
            if depth <= 0:
                out.append((None, frames, f'{m.rel}::{fn.name}({e.id}) call depth exhausted'))
                return out
            sites = callers_of(fn)
            if not sites:
                out.append((None, frames, f'no call sites of {fn.name}'))
            for m2, f2, call in sites:
                how, a = bound_arg(call, fn, e.id)
                fr = (Frame(m2, f2, call),) + frames
                if how in ('arg', 'default') and a is not None:
                    out += trace_strings(m2, f2 if how == 'arg' else None, a, fr, depth - 1)
                else:
                    out.append((None, fr, f'{m2.rel}:{call.lineno} argument for {e.id} not found'))
        return out
    return [(None, frames, f'{m.rel}:{getattr(e, "lineno", 0)} {pf.nsrc(e)[:40]}')]


class ProcCall:
    """`CALL proc(%s, ...)` issued from Python: procedure parameter -> Python expression."""

    def __init__(self, m: pf.Module, e: sf.Embedded, bind: Dict[str, ast.expr]):
        self.m = m
        self.e = e
        self.bind = bind


def proc_calls(ctx: Ctx, prog: sf.SqlProgram, rels: Sequence[str] = ('batch/batch/driver/job.py', 'batch/batch/driver/instance.py')) -> Dict[str, ProcCall]:
    calls: Dict[str, ProcCall] = {}
    for rel in rels:
        m = pf.load(rel)
        for e in sf.embedded_in(m):
            if e.sql_text is None:
                continue
            sts = e.stmts()
            if len(sts) == 1 and sts[0].kind == 'call':
                elts = sr.args_tuple(e.fn, e.call.args[1] if len(e.call.args) > 1 else None)
                if elts is not None and sts[0].name in prog.routines:
                    params = [p[1].lower() for p in prog.routine(sts[0].name).ast.params]
                    ctx.need(len(params) == len(elts), f'CALL {sts[0].name}: arity mismatch between procedure and Python site')
                    calls[sts[0].name] = ProcCall(m, e, dict(zip(params, elts)))
    return calls


def _one_class(cl: List[Tuple[str, str]]) -> str:
    kinds = {c for c, _ in cl}
    return kinds.pop() if len(kinds) == 1 else 'any'


def refine_from_callers(ctx: Ctx, prog: sf.SqlProgram, ws: List[Writer]) -> None:
    """Per call chain: NULL-class of each timestamp parameter and the reason values (closed set of CALL sites in the driver)."""
    calls = proc_calls(ctx, prog)
    for w in ws:
        tsyms = list(w.tsyms)
        if w.wid.startswith('py:'):
            # embedded UPDATE: bind %s parameters positionally
            e = w.embedded       # type: ignore[attr-defined]
            m = e.module
            params = sr.params_in_order(w.stmt)     # type: ignore[attr-defined]
            arg = e.call.args[1] if len(e.call.args) > 1 else None
            arg = pf.resolve_expr(e.fn, arg) if arg is not None and e.fn is not None else arg
            first = None
            if isinstance(arg, (ast.List, ast.Tuple)) and arg.elts and not isinstance(arg.elts[0], ast.Starred):
                first = arg.elts[0]
            classes = {}
            for s_ in tsyms:
                x = None
                if s_.startswith('%s@'):
                    pos = int(s_.split('@')[1])
                    idx = [p.pos for p in params].index(pos)
                    x = first if idx == 0 and first is not None else None
                cl = classify_time(ctx, m, e.fn, x) if x is not None else [('any', 'unbound')]
                classes[s_] = _one_class(cl)
            w.variants.append((e.qual, classes, False, None))
            continue
        name = w.wid[4:].split('::')[0]
        if not w.assigns:
            w.variants.append(('no-op', {}, False, None))
            continue
        if name not in calls:
            w.variants.append(('unresolved callers', {s_: 'any' for s_ in tsyms}, False, None))
            continue
        pc = calls[name]
        m, e, bind = pc.m, pc.e, pc.bind
        wrapper = e.fn
        wparams = [a.arg for a in wrapper.args.posonlyargs + wrapper.args.args + wrapper.args.kwonlyargs]
        forwarded = {s_: bind[s_].id for s_ in tsyms if s_ in bind and isinstance(bind[s_], ast.Name) and bind[s_].id in wparams
                     and not [d for d in pf.assignments(wrapper).get(bind[s_].id, []) if not isinstance(d, ast.arg)]}
        rs = w.rsym
        r_forwarded = rs in bind and isinstance(bind[rs], ast.Name) and bind[rs].id in wparams
        if forwarded or r_forwarded:
            # one variant per caller of the wrapper
            for m2, f2, call in callers_of(wrapper):
                classes = {}
                for s_ in tsyms:
                    if s_ in forwarded:
                        how, a = bound_arg(call, wrapper, forwarded[s_])
                        if how == 'default' and a is not None:
                            cl = classify_time(ctx, m, None, a, 0)
                        else:
                            cl = classify_time(ctx, m2, f2, a) if how == 'arg' and a is not None else [('any', 'missing')]
                    else:
                        cl = classify_time(ctx, m, wrapper, bind[s_]) if s_ in bind else [('any', 'unbound')]
                    classes[s_] = _one_class(cl)
                rvals: Optional[Set[Optional[str]]] = None
                if rs in bind:
                    if r_forwarded:
                        how, a = bound_arg(call, wrapper, bind[rs].id)
                        srcs = trace_strings(m2, f2, a, ()) if how in ('arg', 'default') and a is not None else [(None, (), 'missing')]
                    else:
                        srcs = trace_strings(m, wrapper, bind[rs], ())
                    rvals = {v for v, _, _ in srcs} if all(v is not None or note == 'None' for v, _, note in srcs) else None
                # an attempt id that is literally None never matches a row: the UPDATE is a no-op
                aid = bind.get('in_attempt_id')
                if isinstance(aid, ast.Name) and aid.id in wparams:
                    how, av = bound_arg(call, wrapper, aid.id)
                    if isinstance(av, ast.Constant) and av.value is None:
                        ctx.info(f'{m2.rel}:{call.lineno} calls {wrapper.name} with attempt_id None: `attempt_id = NULL` matches no row, no update happens')
                        continue
                fresh = f2 is not None and f2.name == 'mark_job_errored'
                w.variants.append((f'{m2.rel}::{m2.qualname(f2) if f2 else "<module>"}', classes, fresh, rvals))
        else:
            classes = {}
            for s_ in tsyms:
                cl = classify_time(ctx, m, wrapper, bind[s_]) if s_ in bind else [('any', 'unbound')]
                classes[s_] = _one_class(cl)
            rvals = None
            if rs in bind:
                srcs = trace_strings(m, wrapper, bind[rs], ())
                rvals = {v for v, _, _ in srcs} if all(v is not None or note == 'None' for v, _, note in srcs) else None
            w.variants.append((f'{m.rel}::{m.qualname(wrapper)}', classes, False, rvals))
        if any(v[2] for v in w.variants):
            ctx.assume('mark_job_errored reports an attempt that has not ended and has not been billed yet (OLD: end_time NULL, reason NULL, rollup <= start or one of them NULL): '
                       'the id was just generated by the scheduling loop (secret_alnum_string) or, for a job-private instance, the attempt was created by mark_job_creating '
                       '(start = rollup) and its job was never sent to a worker, so no billing heartbeat has moved rollup_time.  Not verified statically.')


# ----------------------------------------------------------------------------------------------------
# transitions
# ----------------------------------------------------------------------------------------------------
OLD_REASONS: List[Optional[str]] = [None, 'completed']


def transitions(body: List[N], w: Writer, special_reasons: Sequence[str]) -> Iterator[Tuple[str, Dict[str, Any], Dict[str, Any], Dict[str, Any]]]:
    """(call chain, OLD row, row written by the statement, row stored after the trigger) for every ordering class, starting from every
    OLD row that satisfies Inv.  `special_reasons`: reason literals the trigger distinguishes (always part of the reason domain)."""
    tsyms = list(w.tsyms)
    has_reason = any(c == 'reason' for c, _ in w.assigns)
    old_reasons = OLD_REASONS + [r for r in special_reasons if r not in OLD_REASONS]
    for label, classes, fresh, rvals in w.variants:
        if not has_reason:
            new_reasons: List[Optional[str]] = ['<keep>']
        elif w.rsym is None:
            new_reasons = ['<literal>']
        elif rvals is not None:
            new_reasons = sorted(rvals, key=str)
        else:
            new_reasons = list(old_reasons)
        for ordv in weak_orderings(3 + len(tsyms)):
            old = dict(zip(TIME_COLS, ordv[:3]))
            if not inv(old):
                continue
            if fresh and not (old['end_time'] is None and (old['start_time'] is None or old['rollup_time'] is None or old['rollup_time'] <= old['start_time'])):
                continue        # 'fresh': the attempt has not ended and nothing has been billed for it yet
            pv = dict(zip(tsyms, ordv[3:]))
            if any((classes.get(s) == 'nonnull' and pv[s] is None) or (classes.get(s) == 'null' and pv[s] is not None) for s in tsyms):
                continue
            for oreason in old_reasons:
                if fresh and oreason is not None:
                    continue
                old['reason'] = oreason
                for nr in new_reasons:
                    new = w.written_row(old, pv, nr)
                    out = exec_trigger(body, old, new)
                    yield label, dict(old), new, out


# ----------------------------------------------------------------------------------------------------
# abstract evaluation of a condition over one ordering class (no concrete values)
# ----------------------------------------------------------------------------------------------------
class UnknownLeaf(Exception):
    """The condition reads something the ordering class does not determine."""


class GapBasis:
    """A linear form over rank atoms rewritten over the gaps between consecutive distinct ranks of the class:
    value(rank_k) = g_0 + .. + g_k with every gap an integer >= 1 (g_0: distance of the lowest timestamp from 0).
    The sign of a form is then a question about coefficient signs - decided symbolically, exactly."""

    def __init__(self, ranks: Sequence[Optional[int]]):
        self.rs = sorted({r for r in ranks if r is not None and r != ZERO})

    def coeffs(self, lin: Lin) -> Tuple[Tuple[int, ...], int]:
        cs_ = dict(lin[0])
        for r in cs_:
            if r not in self.rs:
                raise AnalysisError('internal: rank outside the ordering class')
        return tuple(sum(cs_.get(rk, 0) for rk in self.rs[i:]) for i in range(len(self.rs))), lin[1]


Sign3 = Tuple[Optional[bool], Optional[bool], Optional[bool]]      # (can be < 0, can be = 0, can be > 0); None = not decided


def sign_info(a: Sequence[int], c: int) -> Sign3:
    """Which signs c + sum(a_i * g_i) takes when every g_i ranges over the integers >= 1 (exact where not None)."""
    pos = [x for x in a if x > 0]
    neg = [x for x in a if x < 0]
    if not pos and not neg:
        return (c < 0, c == 0, c > 0)
    if pos and not neg:
        mn = c + sum(pos)
        return (mn < 0, True if mn == 0 else (False if mn > 0 else (True if 1 in pos else None)), True)
    if neg and not pos:
        mx = c + sum(neg)
        return (True, True if mx == 0 else (False if mx < 0 else (True if -1 in neg else None)), mx > 0)
    return (True, True if (1 in pos or -1 in neg) else None, True)


class CondEval(ValueEval):
    """Three-valued truth of a condition in one ordering class, decided symbolically.
    Results:  ('const', True|False|None)            the same outcome for every realisation of the class
              ('var', frozenset of outcomes)        exactly these outcomes occur (each for some realisation)
              ('unk',)                              not decided
    `pivot` / `pivot_sign`: an optional linear form (gap basis) whose sign is fixed by the caller's case split; comparisons of
    +-pivot with 0 are then decided by that sign, other arithmetic comparisons whose sign is not constant are 'unk' (correlation)."""

    def __init__(self, leaf: Callable[[N], Any], basis: GapBasis, pivot: Optional[Tuple[Tuple[int, ...], int]] = None, pivot_sign: int = 0):
        super().__init__(leaf)
        self.basis = basis
        self.pivot = pivot
        self.pivot_sign = pivot_sign

    # GREATEST / LEAST are resolved as soon as the ordering class decides which argument wins
    def forms(self, e: N) -> Any:
        if e.kind == 'func' and e.name in ('GREATEST', 'LEAST') and e.args:
            vals = [self.forms(a) for a in e.args]
            if any(v is NULLV for v in vals):
                return NULLV
            if all(v.kind == 'one' for v in vals):
                want_max = e.name == 'GREATEST'
                for v in vals:
                    ok = True
                    for u in vals:
                        if u is v:
                            continue
                        d = v.add(u.neg(), e) if want_max else u.add(v.neg(), e)
                        s = sign_info(*self.basis.coeffs(d.forms[0]))
                        if s[0] is not False:
                            ok = False
                            break
                    if ok:
                        return v
        return super().forms(e)

    def signs(self, f: Forms) -> Tuple[Optional[int], Sign3]:
        """(sign fixed by the pivot case split or None, sign_info over the whole class)"""
        if f.kind != 'one':
            raise UnknownLeaf('unresolved GREATEST/LEAST')
        a, c = self.basis.coeffs(f.forms[0])
        if self.pivot is not None and c == 0 and self.pivot[1] == 0 and any(self.pivot[0]):
            if a == self.pivot[0]:
                return self.pivot_sign, (None, None, None)
            if a == tuple(-x for x in self.pivot[0]):
                return -self.pivot_sign, (None, None, None)
        return None, sign_info(a, c)

    def _operand(self, e: N) -> Any:
        if e.kind == 'lit' and isinstance(e.value, str):
            return e.value
        if e.kind in ('col', 'param'):
            v = self.leaf(e)
            if isinstance(v, str):
                return v
        return self.forms(e)

    def cond(self, c: N) -> bool:        # not used here (ValueEval API)
        r = self.truth(c)
        if r[0] != 'const':
            raise AnalysisError(f'condition `{text(c)}` is not decided by the ordering')
        return r[1] is True

    def truth(self, c: N) -> Tuple:
        try:
            return self._truth(c)
        except UnknownLeaf:
            return ('unk',)
        except AnalysisError:
            return ('unk',)

    @staticmethod
    def _combine(op: str, parts: List[Tuple]) -> Tuple:
        def k3(vals: List[Optional[bool]]) -> Optional[bool]:
            if op == 'AND':
                return False if any(v is False for v in vals) else (None if any(v is None for v in vals) else True)
            return True if any(v is True for v in vals) else (None if any(v is None for v in vals) else False)
        consts = [p[1] for p in parts if p[0] == 'const']
        others = [p for p in parts if p[0] != 'const']
        # absorbing constant decides regardless of the rest
        if (op == 'AND' and any(v is False for v in consts)) or (op == 'OR' and any(v is True for v in consts)):
            return ('const', op == 'OR')
        if not others:
            return ('const', k3(consts))
        if len(others) == 1 and others[0][0] == 'var':
            outs = frozenset(k3(consts + [o]) for o in others[0][1])
            return ('const', next(iter(outs))) if len(outs) == 1 else ('var', outs)
        return ('unk',)

    def _truth(self, c: N) -> Tuple:
        k = c.kind
        if k == 'bin' and c.op in ('AND', 'OR'):
            return self._combine(c.op, [self.truth(c.left), self.truth(c.right)])
        if k == 'un' and c.op == 'NOT':
            r = self.truth(c.arg)
            if r[0] == 'const':
                return ('const', None if r[1] is None else not r[1])
            if r[0] == 'var':
                return ('var', frozenset(None if o is None else not o for o in r[1]))
            return r
        if k == 'lit':
            return ('const', None if c.value is None else bool(c.value))
        if k == 'isnull':
            return ('const', (self._operand(c.arg) is NULLV) != c.negated)
        if k == 'bin' and c.op in ('=', '!=', '<', '<=', '>', '>=', '<=>'):
            a, b = self._operand(c.left), self._operand(c.right)
            if isinstance(a, str) or isinstance(b, str):
                if c.op == '<=>':
                    return ('const', (a is NULLV and b is NULLV) or (isinstance(a, str) and isinstance(b, str) and a.lower() == b.lower()))
                if a is NULLV or b is NULLV:
                    return ('const', None)
                if c.op in ('=', '!=') and isinstance(a, str) and isinstance(b, str):
                    return ('const', (a.lower() == b.lower()) == (c.op == '='))
                return ('unk',)
            if c.op == '<=>' and (a is NULLV or b is NULLV):
                return ('const', a is NULLV and b is NULLV)
            if a is NULLV or b is NULLV:
                return ('const', None)
            fixed, (cn, cz, cp) = self.signs(a.add(b.neg(), c))
            test = {'=': lambda s: s == 0, '<=>': lambda s: s == 0, '!=': lambda s: s != 0, '<': lambda s: s < 0, '<=': lambda s: s <= 0,
                    '>': lambda s: s > 0, '>=': lambda s: s >= 0}[c.op]
            if fixed is not None:
                return ('const', test(fixed))
            if None in (cn, cz, cp):
                # undecided possibilities only matter if they could change the outcome
                sure = {test(s) for s, can in ((-1, cn), (0, cz), (1, cp)) if can is True}
                maybe = {test(s) for s, can in ((-1, cn), (0, cz), (1, cp)) if can is None}
                if len(sure) == 1 and maybe <= sure:
                    return ('const', next(iter(sure)))
                if len(sure) == 2 and self.pivot is None:
                    return ('var', frozenset(sure))
                return ('unk',)
            outs = frozenset(test(s) for s, can in ((-1, cn), (0, cz), (1, cp)) if can)
            if len(outs) == 1:
                return ('const', next(iter(outs)))
            if self.pivot is not None:
                return ('unk',)      # varies inside the class, but the caller's case split may correlate with it
            return ('var', outs)
        raise UnknownLeaf(f'condition `{text(c)}`')
