"""Facts for C01 (scheduler counters == recomputation from job states).

 * `linear_in`      linear normal form  a + b*C  of an extracted SQL expression in one symbolic quantity C (cores_mcpu): the amount columns
                    are compared coefficient-wise, never by plugging a sample value in for C.
 * `PathEnum`       abstract execution of a stored-routine body over an extracted syntax tree for one valuation of a FINITE ABSTRACT domain
                    (enum members / boolean flags of the atoms the routine tests; the caller enumerates the domain exhaustively).  Everything
                    outside that domain -- table contents, RAND(), cores, user names -- is the symbolic value UNKNOWN; guards are evaluated
                    three-valued and an undecidable guard is an explicit case split.  The result is, per path, WHICH statements execute
                    (control-flow fact); amounts are not computed.  No sample inputs, nothing is sent to a database, nothing of the
                    repository is executed.
 * `path_literals`  effective path condition of a statement in a procedure (enclosing IF predicates and the negation of earlier
                    early exits) as a set of literals, for "these statements run under the same condition" obligations.
 * `guard_dominates` Python side: a call is dominated by the "row was found" outcome of a guard query.
"""
from __future__ import annotations

import ast
from typing import Any, Callable, Dict, FrozenSet, List, Optional, Sequence, Set, Tuple

from . import pyfacts as pf
from . import sqlfront as sf
from . import sqlrules as sr
from .common import AnalysisError
from .sqlast import N, text
from .sqleval import UNKNOWN, Unbound, ev, may


# --------------------------------------------------------------------------------------------------------------
# linear normal form in one symbolic quantity
# --------------------------------------------------------------------------------------------------------------
def _mul(x: Optional[N], y: Optional[N]) -> Optional[N]:
    if x is None or y is None:
        return None
    return N('bin', op='*', left=x, right=y)


def _add(x: Optional[N], y: Optional[N], op: str = '+') -> Optional[N]:
    if y is None:
        return x
    if x is None:
        return y if op == '+' else N('un', op='-', arg=y)
    return N('bin', op=op, left=x, right=y)


def linear_in(e: N, is_c: Callable[[N], bool]) -> Optional[Tuple[Optional[N], Optional[N]]]:
    """e == a + b*C with a, b free of C  ->  (a, b)  (None stands for 0);  None when e is not (recognisably) linear in C."""
    if is_c(e):
        return (None, N('lit', value=1))
    if not any(is_c(n) for n in e.walk()):
        return (e, None)
    if e.kind == 'un' and e.op == '-':
        r = linear_in(e.arg, is_c)
        if r is None:
            return None
        return (_add(None, r[0], '-'), _add(None, r[1], '-'))
    if e.kind == 'bin' and e.op in ('+', '-'):
        l, r = linear_in(e.left, is_c), linear_in(e.right, is_c)
        if l is None or r is None:
            return None
        return (_add(l[0], r[0], e.op), _add(l[1], r[1], e.op))
    if e.kind == 'bin' and e.op == '*':
        l, r = linear_in(e.left, is_c), linear_in(e.right, is_c)
        if l is None or r is None or (l[1] is not None and r[1] is not None):
            return None
        return (_mul(l[0], r[0]), _add(_mul(l[0], r[1]), _mul(l[1], r[0])))
    if e.kind == 'cast':
        return linear_in(e.arg, is_c)
    return None


# --------------------------------------------------------------------------------------------------------------
# abstract path enumeration
# --------------------------------------------------------------------------------------------------------------
class _Unk(Exception):
    pass


class Effect:
    """One executed INSERT into a table of interest (which statement, which table -- not what amount)."""

    def __init__(self, st: N, table: str):
        self.st = st
        self.table = table


class Run:
    def __init__(self) -> None:
        self.vars: Dict[str, Any] = {}
        self.effects: List[Effect] = []
        self.decisions: List[Tuple[N, bool, bool]] = []  # (IF predicate, outcome, forked because undecidable)
        self.aborted = False  # SIGNAL: the triggering statement fails as a whole

    def clone(self) -> 'Run':
        r = Run()
        r.vars = dict(self.vars)
        r.effects = list(self.effects)
        r.decisions = list(self.decisions)
        r.aborted = self.aborted
        return r

    def times_executed(self, st: N) -> int:
        return sum(1 for e in self.effects if e.st is st)


class PathEnum:
    """Enumerates the paths of a routine body for one valuation of the abstract domain.

    atoms(name)   abstract value (enum member / flag) of a non-variable column reference such as `old.state` (lower-cased dotted text), or UNKNOWN
    into_hook(st) values selected by a `SELECT .. INTO` statement (list, one per target) or None when unknown
    tables        lower-cased names of the tables whose INSERTs are recorded; UPDATE/DELETE on them is not analysable here
    """

    MAX_RUNS = 64

    def __init__(self, atoms: Callable[[str], Any], into_hook: Callable[[N], Optional[List[Any]]], tables: Set[str], what: str):
        self.atoms = atoms
        self.into_hook = into_hook
        self.tables = tables
        self.what = what
        self._opaque: Dict[int, bool] = {}
        self._names: Dict[int, str] = {}

    # -- expressions -----------------------------------------------------------------------------
    def _known(self, run: Run) -> Callable[[N], Any]:
        def known(n: N) -> Any:
            if n.kind == 'col':
                name = self._names.get(id(n))
                if name is None:
                    name = self._names[id(n)] = text(n).lower()
                if len(n.parts) == 1 and name in run.vars:
                    return run.vars[name]
                return self.atoms(name)
            if n.kind == 'uvar':
                return run.vars.get('@' + n.name.lower(), UNKNOWN)
            return UNKNOWN
        return known

    def value(self, e: N, run: Run) -> Any:
        known = self._known(run)

        def env(n: N) -> Any:
            v = known(n)
            if v is UNKNOWN:
                raise _Unk()
            return v
        op = self._opaque.get(id(e))
        if op is None:
            op = self._opaque[id(e)] = any(n.kind in ('subq', 'exists', 'select') for n in e.walk())
        if op:
            return UNKNOWN
        try:
            return ev(e, env)
        except (_Unk, Unbound):
            return UNKNOWN

    # -- statements ------------------------------------------------------------------------------
    def run(self, body: Sequence[N]) -> List[Run]:
        out = []
        for r, status in self._block(list(body), Run()):
            if status not in ('normal', 'abort'):
                raise AnalysisError(f'{self.what}: LEAVE {status[1]} does not match an enclosing labelled block')
            out.append(r)
        return out

    def _block(self, stmts: List[N], run: Run) -> List[Tuple[Run, Any]]:
        states: List[Tuple[Run, Any]] = [(run, 'normal')]
        for st in stmts:
            nxt: List[Tuple[Run, Any]] = []
            for r, status in states:
                if status != 'normal':
                    nxt.append((r, status))
                    continue
                nxt += self._stmt(st, r)
            states = nxt
            if len(states) > self.MAX_RUNS:
                raise AnalysisError(f'{self.what}: more than {self.MAX_RUNS} paths depend on values outside the analysed domain')
        return states

    def _stmt(self, st: N, run: Run) -> List[Tuple[Run, Any]]:
        k = st.kind
        if k == 'declare':
            v = self.value(st.default, run) if st.default is not None else None
            for n in st.names:
                run.vars[n.lower()] = v
            return [(run, 'normal')]
        if k in ('declare_handler', 'declare_cursor', 'txn', 'other'):
            return [(run, 'normal')]
        if k == 'set':
            for t, v in st.assigns:
                if t.kind == 'uvar':
                    run.vars['@' + t.name.lower()] = self.value(v, run)
                elif sr.is_var(t) and t.parts[0].lower() in run.vars:
                    run.vars[t.parts[0].lower()] = self.value(v, run)
                else:
                    raise AnalysisError(f'{self.what}: SET target `{text(t)}` is not a declared variable')
            return [(run, 'normal')]
        if k == 'select':
            if st.into:
                vals = self.into_hook(st)
                for i, t in enumerate(st.into):
                    v = vals[i] if vals is not None and i < len(vals) else UNKNOWN
                    if t.kind == 'uvar':
                        run.vars['@' + t.name.lower()] = v
                    elif sr.is_var(t):
                        run.vars[t.parts[0].lower()] = v
                    else:
                        raise AnalysisError(f'{self.what}: SELECT INTO target `{text(t)}` not recognised')
            return [(run, 'normal')]
        if k == 'if':
            out: List[Tuple[Run, Any]] = []
            cur: Optional[Run] = run
            for cond, body in st.branches:
                assert cur is not None
                m = may(cond, self._known(cur))
                if m == {True}:
                    cur.decisions.append((cond, True, False))
                    return out + self._block(list(body), cur)
                if m == {False}:
                    cur.decisions.append((cond, False, False))
                    continue
                taken = cur.clone()
                taken.decisions.append((cond, True, True))
                out += self._block(list(body), taken)
                cur.decisions.append((cond, False, True))
            if st.orelse is not None:
                out += self._block(list(st.orelse), cur)
            else:
                out.append((cur, 'normal'))
            return out
        if k == 'block':
            out = []
            for r, status in self._block(list(st.body), run):
                if isinstance(status, tuple) and status[0] == 'leave' and getattr(st, 'label', None) and status[1].lower() == st.label.lower():
                    status = 'normal'
                out.append((r, status))
            return out
        if k == 'leave':
            return [(run, ('leave', st.label))]
        if k == 'signal':
            run.aborted = True
            return [(run, 'abort')]
        if k == 'insert':
            tbl = st.table.lower()
            if tbl in self.tables:
                run.effects.append(Effect(st, tbl))
            return [(run, 'normal')]
        if k in ('update', 'delete'):
            for t, _ in sf.written_tables(st):
                if t.lower() in self.tables:
                    raise AnalysisError(f'{self.what}: {k.upper()} of {t} is not a recognised counter maintenance shape')
            return [(run, 'normal')]
        raise AnalysisError(f'{self.what}: statement kind `{k}` is outside what the path enumeration models ({text(st)[:60]})')


# --------------------------------------------------------------------------------------------------------------
# effective path conditions in procedures
# --------------------------------------------------------------------------------------------------------------
Literal = Tuple[str, bool]


def _flatten(cond: N, pol: bool, out: List[Tuple[N, bool]]) -> None:
    """cond (pol=True) or NOT cond (pol=False) as a conjunction of literals where that is exact (SQL IF: NULL counts as false, so
    only AND under positive polarity and NOT over a plain predicate are flattened)."""
    if pol and cond.kind == 'bin' and cond.op == 'AND':
        _flatten(cond.left, True, out)
        _flatten(cond.right, True, out)
        return
    out.append((cond, pol))


def path_literals(body: Sequence[N]) -> Dict[int, Tuple[N, List[Tuple[N, bool]], List[List[Tuple[N, bool]]]]]:
    """id(statement) -> (statement, literals of the enclosing IF branches, [literals of each earlier early exit]).
    A statement runs iff all its literals hold and none of the earlier exits' conjunctions held.  Loops are not modelled:
    statements inside LOOP/WHILE are left out (callers must decline when they need one)."""
    out: Dict[int, Tuple[N, List[Tuple[N, bool]], List[List[Tuple[N, bool]]]]] = {}

    def rec(stmts: Sequence[N], guard: List[Tuple[N, bool]], exits: List[List[Tuple[N, bool]]]) -> List[List[Tuple[N, bool]]]:
        exits = list(exits)
        for st in stmts:
            if st.kind == 'if':
                neg: List[Tuple[N, bool]] = []
                new_exits: List[List[Tuple[N, bool]]] = []
                for c, b in st.branches:
                    g: List[Tuple[N, bool]] = []
                    _flatten(c, True, g)
                    new_exits += rec(b, guard + neg + g, exits)[len(exits):]
                    neg = neg + [(c, False)]
                if st.orelse is not None:
                    new_exits += rec(st.orelse, guard + neg, exits)[len(exits):]
                exits += new_exits
            elif st.kind == 'block':
                out[id(st)] = (st, list(guard), list(exits))
                inner = rec(st.body, guard, exits)[len(exits):]
                # LEAVE of this block's own label ends here; anything else keeps skipping what follows
                exits += [e for e in inner if not (e and e[-1][0].kind == 'leave' and getattr(st, 'label', None) and e[-1][0].label.lower() == st.label.lower())]
            elif st.kind in ('loop', 'while'):
                out[id(st)] = (st, list(guard), list(exits))
            elif st.kind in ('leave', 'return', 'signal'):
                out[id(st)] = (st, list(guard), list(exits))
                exits.append(list(guard) + [(st, True)])
            else:
                out[id(st)] = (st, list(guard), list(exits))
        return exits

    rec(body, [], [])
    return out


def literal_key(l: Tuple[N, bool]) -> Literal:
    c, pol = l
    if c.kind in ('leave', 'return', 'signal'):
        return ('<exit>', pol)
    # NOT x with positive polarity is the literal (x, False) only when x cannot be NULL; keep it textual otherwise
    return (text(c), pol)


def condition_key(guard: List[Tuple[N, bool]], exits: List[List[Tuple[N, bool]]]) -> FrozenSet[Any]:
    """Canonical form of an effective condition: the set of guard literals plus one frozenset per earlier exit."""
    g = frozenset(literal_key(l) for l in guard)
    ex = frozenset(frozenset(literal_key(l) for l in e if l[0].kind not in ('leave', 'return', 'signal')) for e in exits)
    # an exit taken only under conditions contradicting the guard can never have been taken on this path
    ex = frozenset(e for e in ex if not any((t, not p) in g for t, p in e))
    return frozenset({('guard', g), ('exits', ex)})


def literal_atoms(c: N) -> List[N]:
    return [n for n in c.walk() if n.kind in ('col', 'uvar', 'param', 'hole')]


def has_subquery(c: N) -> bool:
    return any(n.kind in ('subq', 'exists', 'select', 'func') for n in c.walk())


# --------------------------------------------------------------------------------------------------------------
# Python side
# --------------------------------------------------------------------------------------------------------------
def record_tests(g: pf.CFG, rec: str) -> List[Tuple[pf.Node, str]]:
    """CFG test nodes deciding "a row was found" for the result variable `rec`, with the edge label on which the row exists."""
    out = []
    for n in g.find(lambda n: n.kind == 'test'):
        s = pf.nsrc(n.ast)
        if s in (f'not {rec}', f'{rec} is None'):
            out.append((n, 'F'))
        elif s in (rec, f'{rec} is not None'):
            out.append((n, 'T'))
    return out


def guard_dominates(g: pf.CFG, tests: List[Tuple[pf.Node, str]], assign: pf.Node, target: pf.Node) -> bool:
    """Every path entry -> target passes `assign` and afterwards leaves one of `tests` on its row-found edge."""
    if not tests:
        return False
    found = {(t.id, lab) for t, lab in tests}
    test_ids = {t.id for t, _ in tests}
    # 1. no path assign -> target that avoids the row-found edges
    p = g.path_avoiding(assign, lambda n: n is target, lambda n: False,
                        edge_ok=lambda a, b, lab: not (a.id in test_ids and (a.id, lab) in found))
    if p is not None:
        return False
    # 2. no path entry -> target that avoids the guard query itself
    return g.path_avoiding(g.entry, lambda n: n is target, lambda n: n is assign) is None
