"""Facts for C01 (scheduler counters == recomputation from job states).

 * `linear_in`      linear normal form  a + b*C  of an extracted SQL expression in one symbolic quantity C (cores_mcpu): the amount columns
                    are compared coefficient-wise, never by plugging a sample value in for C.
 * `PathEnum`       abstract execution of a stored-routine body over an extracted syntax tree for one valuation of a FINITE ABSTRACT domain
                    (enum members / boolean flags of the atoms the routine tests; the caller enumerates the domain exhaustively).  Everything
                    outside that domain -- table contents, RAND(), cores, user names -- is the symbolic value UNKNOWN; guards are evaluated
                    three-valued and an undecidable guard is an explicit case split.  The result is, per path, WHICH statements execute
                    (control-flow fact); amounts are not computed.  No sample inputs, nothing is sent to a database, nothing of the
                    repository is executed.
 * `path_literals`  effective path condition of a statement in a procedure (enclosing IF predicates and the negation of earlier
                    early exits) as a set of literals, for "these statements run under the same condition" obligations.
 * `guard_dominates` Python side: a call is dominated by the "row was found" outcome of a guard query.
"""
from __future__ import annotations

import ast
from typing import Any, Callable, Dict, FrozenSet, List, Optional, Sequence, Set, Tuple

from . import pyfacts as pf
from . import sqlfront as sf
from . import sqlrules as sr
from .common import AnalysisError
from .sqlast import N, text
from .sqleval import UNKNOWN, Unbound, ev, may


# --------------------------------------------------------------------------------------------------------------
# linear normal form in one symbolic quantity
# --------------------------------------------------------------------------------------------------------------
def _mul(x: Optional[N], y: Optional[N]) -> Optional[N]:
    if x is None or y is None:
        return None
    return N('bin', op='*', left=x, right=y)


def _add(x: Optional[N], y: Optional[N], op: str = '+') -> Optional[N]:
    if y is None:
        return x
    if x is None:
        return y if op == '+' else N('un', op='-', arg=y)
    return N('bin', op=op, left=x, right=y)


def linear_in(e: N, is_c: Callable[[N], bool]) -> Optional[Tuple[Optional[N], Optional[N]]]:
    """e == a + b*C with a, b free of C  ->  (a, b)  (None stands for 0);  None when e is not (recognisably) linear in C."""
    if is_c(e):
        return (None, N('lit', value=1))
    if not any(is_c(n) for n in e.walk()):
        return (e, None)
    if e.kind == 'un' and e.op == '-':
        r = linear_in(e.arg, is_c)
        if r is None:
            return None
        return (_add(None, r[0], '-'), _add(None, r[1], '-'))
    if e.kind == 'bin' and e.op in ('+', '-'):
        l, r = linear_in(e.left, is_c), linear_in(e.right, is_c)
        if l is None or r is None:
            return None
        return (_add(l[0], r[0], e.op), _add(l[1], r[1], e.op))
    if e.kind == 'bin' and e.op == '*':
        l, r = linear_in(e.left, is_c), linear_in(e.right, is_c)
        if l is None or r is None or (l[1] is not None and r[1] is not None):
            return None
        return (_mul(l[0], r[0]), _add(_mul(l[0], r[1]), _mul(l[1], r[0])))
    if e.kind == 'cast':
        return linear_in(e.arg, is_c)
    return None


# --------------------------------------------------------------------------------------------------------------
# abstract path enumeration
# --------------------------------------------------------------------------------------------------------------
class _Unk(Exception):
    pass


class Effect:
    """One executed INSERT into a table of interest (which statement, which table -- not what amount)."""

    def __init__(self, st: N, table: str):
        self.st = st
        self.table = table


class Run:
    def __init__(self) -> None:
        self.vars: Dict[str, Any] = {}
        self.effects: List[Effect] = []
        self.decisions: List[Tuple[N, bool, bool]] = []  # (IF predicate, outcome, forked because undecidable)
        self.aborted = False  # SIGNAL: the triggering statement fails as a whole

    def clone(self) -> 'Run':
        r = Run()
        r.vars = dict(self.vars)
        r.effects = list(self.effects)
        r.decisions = list(self.decisions)
        r.aborted = self.aborted
        return r

    def times_executed(self, st: N) -> int:
        return sum(1 for e in self.effects if e.st is st)


class PathEnum:
    """Enumerates the paths of a routine body for one valuation of the abstract domain.

    atoms(name)   abstract value (enum member / flag) of a non-variable column reference such as `old.state` (lower-cased dotted text), or UNKNOWN
    into_hook(st) values selected by a `SELECT .. INTO` statement (list, one per target) or None when unknown
    tables        lower-cased names of the tables whose INSERTs are recorded; UPDATE/DELETE on them is not analysable here
    """

    MAX_RUNS = 64

    def __init__(self, atoms: Callable[[str], Any], into_hook: Callable[[N], Optional[List[Any]]], tables: Set[str], what: str):
        self.atoms = atoms
        self.into_hook = into_hook
        self.tables = tables
        self.what = what
        self._opaque: Dict[int, bool] = {}
        self._names: Dict[int, str] = {}

    # -- expressions -----------------------------------------------------------------------------
    def _known(self, run: Run) -> Callable[[N], Any]:
        def known(n: N) -> Any:
            if n.kind == 'col':
                name = self._names.get(id(n))
                if name is None:
                    name = self._names[id(n)] = text(n).lower()
                if len(n.parts) == 1 and name in run.vars:
                    return run.vars[name]
                return self.atoms(name)
            if n.kind == 'uvar':
                return run.vars.get('@' + n.name.lower(), UNKNOWN)
            return UNKNOWN
        return known

    def value(self, e: N, run: Run) -> Any:
        known = self._known(run)

        def env(n: N) -> Any:
            v = known(n)
            if v is UNKNOWN:
                raise _Unk()
            return v
        op = self._opaque.get(id(e))
        if op is None:
            op = self._opaque[id(e)] = any(n.kind in ('subq', 'exists', 'select') for n in e.walk())
        if op:
            return UNKNOWN
        try:
            return ev(e, env)
        except (_Unk, Unbound):
            return UNKNOWN

    # -- statements ------------------------------------------------------------------------------
    def run(self, body: Sequence[N]) -> List[Run]:
        out = []
        for r, status in self._block(list(body), Run()):
            if status not in ('normal', 'abort'):
                raise AnalysisError(f'{self.what}: LEAVE {status[1]} does not match an enclosing labelled block')
            out.append(r)
        return out

    def _block(self, stmts: List[N], run: Run) -> List[Tuple[Run, Any]]:
        states: List[Tuple[Run, Any]] = [(run, 'normal')]
        for st in stmts:
            nxt: List[Tuple[Run, Any]] = []
            for r, status in states:
                if status != 'normal':
                    nxt.append((r, status))
                    continue
                nxt += self._stmt(st, r)
            states = nxt
            if len(states) > self.MAX_RUNS:
                raise AnalysisError(f'{self.what}: more than {self.MAX_RUNS} paths depend on values outside the analysed domain')
        return states

    def _stmt(self, st: N, run: Run) -> List[Tuple[Run, Any]]:
        k = st.kind
        if k == 'declare':
            v = self.value(st.default, run) if st.default is not None else None
            for n in st.names:
                run.vars[n.lower()] = v
            return [(run, 'normal')]
        if k in ('declare_handler', 'declare_cursor', 'txn', 'other'):
            return [(run, 'normal')]
        if k == 'set':
            for t, v in st.assigns:
                if t.kind == 'uvar':
                    run.vars['@' + t.name.lower()] = self.value(v, run)
                elif sr.is_var(t) and t.parts[0].lower() in run.vars:
                    run.vars[t.parts[0].lower()] = self.value(v, run)
                else:
                    raise AnalysisError(f'{self.what}: SET target `{text(t)}` is not a declared variable')
            return [(run, 'normal')]
        if k == 'select':
            if st.into:
                vals = self.into_hook(st)
                for i, t in enumerate(st.into):
                    v = vals[i] if vals is not None and i < len(vals) else UNKNOWN
                    if t.kind == 'uvar':
                        run.vars['@' + t.name.lower()] = v
                    elif sr.is_var(t):
                        run.vars[t.parts[0].lower()] = v
                    else:
                        raise AnalysisError(f'{self.what}: SELECT INTO target `{text(t)}` not recognised')
            return [(run, 'normal')]
        if k == 'if':
            out: List[Tuple[Run, Any]] = []
            cur: Optional[Run] = run
            for cond, body in st.branches:
                assert cur is not None
                m = may(cond, self._known(cur))
                if m == {True}:
                    cur.decisions.append((cond, True, False))
                    return out + self._block(list(body), cur)
                if m == {False}:
                    cur.decisions.append((cond, False, False))
                    continue
                taken = cur.clone()
                taken.decisions.append((cond, True, True))
                out += self._block(list(body), taken)
                cur.decisions.append((cond, False, True))
            if st.orelse is not None:
                out += self._block(list(st.orelse), cur)
            else:
                out.append((cur, 'normal'))
            return out
        if k == 'block':
            out = []
            for r, status in self._block(list(st.body), run):
                if isinstance(status, tuple) and status[0] == 'leave' and getattr(st, 'label', None) and status[1].lower() == st.label.lower():
                    status = 'normal'
                out.append((r, status))
            return out
        if k == 'leave':
            return [(run, ('leave', st.label))]
        if k == 'signal':
            run.aborted = True
            return [(run, 'abort')]
        if k == 'insert':
            tbl = st.table.lower()
            if tbl in self.tables:
                run.effects.append(Effect(st, tbl))
            return [(run, 'normal')]
        if k in ('update', 'delete'):
            for t, _ in sf.written_tables(st):
                if t.lower() in self.tables:
                    raise AnalysisError(f'{self.what}: {k.upper()} of {t} is not a recognised counter maintenance shape')
            return [(run, 'normal')]
        raise AnalysisError(f'{self.what}: statement kind `{k}` is outside what the path enumeration models ({text(st)[:60]})')


# --------------------------------------------------------------------------------------------------------------
# effective path conditions in procedures
# --------------------------------------------------------------------------------------------------------------
Literal = Tuple[str, bool]


def _flatten(cond: N, pol: bool, out: List[Tuple[N, bool]]) -> None:
    """cond (pol=True) or NOT cond (pol=False) as a conjunction of literals where that is exact (SQL IF: NULL counts as false, so
    only AND under positive polarity and NOT over a plain predicate are flattened)."""
    if pol and cond.kind == 'bin' and cond.op == 'AND':
        _flatten(cond.left, True, out)
        _flatten(cond.right, True, out)
        return
    out.append((cond, pol))


def path_literals(body: Sequence[N]) -> Dict[int, Tuple[N, List[Tuple[N, bool]], List[List[Tuple[N, bool]]]]]:
    """id(statement) -> (statement, literals of the enclosing IF branches, [literals of each earlier early exit]).
    A statement runs iff all its literals hold and none of the earlier exits' conjunctions held.  Loops are not modelled:
    statements inside LOOP/WHILE are left out (callers must decline when they need one)."""
    out: Dict[int, Tuple[N, List[Tuple[N, bool]], List[List[Tuple[N, bool]]]]] = {}

    def rec(stmts: Sequence[N], guard: List[Tuple[N, bool]], exits: List[List[Tuple[N, bool]]]) -> List[List[Tuple[N, bool]]]:
        exits = list(exits)
        for st in stmts:
            if st.kind == 'if':
                neg: List[Tuple[N, bool]] = []
                new_exits: List[List[Tuple[N, bool]]] = []
                for c, b in st.branches:
                    g: List[Tuple[N, bool]] = []
                    _flatten(c, True, g)
                    new_exits += rec(b, guard + neg + g, exits)[len(exits):]
                    neg = neg + [(c, False)]
                if st.orelse is not None:
                    new_exits += rec(st.orelse, guard + neg, exits)[len(exits):]
                exits += new_exits
            elif st.kind == 'block':
                out[id(st)] = (st, list(guard), list(exits))
                inner = rec(st.body, guard, exits)[len(exits):]
                # LEAVE of this block's own label ends here; anything else keeps skipping what follows
                exits += [e for e in inner if not (e and e[-1][0].kind == 'leave' and getattr(st, 'label', None) and e[-1][0].label.lower() == st.label.lower())]
            elif st.kind in ('loop', 'while'):
                out[id(st)] = (st, list(guard), list(exits))
            elif st.kind in ('leave', 'return', 'signal'):
                out[id(st)] = (st, list(guard), list(exits))
                exits.append(list(guard) + [(st, True)])
            else:
                out[id(st)] = (st, list(guard), list(exits))
        return exits

    rec(body, [], [])
    return out


def literal_key(l: Tuple[N, bool]) -> Literal:
    c, pol = l
    if c.kind in ('leave', 'return', 'signal'):
        return ('<exit>', pol)
    # NOT x with positive polarity is the literal (x, False) only when x cannot be NULL; keep it textual otherwise
    return (text(c), pol)


def condition_key(guard: List[Tuple[N, bool]], exits: List[List[Tuple[N, bool]]]) -> FrozenSet[Any]:
    """Canonical form of an effective condition: the set of guard literals plus one frozenset per earlier exit."""
    g = frozenset(literal_key(l) for l in guard)
    ex = frozenset(frozenset(literal_key(l) for l in e if l[0].kind not in ('leave', 'return', 'signal')) for e in exits)
    # an exit taken only under conditions contradicting the guard can never have been taken on this path
    ex = frozenset(e for e in ex if not any((t, not p) in g for t, p in e))
    return frozenset({('guard', g), ('exits', ex)})


def literal_atoms(c: N) -> List[N]:
    return [n for n in c.walk() if n.kind in ('col', 'uvar', 'param', 'hole')]


def has_subquery(c: N) -> bool:
    return any(n.kind in ('subq', 'exists', 'select', 'func') for n in c.walk())


# --------------------------------------------------------------------------------------------------------------
# Python side
# --------------------------------------------------------------------------------------------------------------
def record_tests(g: pf.CFG, rec: str) -> List[Tuple[pf.Node, str]]:
    """CFG test nodes deciding "a row was found" for the result variable `rec`, with the edge label on which the row exists."""
    out = []
    for n in g.find(lambda n: n.kind == 'test'):
        s = pf.nsrc(n.ast)
        if s in (f'not {rec}', f'{rec} is None'):
            out.append((n, 'F'))
        elif s in (rec, f'{rec} is not None'):
            out.append((n, 'T'))
    return out


def guard_dominates(g: pf.CFG, tests: List[Tuple[pf.Node, str]], assign: pf.Node, target: pf.Node) -> bool:
    """Every path entry -> target passes `assign` and afterwards leaves one of `tests` on its row-found edge."""
    if not tests:
        return False
    found = {(t.id, lab) for t, lab in tests}
    test_ids = {t.id for t, _ in tests}
    # 1. no path assign -> target that avoids the row-found edges
    p = g.path_avoiding(assign, lambda n: n is target, lambda n: False,
                        edge_ok=lambda a, b, lab: not (a.id in test_ids and (a.id, lab) in found))
    if p is not None:
        return False
    # 2. no path entry -> target that avoids the guard query itself
    return g.path_avoiding(g.entry, lambda n: n is target, lambda n: n is assign) is None


# --------------------------------------------------------------------------------------------------------------
# alias-insensitive structure of a SELECT: which table a column belongs to, equality closure of its conditions
# --------------------------------------------------------------------------------------------------------------
Term = Tuple[str, ...]


def alias_map(sel: N) -> Dict[str, str]:
    """alias (or table name) -> table name, lower-cased, for the plain tables of the FROM clause."""
    return {(t.alias or t.name).lower().strip('`'): t.name.lower().strip('`') for t in sf.from_tables(sel.frm) if t.kind == 'table'} if sel is not None and sel.frm is not None else {}


def term_of(n: N, alias: Dict[str, str], schema: Optional[Dict[str, List[str]]] = None, variables: Sequence[str] = ()) -> Optional[Term]:
    """Canonical name of an operand: ('col', table | '?', column) with the alias resolved through the FROM clause (an unqualified column is
    attributed to the only FROM table that has it when the schema tells), ('var', name) for routine variables / parameters,
    ('lit', repr) and ('param', position) for constants and `%s`."""
    if n.kind == 'col':
        parts = [p.lower().strip('`') for p in n.parts]
        if len(parts) == 1:
            if parts[0] in variables:
                return ('var', parts[0])
            owners = []
            if schema:
                lower = {k.lower(): [c.lower() for c in v] for k, v in schema.items()}
                owners = sorted({t for t in alias.values() if parts[0] in lower.get(t, [])})
            return ('col', owners[0] if len(owners) == 1 else '?', parts[0])
        q = parts[-2]
        if q in ('new', 'old') and q not in alias:
            return ('row', q, parts[-1])
        return ('col', alias.get(q, q), parts[-1])
    if n.kind == 'lit':
        return ('lit', repr(n.value))
    if n.kind == 'param':
        return ('param', str(getattr(n, 'pos', id(n))))
    if n.kind == 'uvar':
        return ('uvar', n.name.lower())
    return None


def _match(a: Term, b: Term) -> bool:
    """Equality of terms, an unattributed column ('?') matching the like-named column of any table."""
    if a == b:
        return True
    if a[0] == b[0] == 'col' and a[2] == b[2] and '?' in (a[1], b[1]):
        return True
    return False


class EqClosure:
    """Equivalence classes of the operands related by `=` conjuncts of a selection (WHERE and the ON conditions of its inner joins)."""

    def __init__(self) -> None:
        self.classes: List[List[Term]] = []
        self.other: List[N] = []   # conjuncts that are not equalities between two recognised operands

    def add(self, a: Term, b: Term) -> None:
        hit = [c for c in self.classes if any(_match(a, x) or _match(b, x) for x in c)]
        new = [a, b]
        for c in hit:
            new += c
            self.classes.remove(c)
        out: List[Term] = []
        for t in new:
            if t not in out:
                out.append(t)
        self.classes.append(out)

    def related(self, a: Term, b: Term) -> bool:
        return any(any(_match(a, x) for x in c) and any(_match(b, x) for x in c) for c in self.classes)

    def partners(self, a: Term) -> List[Term]:
        return [x for c in self.classes if any(_match(a, y) for y in c) for x in c if not _match(a, x)]


def all_conjuncts(sel: N, inner_only: bool = True) -> List[N]:
    out = list(sf.conjuncts(sel.where))

    def rec(ref: N) -> None:
        if ref.kind == 'from':
            rec(ref.first)
            for j in ref.joins:
                if j.on is not None and (j.jtype == 'INNER' or not inner_only):
                    out.extend(sf.conjuncts(j.on))
                rec(j.ref)
    if sel.frm is not None:
        rec(sel.frm)
    return out


def eq_closure(sel: N, schema: Optional[Dict[str, List[str]]] = None, variables: Sequence[str] = (), conj: Optional[List[N]] = None, alias: Optional[Dict[str, str]] = None) -> EqClosure:
    al = alias if alias is not None else alias_map(sel)
    ec = EqClosure()
    for c in (conj if conj is not None else all_conjuncts(sel)):
        if c.kind == 'bin' and c.op == '=':
            a, b = term_of(c.left, al, schema, variables), term_of(c.right, al, schema, variables)
            if a is not None and b is not None:
                ec.add(a, b)
                continue
        if c.kind == 'lit' and c.value in (True, 1):
            continue
        ec.other.append(c)
    return ec


def flag_set(c: N) -> Optional[N]:
    """The operand x of a conjunct that requires the boolean / 0-1 flag x to be set: `x`, `x = 1`, `1 = x`, `x = TRUE`, `x IS TRUE`, `x != 0`."""
    if c.kind in ('col', 'uvar'):
        return c
    if c.kind == 'bin' and c.op in ('=', '<=>'):
        for a, b in ((c.left, c.right), (c.right, c.left)):
            if b.kind == 'lit' and (b.value is True or (b.value == 1 and not isinstance(b.value, (str, bool)))) and a.kind in ('col', 'uvar'):
                return a
    if c.kind == 'bin' and c.op == '!=':
        for a, b in ((c.left, c.right), (c.right, c.left)):
            if b.kind == 'lit' and (b.value is False or (b.value == 0 and not isinstance(b.value, (str, bool)))) and a.kind in ('col', 'uvar'):
                return a
    return None


def flag_clear(c: N) -> Optional[N]:
    """The operand x of a predicate that holds exactly when the (non-NULL) flag x is not set: `NOT x`, `x = 0`, `x = FALSE`, `x IS FALSE`, `x != 1`."""
    if c.kind == 'un' and c.op == 'NOT':
        return flag_set(c.arg)
    if c.kind == 'bin' and c.op in ('=', '<=>'):
        for a, b in ((c.left, c.right), (c.right, c.left)):
            if b.kind == 'lit' and (b.value is False or (b.value == 0 and not isinstance(b.value, (str, bool)))) and a.kind in ('col', 'uvar', 'func'):
                return a
    if c.kind == 'bin' and c.op == '!=':
        for a, b in ((c.left, c.right), (c.right, c.left)):
            if b.kind == 'lit' and (b.value is True or (b.value == 1 and not isinstance(b.value, (str, bool)))) and a.kind in ('col', 'uvar', 'func'):
                return a
    return None


def boolean_locals(body: Sequence[N]) -> Dict[str, N]:
    """routine variable -> its defining test, for variables assigned exactly once, by `SET v = <comparison / AND / OR / NOT ..>` (a boolean
    local holding a test before the IF that uses it)."""
    out: Dict[str, N] = {}
    for v, defs in assigned_from(body).items():
        if len(defs) == 1 and defs[0][1] is None:
            e = defs[0][0]
            if (e.kind == 'bin' and e.op in ('=', '!=', '<', '<=', '>', '>=', '<=>', 'AND', 'OR')) or (e.kind == 'un' and e.op == 'NOT') or e.kind in ('isnull', 'in'):
                out[v] = e
    return out


def guard_literals(guard: Sequence[Tuple[N, bool]], locals_: Optional[Dict[str, N]] = None) -> List[Tuple[N, bool]]:
    """A path condition as a list of (atom, polarity) literals: AND under positive polarity, OR under negative polarity and NOT are
    resolved; `x = 0 / x = FALSE / x != 1` count as the negative literal on x and `x = 1 / x = TRUE / x != 0` as the positive one
    (routine variables holding the result of a boolean function are never NULL)."""
    out: List[Tuple[N, bool]] = []

    def rec(c: N, pol: bool, depth: int = 0) -> None:
        if locals_ and sr.is_var(c) and c.parts[0].lower() in locals_ and depth < 4:
            # a boolean local is followed to the test it was assigned
            rec(locals_[c.parts[0].lower()], pol, depth + 1)
            return
        if c.kind == 'un' and c.op == 'NOT':
            rec(c.arg, not pol, depth)
            return
        if c.kind == 'bin' and ((c.op == 'AND' and pol) or (c.op == 'OR' and not pol)):
            rec(c.left, pol, depth)
            rec(c.right, pol, depth)
            return
        x = flag_clear(c)
        if x is not None and c.kind == 'bin':
            rec(x, not pol, depth) if sr.is_var(x) else out.append((x, not pol))
            return
        y = flag_set(c)
        if y is not None and c.kind == 'bin':
            rec(y, pol, depth) if sr.is_var(y) else out.append((y, pol))
            return
        out.append((c, pol))
    for c, pol in guard:
        rec(c, pol)
    return out


def assigned_from(body: Sequence[N]) -> Dict[str, List[Tuple[N, Optional[N]]]]:
    """routine variable -> [(defining expression, the SELECT it is read by | None for SET)] for every SET v = e / SELECT e .. INTO v."""
    out: Dict[str, List[Tuple[N, Optional[N]]]] = {}
    for st in sf.all_statements(body):
        if st.kind == 'set':
            for t, v in st.assigns:
                if sr.is_var(t):
                    out.setdefault(t.parts[0].lower(), []).append((v, None))
        elif st.kind == 'select' and st.into:
            for t, (c, _al) in zip(st.into, st.cols):
                if sr.is_var(t):
                    out.setdefault(t.parts[0].lower(), []).append((c, st))
        elif st.kind == 'declare' and st.default is not None:
            for n in st.names:
                out.setdefault(n.lower(), []).append((st.default, None))
    return out


# --------------------------------------------------------------------------------------------------------------
# Python side: which edge of a test guarantees "row found" / "flag not set", however the test is spelled
# --------------------------------------------------------------------------------------------------------------
def _tv(e: ast.AST, atom: Callable[[ast.AST], Any]) -> Optional[bool]:
    """Three-valued value of a Python condition; atom(e) returns True / False for the expressions it knows, None for unknown and
    NotImplemented for "not an atom, look inside"."""
    a = atom(e)
    if a is not NotImplemented:
        return a
    if isinstance(e, ast.Constant):
        return bool(e.value)
    if isinstance(e, ast.UnaryOp) and isinstance(e.op, ast.Not):
        v = _tv(e.operand, atom)
        return None if v is None else (not v)
    if isinstance(e, ast.BoolOp):
        vs = [_tv(x, atom) for x in e.values]
        if isinstance(e.op, ast.And):
            return False if any(v is False for v in vs) else (True if all(v is True for v in vs) else None)
        return True if any(v is True for v in vs) else (False if all(v is False for v in vs) else None)
    if isinstance(e, ast.Call) and pf.dotted(e.func) == 'bool' and len(e.args) == 1:
        return _tv(e.args[0], atom)
    return None


def outcome_tests(g: pf.CFG, fn: pf.FuncDef, rec: str, flag: Optional[str] = None) -> Tuple[List[Tuple[pf.Node, str]], List[Tuple[pf.Node, str]], bool]:
    """(row-found tests, flag-clear tests, mentioned): for every test node of the CFG - with single-definition locals expanded, so that
    `cancelled = rec['cancelled']; if cancelled:` is seen through - the edge label on which "the query returned a row" resp.
    "rec[flag] is falsy" is GUARANTEED, decided by a three-valued evaluation of the test with the atom fixed (`rec`, `rec is None`,
    `rec is not None`, `not ..`, `and` / `or`, `rec[flag]`, `rec.get(flag)`).  mentioned: rec (resp. rec[flag]) is read somewhere at all."""
    def is_rec(x: ast.AST) -> bool:
        return isinstance(x, ast.Name) and x.id == rec

    def is_flag(x: ast.AST) -> bool:
        if flag is None:
            return False
        if isinstance(x, ast.Subscript) and is_rec(x.value) and pf.const_str(x.slice) == flag:
            return True
        return isinstance(x, ast.Call) and isinstance(x.func, ast.Attribute) and x.func.attr == 'get' and is_rec(x.func.value) and len(x.args) >= 1 and pf.const_str(x.args[0]) == flag

    def atoms(found: Optional[bool], fl: Optional[bool]):
        def atom(x: ast.AST) -> Any:
            if is_rec(x):
                return found
            if is_flag(x):
                return fl
            if isinstance(x, ast.Compare) and len(x.ops) == 1 and is_rec(x.left) and isinstance(x.comparators[0], ast.Constant) and x.comparators[0].value is None:
                if isinstance(x.ops[0], (ast.Is, ast.Eq)):
                    return None if found is None else (not found)
                if isinstance(x.ops[0], (ast.IsNot, ast.NotEq)):
                    return found
            return NotImplemented
        return atom
    found_t: List[Tuple[pf.Node, str]] = []
    clear_t: List[Tuple[pf.Node, str]] = []
    for n in g.find(lambda n: n.kind == 'test'):
        if n.ast is None:
            continue
        e = pf.expand_locals(fn, n.ast)
        v0 = _tv(e, atoms(False, None))
        if v0 is not None and any(is_rec(x) for x in ast.walk(e)):
            found_t.append((n, 'T' if v0 is False else 'F'))
        if flag is not None and any(is_flag(x) for x in ast.walk(e)):
            v1 = _tv(e, atoms(True, True))
            if v1 is not None:
                clear_t.append((n, 'T' if v1 is False else 'F'))
    mentioned = any((is_flag(x) if flag is not None else (is_rec(x) and isinstance(x.ctx, ast.Load))) for x in pf.walk_shallow(fn))
    return found_t, clear_t, mentioned
