"""Who writes `job_group_self_and_ancestors`, and with which rows (C02 R7).

Both billing triggers add a job's usage to `aggregated_job_group_resources_v3` once per row of the closure table
(`job_group_self_and_ancestors`) of the job's group; the batch total is the row of the root group.  "Usage per job group counting all
descendant jobs" therefore holds only if, for every group g with parent p, the table holds exactly

        (g, g, 0)   and   (g, a, l + 1) for every row (p, a, l) of p         [TrueChain(g) = self(g) + TrueChain(p) shifted by one]

The rows are written by Python (front_end.py) at group creation.  This module decides, for every call site of the function that inserts
the job_groups row, which rows reach the closure table - by ABSTRACT execution of the Python code over symbolic values:

  * ids are integer LINEAR FORMS over opaque symbols (`start_job_group_id`, `spec['job_group_id']` of a generic loop iteration, ...);
    two ids are the same iff their normal forms are identical;
  * a list of closure rows is a union of segments:  single rows,  `chain(base, template)` = the image of the rows of TrueChain(base)
    under a template (ancestor_id, level + k, constants),  or a tainted segment;
  * dictionaries used as per-request caches are heap objects with a default, an optional snapshot (rows read from the table before
    the loop, keyed by group) and explicit stores (key form -> list value);
  * control flow is followed path by path; tests over opaque inputs fork (both outcomes are possible for generic inputs, the same
    test is answered the same way along a path), tests over tracked values are decided from the abstract value or mark the path
    uncertain.  Nothing is run, no concrete value is ever assigned to a symbol.

Loops over the request's specs are analysed for a GENERIC iteration:
  mode 'ind'   inductive step: every earlier iteration is assumed to have inserted the right rows and left canonical cache entries
               (key = id of a group, value = that group's true chain); the rows and the stores of the generic iteration are computed.
               If every store is canonical the induction closes and the verdict of this mode stands.
  mode 'two'   otherwise the two-iteration history "group G' (parent existed before the request), then a group whose parent is G'"
               is executed abstractly with the exact stores of the first iteration: a look-up hits an entry iff key forms coincide
               under the one constraint parent = G' (generic symbols).  Wrong rows here are a violation with that history as witness;
               no wrong rows with non-canonical stores is undecided.
"""
from __future__ import annotations

import ast
import copy
from typing import Any, Dict, List, Optional, Sequence, Tuple

from . import pyfacts as pf
from . import sqlfront as sf
from .common import AnalysisError, norm
from .linform import Lin, const as lconst, sym as lsym
from .sqlast import N, text as sqltext

CLOSURE = 'job_group_self_and_ancestors'
COLS = ('batch_id', 'job_group_id', 'ancestor_id', 'level')
ROOT_NAMES = ('ROOT_JOB_GROUP_ID',)


class Undecided(Exception):
    """The abstract execution met something it does not model: the caller declines."""


class Ref:
    """A syntax-tree node carried inside a state (never copied when a path forks)."""

    def __init__(self, node: Any):
        self.node = node

    def __deepcopy__(self, memo):
        return self


# ----------------------------------------------------------------------------------------------------
# values
# ----------------------------------------------------------------------------------------------------
class V:
    pass


class UnknownV(V):
    def __init__(self, reason: str):
        self.reason = reason

    def __repr__(self) -> str:
        return f'?({self.reason})'


class NoneV(V):
    def __repr__(self) -> str:
        return 'None'


class ScalarV(V):
    def __init__(self, lin: Lin):
        self.lin = lin

    def __repr__(self) -> str:
        return repr(self.lin)


class OpaqueV(V):
    """An object we know nothing about except its name (request spec, database record, transaction ...)."""

    def __init__(self, text: str):
        self.text = text

    def __repr__(self) -> str:
        return f'<{self.text}>'


class TupleV(V):
    def __init__(self, items: Sequence[V]):
        self.items = list(items)

    def __repr__(self) -> str:
        return '(' + ', '.join(map(repr, self.items)) + ')'


class SlotV(V):
    """A column of a generic row of a chain:  A ancestor_id | L level (+ shift) | K the group the row belongs to | B its batch."""

    def __init__(self, kind: str, shift: int = 0):
        self.kind, self.shift = kind, shift

    def __repr__(self) -> str:
        return self.kind + (f'{self.shift:+d}' if self.shift else '')


class RowV(V):
    """The loop variable of an iteration over rows read from the closure table."""

    def __init__(self, read: 'ReadV'):
        self.read = read


Base = Tuple[Lin, int]          # (group id form, number of times `parent of` is applied)


class Seg:
    """kind 'elem': one element `value`;  'chain': template image of TrueChain(base) (src 'true' | 'snap' = as read before the loop);
    'wrong': tainted (reason)."""

    def __init__(self, kind: str, value: Optional[V] = None, base: Optional[Base] = None, template: Optional[V] = None, src: str = 'true', reason: str = ''):
        self.kind, self.value, self.base, self.template, self.src, self.reason = kind, value, base, template, src, reason

    def __repr__(self) -> str:
        if self.kind == 'elem':
            return f'[{self.value!r}]'
        if self.kind == 'chain':
            return f'chain{"@snap" if self.src == "snap" else ""}({base_text(self.base)} -> {self.template!r})'
        return f'{self.kind.upper()}({self.reason})'


_oid = [0]


def _new_oid() -> int:
    _oid[0] += 1
    return _oid[0]


class ListV(V):
    def __init__(self, segs: Sequence[Seg], fresh: bool = True):
        self.segs = list(segs)
        self.fresh = fresh          # a list object only this frame can reach (in-place mutation is then a rebind)
        self.oid = _new_oid()

    def __repr__(self) -> str:
        return 'list' + repr(self.segs)


class Store:
    def __init__(self, key: Lin, value: V, site: ast.AST, iteration: str):
        self.key, self.value, self.site, self.iteration = key, value, Ref(site), iteration


class DictV(V):
    def __init__(self, default: Optional[str]):
        self.default = default            # 'list' for defaultdict(list)
        self.snapshot: Optional[Tuple['KeySetV', Lin]] = None      # (groups whose rows were read before the loop, batch)
        self.stores: List[Store] = []
        self.unknown: Optional[str] = None
        self.oid = _new_oid()
        self.created_in_iteration = ''

    def __repr__(self) -> str:
        return f'dict#{self.oid}'


class KeySetV(V):
    """{elt(x) for x in <iterable>}: a collection of ids computed from the request's specs."""

    def __init__(self, iter_text: str, var: str, elt: ast.expr, frames: List['Frame']):
        self.iter_text, self.var, self.elt, self.frames = iter_text, var, Ref(elt), frames

    def __repr__(self) -> str:
        return f'{{{pf.nsrc(self.elt.node)} for {self.var} in {self.iter_text}}}'


class FuncV(V):
    def __init__(self, node: pf.FuncDef, def_fid: Optional[int]):
        self.node, self.def_fid = node, def_fid

    def __deepcopy__(self, memo):
        return self


class ReadV(V):
    """Result of a SELECT over the closure table that is iterated later."""

    def __init__(self, batch: Optional[Lin], one: Optional[Lin], many: Optional[V], src: str, cols: List[str], why_unknown: Optional[str] = None):
        self.batch, self.one, self.many, self.src, self.cols, self.why_unknown = batch, one, many, src, cols, why_unknown


def _copy_store(sto: 'Store', memo: Dict[int, Any]) -> 'Store':
    if id(sto) in memo:
        return memo[id(sto)]
    c = Store.__new__(Store)
    c.key, c.site, c.iteration = sto.key, sto.site, sto.iteration
    memo[id(sto)] = c
    c.value = _copy_value(sto.value, memo)
    return c


def _copy_value(v: Any, memo: Dict[int, Any]) -> Any:
    if isinstance(v, ListV):
        if id(v) in memo:
            return memo[id(v)]
        c = ListV.__new__(ListV)
        c.fresh, c.oid = v.fresh, v.oid
        memo[id(v)] = c
        c.segs = [Seg(sg.kind, _copy_value(sg.value, memo), sg.base, sg.template, sg.src, sg.reason) if sg.kind == 'elem' and isinstance(sg.value, (ListV, DictV, TupleV)) else sg for sg in v.segs]
        return c
    if isinstance(v, DictV):
        if id(v) in memo:
            return memo[id(v)]
        d = DictV.__new__(DictV)
        d.default, d.snapshot, d.unknown, d.oid, d.created_in_iteration = v.default, v.snapshot, v.unknown, v.oid, v.created_in_iteration
        memo[id(v)] = d
        d.stores = [_copy_store(x, memo) for x in v.stores]
        return d
    if isinstance(v, TupleV) and any(isinstance(x, (ListV, DictV, TupleV)) for x in v.items):
        return TupleV([_copy_value(x, memo) for x in v.items])
    return v


def base_text(b: Optional[Base]) -> str:
    if b is None:
        return '?'
    t = repr(b[0])
    for _ in range(b[1]):
        t = f'parent({t})'
    return t


def lin_eq(a: Lin, b: Lin) -> bool:
    return (a - b).is_const() and (a - b).const == 0


def lin_differs_always(a: Lin, b: Lin) -> bool:
    d = a - b
    return d.is_const() and d.const != 0


def subst_lin(l: Lin, sigma: Dict[str, Lin]) -> Lin:
    out = lconst(l.const)
    for s, c in l.coef.items():
        out = out + (sigma[s].scale(c) if s in sigma else Lin({s: c}, 0))
    return out


class Frame:
    def __init__(self, fid: int, fn: Optional[pf.FuncDef], def_fid: Optional[int]):
        self.fid, self.fn, self.def_fid = fid, Ref(fn), def_fid
        self.vars: Dict[str, V] = {}


class RowSet:
    """Rows that reach the closure table by one statement."""

    def __init__(self, site: ast.AST, segs: List[Tuple[str, Any]], where: str):
        self.site, self.segs, self.where = Ref(site), segs, where
        # segs: ('elem', {col: Lin|int}) | ('chain', base, src, {col: SlotV|Lin}) | ('wrong', reason)


class State:
    def __init__(self) -> None:
        self.frames: List[Frame] = []
        self.rowsets: List[RowSet] = []
        self.jg_rows: List[Tuple[Optional[Lin], Optional[Lin], Ref]] = []
        self.decided: Dict[str, bool] = {}
        self.zero: List[Lin] = []            # forms known to be 0 on this path (equality tests taken)
        self.nonzero: List[Lin] = []
        self.notes: List[str] = []
        self.uncertain: List[str] = []
        self.hyp: List[Tuple[str, Lin, Lin, str]] = []     # mode 'two': ('hit'|'miss', looked-up key, stored key, description)
        self.lookups: List[Tuple[Lin, str]] = []
        self.stores_this_iteration: List[Tuple[int, Store]] = []
        self.iteration = ''                  # tag of the generic iteration being executed ('' outside loops)
        self.loopvars: List[str] = []        # opaque texts of the loop variables (variant symbols start with them)
        self.parent: Optional[Lin] = None    # designated parent / group of the creation being analysed (set at the callee boundary)
        self.group: Optional[Lin] = None
        self.batch: Optional[Lin] = None
        self.parent_case = 'pre'             # 'pre': the parent existed before the request | 'req': created by an earlier iteration
        self.visited: List[int] = []
        self.loop_bindings: List[Tuple[str, V]] = []      # (opaque text of the loop element, its value), innermost last
        self.must_be_parent: List[Tuple[Lin, str]] = []   # keys whose value is right only if the key is the designated parent
        self.inv_hits: List[Lin] = []
        self.call_sites: List[Ref] = []
        self.chain_ctx: Optional[Base] = None
        self.first: Optional[tuple] = None
        self.iteration_ends: List[str] = []

    def fork(self) -> 'State':
        """A copy that shares every immutable value; the heap objects (maps, lists) are copied once each, keeping their aliasing."""
        memo: Dict[int, Any] = {}
        n = State.__new__(State)
        for k, v in self.__dict__.items():
            if k == 'frames':
                fs = []
                for f in v:
                    g = Frame.__new__(Frame)
                    g.fid, g.fn, g.def_fid = f.fid, f.fn, f.def_fid
                    g.vars = {a: _copy_value(b, memo) for a, b in f.vars.items()}
                    fs.append(g)
                n.frames = fs
            elif k == 'stores_this_iteration':
                n.stores_this_iteration = [(oid, _copy_store(sto, memo)) for oid, sto in v]
            elif k == 'loop_bindings':
                n.loop_bindings = list(v)
            elif isinstance(v, list):
                setattr(n, k, list(v))
            elif isinstance(v, dict):
                setattr(n, k, dict(v))
            else:
                setattr(n, k, v)
        return n

    @property
    def frame(self) -> Frame:
        return self.frames[-1]


# ----------------------------------------------------------------------------------------------------
# the abstract interpreter
# ----------------------------------------------------------------------------------------------------
Outcome = Tuple[State, str, Optional[V]]        # (state, 'next' | 'return' | 'raise' | 'break' | 'continue', returned value)

MAX_PATHS = 400
MAX_CALL_DEPTH = 4


def _is_truthy_known(v: V) -> Optional[bool]:
    """Truth value of an abstract value when it is the same for every concretisation."""
    if isinstance(v, NoneV):
        return False
    if isinstance(v, ListV):
        if not v.segs:
            return False
        if any(s.kind == 'elem' or (s.kind == 'chain' and s.src == 'true') for s in v.segs):
            return True         # a true chain always holds its self row
        return None
    if isinstance(v, (DictV, KeySetV)):
        return None
    if isinstance(v, ScalarV) and v.lin.is_const():
        return v.lin.const != 0
    if isinstance(v, (FuncV, TupleV)):
        return True
    return None


class Interp:
    def __init__(self, m: pf.Module, mode: str = 'ind'):
        self.m = m
        self.mode = mode
        self.emb = {id(e.call): e for e in sf.embedded_in(m)}
        self.module_funcs = {n.name: n for n in m.tree.body if isinstance(n, (ast.FunctionDef, ast.AsyncFunctionDef))}
        self._fid = 0
        self._relevant_cache: Dict[str, bool] = {}
        self.n_paths = 0
        self.target_fn: Optional[str] = None        # function that inserts the job_groups row
        self.guaranteed_store: Dict[int, bool] = {}  # dict oid -> every earlier iteration stores the new group's chain under its own id
        self.first_iteration_states: List[State] = []
        self.iteration_results: List[State] = []
        self.loop_store_oids: Optional[set] = None      # dicts that receive stores inside the generic iteration (None: not yet known)

    # -- frames / names ------------------------------------------------------------------------------
    def new_frame(self, st: State, fn: Optional[pf.FuncDef], def_fid: Optional[int]) -> Frame:
        self._fid += 1
        f = Frame(self._fid, fn, def_fid)
        st.frames.append(f)
        return f

    def lookup(self, st: State, name: str) -> V:
        f: Optional[Frame] = st.frame
        while f is not None:
            if name in f.vars:
                return f.vars[name]
            nxt = None
            if f.def_fid is not None:
                for g in st.frames:
                    if g.fid == f.def_fid:
                        nxt = g
            f = nxt
        if name in self.module_funcs:
            return FuncV(self.module_funcs[name], None)
        if name in ('None',):
            return NoneV()
        return ScalarV(lsym(name))          # a module-level constant / import: an opaque symbol

    def relevant(self, fn: pf.FuncDef, depth: int = 0) -> bool:
        """Does the function (or a module-level function it calls) touch the closure table or insert job_groups rows?"""
        key = f'{fn.name}@{fn.lineno}'
        if key in self._relevant_cache:
            return self._relevant_cache[key]
        self._relevant_cache[key] = False
        res = False
        for n in ast.walk(fn):
            if isinstance(n, ast.Call):
                e = self.emb.get(id(n))
                if e is not None and e.sql_text and (CLOSURE in e.sql_text or 'INTO job_groups ' in e.sql_text or 'INTO job_groups(' in e.sql_text or 'INTO `job_groups`' in e.sql_text):
                    res = True
                cn = pf.call_name(n)
                if cn in self.module_funcs and depth < 3 and self.module_funcs[cn] is not fn and self.relevant(self.module_funcs[cn], depth + 1):
                    res = True
        self._relevant_cache[key] = res
        return res

    # -- expressions -----------------------------------------------------------------------------------
    def ev(self, e: ast.AST, st: State) -> List[Tuple[State, V]]:
        self.n_paths += 0
        if isinstance(e, ast.Await):
            return self.ev(e.value, st)
        if isinstance(e, ast.Constant):
            if e.value is None:
                return [(st, NoneV())]
            if isinstance(e.value, bool):
                return [(st, ScalarV(lconst(int(e.value))))]
            if isinstance(e.value, int):
                return [(st, ScalarV(lconst(e.value)))]
            return [(st, OpaqueV(repr(e.value)))]
        if isinstance(e, ast.Name):
            return [(st, self.lookup(st, e.id))]
        if isinstance(e, ast.NamedExpr):
            out = []
            for s2, v in self.ev(e.value, st):
                self.assign_name(s2, e.target.id, v)
                out.append((s2, v))
            return out
        if isinstance(e, ast.Attribute):
            out = []
            for s2, v in self.ev(e.value, st):
                if isinstance(v, OpaqueV):
                    out.append((s2, OpaqueV(f'{v.text}.{e.attr}')))
                elif isinstance(v, ScalarV) and not v.lin.is_const():
                    out.append((s2, OpaqueV(f'{v.lin!r}.{e.attr}')))
                else:
                    out.append((s2, UnknownV(f'attribute {e.attr} of {v!r}')))
            return out
        if isinstance(e, ast.Subscript):
            return self.ev_subscript(e, st)
        if isinstance(e, ast.Tuple):
            return [(s2, TupleV(vs)) for s2, vs in self.ev_many(e.elts, st)]
        if isinstance(e, ast.List):
            out = []
            for s2, vs in self.ev_many(e.elts, st):
                out.append((s2, ListV([Seg('elem', value=v) for v in vs])))
            return out
        if isinstance(e, ast.Dict):
            if not e.keys:
                d = DictV(None)
                d.created_in_iteration = st.iteration
                d.oid = -(e.lineno * 1000 + e.col_offset)        # identified by its allocation site: the same map in every run
                return [(st, d)]
            return [(st, OpaqueV(pf.nsrc(e)[:40]))]
        if isinstance(e, ast.BinOp):
            return self.ev_binop(e, st)
        if isinstance(e, ast.UnaryOp) and isinstance(e.op, ast.USub):
            return [(s2, ScalarV(-v.lin) if isinstance(v, ScalarV) else UnknownV('negation')) for s2, v in self.ev(e.operand, st)]
        if isinstance(e, (ast.ListComp, ast.GeneratorExp, ast.SetComp)):
            return self.ev_comp(e, st)
        if isinstance(e, ast.IfExp):
            out = []
            for s2, truth, _u in self.test(e.test, st):
                out += self.ev(e.body if truth else e.orelse, s2)
            return out
        if isinstance(e, ast.Call):
            return self.ev_call(e, st)
        if isinstance(e, ast.JoinedStr):
            return [(st, OpaqueV('f-string'))]
        if isinstance(e, ast.Starred):
            return self.ev(e.value, st)
        if isinstance(e, (ast.Compare, ast.BoolOp, ast.UnaryOp)):
            # the value of a test stored in a variable: tracked values inside make it unknown
            if any(isinstance(self.lookup(st, n.id), (ListV, DictV, KeySetV, UnknownV)) for n in ast.walk(e) if isinstance(n, ast.Name)):
                return [(st, UnknownV(f'value of `{pf.nsrc(e)[:50]}`'))]
            return [(st, OpaqueV(pf.nsrc(e)[:60]))]
        if isinstance(e, ast.Lambda):
            return [(st, OpaqueV('lambda'))]
        return [(st, UnknownV(f'expression `{pf.nsrc(e)[:50]}`'))]

    def ev_many(self, es: Sequence[ast.AST], st: State) -> List[Tuple[State, List[V]]]:
        acc: List[Tuple[State, List[V]]] = [(st, [])]
        for x in es:
            nxt = []
            for s2, vs in acc:
                for s3, v in self.ev(x, s2):
                    nxt.append((s3, ([_remap(s3, y) for y in vs] if s3 is not s2 else vs) + [v]))
            acc = nxt
        return acc

    def ev_binop(self, e: ast.BinOp, st: State) -> List[Tuple[State, V]]:
        out: List[Tuple[State, V]] = []
        for s2, (a, b) in [(s, tuple(vs)) for s, vs in self.ev_many([e.left, e.right], st)]:
            out.append((s2, self.binop(e, a, b)))
        return out

    def binop(self, e: ast.BinOp, a: V, b: V) -> V:
        op = e.op
        if isinstance(a, ScalarV) and isinstance(b, OpaqueV) or isinstance(b, ScalarV) and isinstance(a, OpaqueV):
            a, b = _as_scalar(a), _as_scalar(b)
        if isinstance(a, ListV) and isinstance(b, ListV) and isinstance(op, ast.Add):
            return ListV(a.segs + b.segs)
        if isinstance(a, SlotV) and isinstance(b, ScalarV) and b.lin.is_const() and isinstance(op, (ast.Add, ast.Sub)) and a.kind == 'L':
            return SlotV('L', a.shift + (b.lin.const if isinstance(op, ast.Add) else -b.lin.const))
        if isinstance(b, SlotV) and isinstance(a, ScalarV) and a.lin.is_const() and isinstance(op, ast.Add) and b.kind == 'L':
            return SlotV('L', b.shift + a.lin.const)
        if isinstance(a, ScalarV) and isinstance(b, ScalarV):
            if isinstance(op, ast.Add):
                return ScalarV(a.lin + b.lin)
            if isinstance(op, ast.Sub):
                return ScalarV(a.lin - b.lin)
            if isinstance(op, ast.Mult) and (a.lin.is_const() or b.lin.is_const()):
                return ScalarV(b.lin.scale(a.lin.const) if a.lin.is_const() else a.lin.scale(b.lin.const))
            return ScalarV(lsym(f'({a.lin!r}) {type(op).__name__} ({b.lin!r})'))
        if isinstance(a, (ListV, DictV, SlotV, KeySetV, UnknownV)) or isinstance(b, (ListV, DictV, SlotV, KeySetV, UnknownV)):
            return UnknownV(f'`{pf.nsrc(e)[:50]}`')
        return OpaqueV(pf.nsrc(e)[:50])

    def ev_subscript(self, e: ast.Subscript, st: State) -> List[Tuple[State, V]]:
        out: List[Tuple[State, V]] = []
        for s2, (v, k) in [(s, tuple(vs)) for s, vs in self.ev_many([e.value, e.slice], st)]:
            if isinstance(v, DictV):
                out += self.dict_lookup(s2, v, k, 'subscript', None, e)
            elif isinstance(v, RowV):
                col = k.text.strip('\'"') if isinstance(k, OpaqueV) else None
                slot = {'ancestor_id': SlotV('A'), 'level': SlotV('L'), 'job_group_id': SlotV('K'), 'batch_id': SlotV('B')}.get(col or '')
                out.append((s2, slot if slot is not None and col in v.read.cols else UnknownV(f'column {col} of a closure row')))
            elif isinstance(v, OpaqueV):
                kt = k.text if isinstance(k, OpaqueV) else (repr(k.lin) if isinstance(k, ScalarV) else None)
                out.append((s2, ScalarV(lsym(f'{v.text}[{kt}]')) if kt is not None else UnknownV('subscript')))
            elif isinstance(v, ScalarV) and not v.lin.is_const():
                kt = k.text if isinstance(k, OpaqueV) else (repr(k.lin) if isinstance(k, ScalarV) else '?')
                out.append((s2, ScalarV(lsym(f'({v.lin!r})[{kt}]'))))
            elif isinstance(v, TupleV) and isinstance(k, ScalarV) and k.lin.is_const() and 0 <= k.lin.const < len(v.items):
                out.append((s2, v.items[int(k.lin.const)]))
            else:
                out.append((s2, UnknownV(f'`{pf.nsrc(e)[:50]}`')))
        return out

    # -- comprehensions ------------------------------------------------------------------------------
    def ev_comp(self, e: ast.AST, st: State) -> List[Tuple[State, V]]:
        gens = e.generators
        if len(gens) != 1 or gens[0].ifs:
            return [(st, UnknownV(f'comprehension `{pf.nsrc(e)[:50]}` (filter / nested)'))]
        g = gens[0]
        out: List[Tuple[State, V]] = []
        for s2, it in self.ev(g.iter, st):
            out.append((s2, self.comp_over(e, g, it, s2)))
        return out

    def bind_target(self, st: State, target: ast.AST, v: V) -> bool:
        if isinstance(target, ast.Name):
            st.frame.vars[target.id] = v
            return True
        if isinstance(target, (ast.Tuple, ast.List)) and isinstance(v, TupleV) and len(v.items) == len(target.elts):
            return all(self.bind_target(st, t, x) for t, x in zip(target.elts, v.items))
        return False

    def _comp_elt(self, e: ast.AST, g: ast.comprehension, bound: V, st: State) -> Optional[V]:
        """Value of the element expression with the target bound (in a scratch copy of the frame; must not fork)."""
        saved = dict(st.frame.vars)
        try:
            if not self.bind_target(st, g.target, bound):
                return None
            res = self.ev(e.elt, st)
            if len(res) != 1 or res[0][0] is not st:
                return None
            r = res[0][1]
            return TupleV([_as_scalar(x) for x in r.items]) if isinstance(r, TupleV) else r
        finally:
            st.frame.vars.clear()
            st.frame.vars.update(saved)

    def comp_over(self, e: ast.AST, g: ast.comprehension, it: V, st: State) -> V:
        if isinstance(it, ListV):
            segs: List[Seg] = []
            for sg in it.segs:
                if sg.kind in ('wrong', 'unknown'):
                    segs.append(sg)
                elif sg.kind == 'elem':
                    v = self._comp_elt(e, g, sg.value, st)
                    if v is None or isinstance(v, UnknownV):
                        return UnknownV(f'element of `{pf.nsrc(e)[:50]}`')
                    segs.append(Seg('elem', value=v))
                else:
                    v = self._comp_elt(e, g, sg.template, st)
                    if v is None or not _template_ok(v):
                        return UnknownV(f'`{pf.nsrc(e)[:60]}` does not map the rows of a chain column by column')
                    segs.append(Seg('chain', base=sg.base, template=v, src=sg.src))
            return ListV(segs)
        if isinstance(it, ReadV):
            if it.why_unknown or it.one is None:
                return UnknownV(it.why_unknown or 'rows of several groups collected by one comprehension')
            v = self._comp_elt(e, g, RowV(it), st)
            if v is None or not _template_ok(v):
                return UnknownV(f'`{pf.nsrc(e)[:60]}` does not build rows from the columns read')
            return ListV([Seg('chain', base=(it.one, 0), template=v, src=it.src)])
        if isinstance(it, (OpaqueV, KeySetV)) or (isinstance(it, ScalarV) and not it.lin.is_const()):
            if isinstance(g.target, ast.Name):
                if isinstance(it, KeySetV):
                    return UnknownV('comprehension over a computed key set')
                t = it.text if isinstance(it, OpaqueV) else repr(it.lin)
                return KeySetV(t, g.target.id, e.elt, [])
            return UnknownV(f'comprehension `{pf.nsrc(e)[:50]}`')
        return UnknownV(f'comprehension over {it!r}')


def _as_scalar(v: V) -> V:
    """An opaque object used as a number is the symbol of its name."""
    if isinstance(v, OpaqueV):
        return ScalarV(lsym(v.text))
    return v


def _remap(st: State, v: V) -> V:
    """The object corresponding to v in the heap of a forked state."""
    if isinstance(v, (DictV, ListV)):
        f = _find_oid(st, v.oid)
        return f if f is not None else v
    if isinstance(v, TupleV):
        return TupleV([_remap(st, x) for x in v.items])
    return v


def _template_ok(v: V) -> bool:
    if isinstance(v, TupleV):
        return all(isinstance(x, (SlotV, ScalarV)) for x in v.items)
    return False


_MIRROR = {ast.Lt: ast.Gt, ast.Gt: ast.Lt, ast.LtE: ast.GtE, ast.GtE: ast.LtE}


def _decide_len(op: type, c: Any, empty: bool) -> Optional[bool]:
    """`len(x) op c` when x is known to be empty (len = 0) or known to be non-empty (len >= 1)."""
    if empty:
        return {ast.Eq: 0 == c, ast.NotEq: 0 != c, ast.Lt: 0 < c, ast.LtE: 0 <= c, ast.Gt: 0 > c, ast.GtE: 0 >= c}.get(op)
    if op is ast.Eq:
        return False if c <= 0 else None
    if op is ast.NotEq:
        return True if c <= 0 else None
    if op is ast.Gt:
        return True if c <= 0 else None
    if op is ast.GtE:
        return True if c <= 1 else None
    if op is ast.Lt:
        return False if c <= 1 else None
    if op is ast.LtE:
        return False if c <= 0 else None
    return None


class RaiseV(V):
    """Evaluating the expression raises on this path (KeyError of a plain dict ...)."""


def _has_raise(vs: Sequence[V]) -> bool:
    return any(isinstance(v, RaiseV) for v in vs)


_ABSENT = OpaqueV('<absent>')


class _InterpTests:
    """Conditions.  test() -> [(state, truth, uncertainty token | None)]"""

    def _free(self, st: State, key: str) -> List[Tuple[State, bool, Optional[str]]]:
        if key in st.decided:
            return [(st, st.decided[key], None)]
        hint = getattr(self, '_hint', None)
        if hint is not None:
            # the other outcome leads straight to a `raise`: only the continuing side is followed (and remembered)
            st.decided[key] = hint
            return [(st, hint, None)]
        a, b = st, st.fork()
        a.decided[key] = True
        b.decided[key] = False
        return [(a, True, None), (b, False, None)]

    def _free_flip(self, st: State, key: str, flipped: bool) -> List[Tuple[State, bool, Optional[str]]]:
        """_free for a test whose result the caller negates when `flipped`."""
        old = getattr(self, '_hint', None)
        self._hint = None if old is None else (old != flipped)
        try:
            return self._free(st, key)
        finally:
            self._hint = old

    def _ucond(self, st: State, what: str) -> List[Tuple[State, bool, Optional[str]]]:
        key = f'u:{st.iteration}:{what}'
        if key in st.decided:
            return [(st, st.decided[key], None)]
        a, b = st, st.fork()
        for s, t in ((a, True), (b, False)):
            s.decided[key] = t
            s.uncertain.append(key)
        return [(a, True, key), (b, False, key)]

    def test_hinted(self, e: ast.AST, st: State, want: bool) -> List[Tuple[State, bool, Optional[str]]]:
        """test() when the outcome `not want` leads straight to a raise: free tests do not fork."""
        old = getattr(self, '_hint', None)
        self._hint = want
        try:
            return self.test(e, st)
        finally:
            self._hint = old

    def test(self, e: ast.AST, st: State) -> List[Tuple[State, bool, Optional[str]]]:
        if isinstance(e, ast.UnaryOp) and isinstance(e.op, ast.Not):
            old = getattr(self, '_hint', None)
            self._hint = None if old is None else (not old)
            try:
                return [(s, not t, u) for s, t, u in self.test(e.operand, st)]
            finally:
                self._hint = old
        if isinstance(e, ast.BoolOp):
            is_and = isinstance(e.op, ast.And)
            old = getattr(self, '_hint', None)
            if old is not None and old != is_and:
                self._hint = None          # `a and b` wanted False / `a or b` wanted True: either operand may decide
                try:
                    return self.test(e, st)
                finally:
                    self._hint = old
            acc: List[Tuple[State, bool, Optional[str]]] = [(st, is_and, None)]
            for x in e.values:
                nxt = []
                for s, t, u in acc:
                    if t != is_and:
                        nxt.append((s, t, u))       # short-circuited
                    else:
                        for s2, t2, u2 in self.test(x, s):
                            nxt.append((s2, t2, u or u2))
                acc = nxt
            return acc
        if isinstance(e, ast.Compare) and len(e.ops) == 1:
            return self.test_compare(e, st)
        out: List[Tuple[State, bool, Optional[str]]] = []
        for s2, v in self.ev(e, st):
            k = _is_truthy_known(v)
            if k is not None:
                out.append((s2, k, None))
            elif isinstance(v, OpaqueV):
                out += self._free(s2, 'truth:' + v.text)
            elif isinstance(v, ScalarV):
                out += self._free(s2, 'truth:' + repr(v.lin))
            else:
                out += self._ucond(s2, f'`{pf.nsrc(e)[:50]}`')
        return out

    def test_compare(self, e: ast.Compare, st: State) -> List[Tuple[State, bool, Optional[str]]]:
        op = e.ops[0]
        left, right = e.left, e.comparators[0]
        out: List[Tuple[State, bool, Optional[str]]] = []
        # len(x) <op> n
        for a_node, b_node, flip in ((left, right, False), (right, left, True)):
            if isinstance(a_node, ast.Call) and isinstance(a_node.func, ast.Name) and a_node.func.id == 'len' and len(a_node.args) == 1:
                for s2, vs in self.ev_many([a_node.args[0], b_node], st):
                    x, n = vs
                    tk = _is_truthy_known(x) if isinstance(x, ListV) else None
                    res = None
                    if tk is not None and isinstance(n, ScalarV) and n.lin.is_const():
                        res = _decide_len(_MIRROR.get(type(op), type(op)) if flip else type(op), n.lin.const, empty=not tk)
                    if res is not None:
                        out.append((s2, res, None))
                    elif isinstance(x, (ListV, UnknownV, DictV, KeySetV)):
                        out += self._ucond(s2, f'`{pf.nsrc(e)[:50]}`')
                    else:
                        out += self._free(s2, f'cmp:{s2.iteration}:' + pf.nsrc(e))
                return out
        for s2, vs in self.ev_many([left, right], st):
            a, b = vs
            if isinstance(op, (ast.Is, ast.IsNot)):
                other = a if isinstance(b, NoneV) else (b if isinstance(a, NoneV) else None)
                if other is None:
                    out += self._free(s2, f'cmp:{s2.iteration}:' + pf.nsrc(e))
                    continue
                if isinstance(other, NoneV):
                    r: Optional[bool] = True
                elif isinstance(other, (ListV, DictV, TupleV, KeySetV, FuncV, ReadV)):
                    r = False
                elif isinstance(other, ScalarV) and other.lin.is_const():
                    r = False
                else:
                    r = None
                if r is not None:
                    out.append((s2, r if isinstance(op, ast.Is) else not r, None))
                elif isinstance(other, UnknownV):
                    out += [(s, t if isinstance(op, ast.Is) else not t, u) for s, t, u in self._ucond(s2, f'`{pf.nsrc(e)[:50]}`')]
                else:
                    key = 'isnone:' + (other.text if isinstance(other, OpaqueV) else repr(other))
                    out += [(s, t if isinstance(op, ast.Is) else not t, u) for s, t, u in self._free_flip(s2, key, not isinstance(op, ast.Is))]
                continue
            if isinstance(op, (ast.In, ast.NotIn)) and isinstance(b, DictV) and isinstance(_as_scalar(a), ScalarV):
                for s3, got in self.dict_lookup(s2, b, a, 'get', _ABSENT, e):
                    if isinstance(got, UnknownV):
                        out += self._ucond(s3, f'`{pf.nsrc(e)[:50]}`')
                    else:
                        out.append((s3, (got is not _ABSENT) == isinstance(op, ast.In), None))
                continue
            if isinstance(op, (ast.In, ast.NotIn)):
                if isinstance(b, (DictV, ListV, KeySetV, UnknownV)) or isinstance(a, UnknownV):
                    out += self._ucond(s2, f'`{pf.nsrc(e)[:50]}`')
                else:
                    key = f'in:{a!r}:{b!r}'
                    out += [(s, t if isinstance(op, ast.In) else not t, u) for s, t, u in self._free_flip(s2, key, not isinstance(op, ast.In))]
                continue
            if isinstance(a, ScalarV) and isinstance(b, OpaqueV) or isinstance(b, ScalarV) and isinstance(a, OpaqueV):
                a, b = _as_scalar(a), _as_scalar(b)
            if isinstance(a, ScalarV) and isinstance(b, ScalarV):
                d = a.lin - b.lin
                if d.is_const():
                    c = d.const
                    r = {ast.Eq: c == 0, ast.NotEq: c != 0, ast.Lt: c < 0, ast.LtE: c <= 0, ast.Gt: c > 0, ast.GtE: c >= 0}.get(type(op))
                    if r is not None:
                        out.append((s2, r, None))
                        continue
                if isinstance(op, (ast.Eq, ast.NotEq)):
                    known = None
                    for z in s2.zero:
                        if lin_eq(z, d) or lin_eq(z, -d):
                            known = True
                    for z in s2.nonzero:
                        if lin_eq(z, d) or lin_eq(z, -d):
                            known = False
                    hint = getattr(self, '_hint', None)
                    if known is None and hint is not None:
                        is_zero = hint == isinstance(op, ast.Eq)
                        (s2.zero if is_zero else s2.nonzero).append(d)
                        out.append((s2, hint, None))
                    elif known is None:
                        s3 = s2.fork()
                        s2.zero.append(d)
                        s3.nonzero.append(d)
                        out.append((s2, isinstance(op, ast.Eq), None))
                        out.append((s3, not isinstance(op, ast.Eq), None))
                    else:
                        out.append((s2, known == isinstance(op, ast.Eq), None))
                    continue
                out += self._free(s2, f'cmp:{d!r}:{type(op).__name__}')
                continue
            if any(isinstance(x, (ListV, DictV, KeySetV, UnknownV, SlotV)) for x in (a, b)):
                out += self._ucond(s2, f'`{pf.nsrc(e)[:50]}`')
            else:
                out += self._free(s2, f'cmp:{a!r}:{type(op).__name__}:{b!r}')
        return out


class _InterpDict:
    def keyset_member(self, st: State, ks: KeySetV, key: Lin) -> bool:
        """Is `key` (computed in the current generic iteration) one of the ids the key set was built from?  Yes when the set's element
        expression, evaluated for the current loop element under the decisions of this path, has the same normal form."""
        if not st.loopvars:
            return False
        for lv_text, lv_name_val in reversed(st.loop_bindings):
            if lv_text.split('[*')[0] != ks.iter_text:
                continue
            probe = st.fork()
            probe.frame.vars[ks.var] = lv_name_val
            try:
                res = self.ev(ks.elt.node, probe)
            except Undecided:
                return False
            ok = [v for s2, v in res if all(s2.decided.get(k) == t for k, t in st.decided.items())]
            # alternatives that contradict nothing decided so far all have to agree with the key
            return bool(ok) and all(isinstance(v, ScalarV) and lin_eq(v.lin, key) for v in ok)
        return False

    def dict_lookup(self, st: State, d: DictV, k: V, how: str, default_v: Optional[V], node: ast.AST) -> List[Tuple[State, V]]:
        if d.unknown:
            return [(st, UnknownV(f'cache filled in a way that is not modelled ({d.unknown})'))]
        k = _as_scalar(k)
        if not isinstance(k, ScalarV):
            return [(st, UnknownV(f'look-up with key {k!r}'))]
        KL = k.lin
        st.lookups.append((KL, pf.nsrc(node)[:60]))
        # entries written on this very path, in this iteration or before the loop (latest first)
        for sto in reversed(d.stores):
            if sto.iteration in ('', st.iteration) or d.created_in_iteration == st.iteration:
                if lin_eq(sto.key, KL):
                    v = sto.value
                    if isinstance(v, ListV):
                        v.fresh = False
                    return [(st, v)]
        out: List[Tuple[State, V]] = []
        cross = st.iteration != '' and d.created_in_iteration != st.iteration
        miss_possible = True
        if cross and self.mode == 'ind':
            has_sites = self.loop_store_oids is None or d.oid in self.loop_store_oids
            snap_hit = False
            if d.snapshot is not None and st.parent_case == 'pre':
                if self.keyset_member(st, d.snapshot[0], KL):
                    snap_hit = True
                    st.must_be_parent.append((KL, 'rows read before the loop'))
                    out.append((st, ListV([Seg('chain', base=(KL, 0), template=TupleV([SlotV('A'), SlotV('L')]))], fresh=False)))
                    miss_possible = False
                else:
                    return [(st, UnknownV(f'rows read before the loop for `{d.snapshot[0]!r}`: cannot show that the key looked up is among them'))]
            if has_sites and not snap_hit:
                s2 = st.fork() if miss_possible else st
                s2.notes.append(f'`{pf.nsrc(node)[:50]}` finds the entry left by an earlier iteration')
                s2.inv_hits.append(KL)
                out.append((s2, ListV([Seg('chain', base=(KL, 0), template=TupleV([SlotV('A'), SlotV('L')]))], fresh=False)))
                if st.parent_case == 'req' and self.guaranteed_store.get(d.oid):
                    miss_possible = False
        elif cross and self.mode == 'two':
            prior = [s for s in d.stores if s.iteration not in ('', st.iteration)]
            seen_keys: List[Lin] = []
            for sto in reversed(prior):
                if any(lin_eq(sto.key, x) for x in seen_keys):
                    continue
                seen_keys.append(sto.key)
                s2 = st.fork()
                s2.hyp.append(('hit', KL, sto.key, pf.nsrc(sto.site.node)[:80]))
                v = copy.deepcopy(sto.value)
                if isinstance(v, ListV):
                    v.fresh = False
                out.append((s2, v))
            for kx in seen_keys:
                st.hyp.append(('miss', KL, kx, ''))
            if d.snapshot is not None and st.parent_case == 'pre':
                if self.keyset_member(st, d.snapshot[0], KL):
                    st.must_be_parent.append((KL, 'rows read before the loop'))
                    out.append((st, ListV([Seg('chain', base=(KL, 0), template=TupleV([SlotV('A'), SlotV('L')]))], fresh=False)))
                    return out
                return [(st, UnknownV('rows read before the loop: key not shown to be among them'))]
        elif d.snapshot is not None and not cross:
            return [(st, UnknownV('look-up in a table snapshot outside the loop'))]
        if not miss_possible:
            return out
        # miss
        st.notes.append(f'`{pf.nsrc(node)[:50]}` finds no entry' + (f' (group {"g1" if st.iteration == "i" else "g2"})' if self.mode == 'two' else ''))
        if how == 'subscript':
            if d.default == 'list':
                fresh = ListV([], fresh=False)
                d.stores.append(Store(KL, fresh, node, st.iteration))
                out.append((st, fresh))
            else:
                out.append((st, RaiseV()))
        elif how == 'get':
            out.append((st, default_v if default_v is not None else NoneV()))
        elif how == 'setdefault':
            dv = default_v if default_v is not None else NoneV()
            if isinstance(dv, ListV):
                dv.fresh = False
            sto = Store(KL, dv, node, st.iteration)
            d.stores.append(sto)
            st.stores_this_iteration.append((d.oid, sto))
            out.append((st, dv))
        return out

    def dict_store(self, st: State, d: DictV, k: V, v: V, node: ast.AST) -> None:
        k = _as_scalar(k)
        if not isinstance(k, ScalarV):
            d.unknown = f'store under key {k!r}'
            return
        if isinstance(v, ListV):
            v.fresh = False
        sto = Store(k.lin, v, node, st.iteration)
        d.stores.append(sto)
        if st.iteration and d.created_in_iteration != st.iteration:
            st.stores_this_iteration.append((d.oid, sto))


def _params_in_order(stn: N) -> List[N]:
    from . import sqlrules as sr
    return sr.params_in_order(stn)


class _InterpCalls:
    def escape(self, vs: Sequence[V], why: str) -> None:
        for v in vs:
            if isinstance(v, DictV):
                v.unknown = v.unknown or why
            elif isinstance(v, ListV):
                v.fresh = False
            elif isinstance(v, TupleV):
                self.escape(v.items, why)

    def ev_call(self, e: ast.Call, st: State) -> List[Tuple[State, V]]:
        f = e.func
        name = pf.call_name(e) or ''
        if id(e) in self.emb and isinstance(f, ast.Attribute) and f.attr in sf.EXEC_METHODS:
            return self.sql_effect(self.emb[id(e)], e, st)
        # constructors / builtins
        if name in ('collections.defaultdict', 'defaultdict'):
            if len(e.args) == 1 and isinstance(e.args[0], ast.Name) and e.args[0].id == 'list' and not e.keywords:
                d = DictV('list')
                d.created_in_iteration = st.iteration
                d.oid = -(e.lineno * 1000 + e.col_offset)        # identified by its allocation site: the same map in every run
                return [(st, d)]
            return [(st, UnknownV(f'`{pf.nsrc(e)[:40]}`'))]
        if name == 'dict' and not e.args and not e.keywords:
            d = DictV(None)
            d.created_in_iteration = st.iteration
            d.oid = -(e.lineno * 1000 + e.col_offset)        # identified by its allocation site: the same map in every run
            return [(st, d)]
        if name in ('sorted', 'list', 'set', 'tuple', 'frozenset') and len(e.args) == 1 and not [k for k in e.keywords if k.arg != 'reverse']:
            out = []
            for s2, v in self.ev(e.args[0], st):
                if isinstance(v, KeySetV):
                    out.append((s2, v))
                elif isinstance(v, ListV):
                    out.append((s2, ListV(list(v.segs))))
                elif isinstance(v, OpaqueV):
                    out.append((s2, OpaqueV(f'{name}({v.text})')))
                else:
                    out.append((s2, UnknownV(f'`{pf.nsrc(e)[:40]}`')))
            return out
        if name == 'list' and not e.args:
            return [(st, ListV([]))]
        if isinstance(f, ast.Attribute):
            out: List[Tuple[State, V]] = []
            for s2, recv in self.ev(f.value, st):
                out += self.method_call(e, f, recv, s2)
            return out
        if isinstance(f, ast.Name):
            fv = self.lookup(st, f.id)
            if isinstance(fv, FuncV):
                return self.call_function(fv, e, st)
        out = []
        for s2, vs in self.ev_many(list(e.args) + [k.value for k in e.keywords], st):
            if _has_raise(vs):
                out.append((s2, RaiseV()))
                continue
            self.escape(vs, f'passed to `{name or pf.nsrc(f)[:30]}`')
            out.append((s2, OpaqueV(f'{name or "call"}(..)@{e.lineno}{s2.iteration}')))
        return out

    def method_call(self, e: ast.Call, f: ast.Attribute, recv: V, st: State) -> List[Tuple[State, V]]:
        out: List[Tuple[State, V]] = []
        if isinstance(recv, RaiseV):
            return [(st, RaiseV())]
        if isinstance(recv, DictV):
            if f.attr in ('get', 'setdefault') and 1 <= len(e.args) <= 2 and not e.keywords:
                for s2, vs in self.ev_many(e.args, st):
                    d2 = self._same_obj(s2, st, recv)
                    out += self.dict_lookup(s2, d2, vs[0], f.attr, vs[1] if len(vs) > 1 else None, e)
                return out
            recv.unknown = recv.unknown or f'`.{f.attr}(..)`'
            return [(st, UnknownV(f'`{pf.nsrc(e)[:40]}`'))]
        if isinstance(recv, ListV):
            if f.attr in ('append', 'extend') and len(e.args) == 1 and not e.keywords:
                for s2, v in self.ev(e.args[0], st):
                    r2 = self._same_obj(s2, st, recv)
                    if not r2.fresh:
                        raise Undecided(f'`{pf.nsrc(e)[:60]}` changes in place a list that is also reachable from elsewhere (cache entry / argument)')
                    if f.attr == 'append':
                        r2.segs.append(Seg('elem', value=v))
                    elif isinstance(v, ListV):
                        r2.segs.extend(v.segs)
                    else:
                        r2.segs.append(Seg('unknown', reason=f'`{pf.nsrc(e)[:60]}`: extended by {v!r}'))
                    out.append((s2, NoneV()))
                return out
            if f.attr == 'copy' and not e.args:
                return [(st, ListV(list(recv.segs)))]
            raise Undecided(f'`{pf.nsrc(e)[:60]}` on a list of closure rows is not modelled')
        for s2, vs in self.ev_many(list(e.args) + [k.value for k in e.keywords], st):
            if _has_raise(vs):
                out.append((s2, RaiseV()))
                continue
            self.escape(vs, f'passed to `{pf.nsrc(f)[:30]}`')
            t = recv.text if isinstance(recv, OpaqueV) else (repr(recv.lin) if isinstance(recv, ScalarV) else '?')
            if isinstance(recv, (OpaqueV, ScalarV)) and not vs and f.attr in ('items', 'values', 'keys'):
                out.append((s2, OpaqueV(f'{t}.{f.attr}()')))
            elif isinstance(recv, OpaqueV) and f.attr == 'get' and vs and isinstance(vs[0], OpaqueV):
                out.append((s2, ScalarV(lsym(f'{t}[{vs[0].text}]'))) if len(vs) == 1 else (s2, OpaqueV(f'{t}.get({vs[0].text}, ..)')))
            elif isinstance(recv, UnknownV):
                out.append((s2, UnknownV(recv.reason)))
            else:
                out.append((s2, OpaqueV(f'{t}.{f.attr}(..)@{e.lineno}{s2.iteration}')))
        return out

    def _same_obj(self, s_new: State, s_old: State, obj: Any) -> Any:
        """The copy of heap object `obj` inside a forked state (objects are identified by oid)."""
        if s_new is s_old:
            return obj
        found = _find_oid(s_new, obj.oid)
        return found if found is not None else obj

    # -- user functions ------------------------------------------------------------------------------
    def call_function(self, fv: FuncV, e: ast.Call, st: State) -> List[Tuple[State, V]]:
        fn = fv.node
        if len(st.frames) > MAX_CALL_DEPTH + 2 or any(fr.fn.node is fn for fr in st.frames):
            return [(st, UnknownV(f'call of {fn.name} (recursion / depth)'))]
        a = fn.args
        if a.vararg or a.kwarg or any(isinstance(x, ast.Starred) for x in e.args) or any(k.arg is None for k in e.keywords):
            return [(st, UnknownV(f'call of {fn.name} with */** arguments'))]
        pos = [x.arg for x in a.posonlyargs + a.args]
        out: List[Tuple[State, V]] = []
        for s2, vs in self.ev_many(list(e.args) + [k.value for k in e.keywords], st):
            if _has_raise(vs):
                out.append((s2, RaiseV()))
                continue
            binding: Dict[str, V] = {}
            for nme, v in zip(pos, vs[:len(e.args)]):
                binding[nme] = v
            for k, v in zip(e.keywords, vs[len(e.args):]):
                binding[k.arg] = v
            nondef = len(pos) - len(a.defaults)
            for i, nme in enumerate(pos):
                if nme not in binding and i >= nondef:
                    binding[nme] = self._default(a.defaults[i - nondef])
            for x, dflt in zip(a.kwonlyargs, a.kw_defaults):
                if x.arg not in binding and dflt is not None:
                    binding[x.arg] = self._default(dflt)
            allp = pos + [x.arg for x in a.kwonlyargs]
            if fn.decorator_list:
                for p_ in allp:
                    binding.setdefault(p_, OpaqueV(p_))        # a decorator (@transaction(db)) supplies the connection argument
            if any(p not in binding for p in allp) or any(k not in allp for k in binding):
                out.append((s2, UnknownV(f'call of {fn.name}: arguments do not match the parameters')))
                continue
            tracked = any(isinstance(v, (ListV, DictV, KeySetV)) for v in binding.values())
            if fv.def_fid is None and not tracked and not self.relevant(fn):
                out.append((s2, OpaqueV(f'{fn.name}(..)')))
                continue
            for v in binding.values():
                if isinstance(v, ListV):
                    v.fresh = False
            fr = self.new_frame(s2, fn, fv.def_fid)
            fr.vars.update(binding)
            saved = (s2.parent, s2.group, s2.batch)
            pnames = [p for p in allp if 'parent' in p and p.endswith('id')]
            is_target = self._inserts_job_groups(fn)
            if is_target:
                if len(pnames) != 1 or 'job_group_id' not in allp:
                    raise Undecided(f'{fn.name} inserts the job_groups row but has no (job_group_id, parent .. id) parameters: which group is the parent is not known')
                pv, gv, bv = _as_scalar(binding[pnames[0]]), _as_scalar(binding['job_group_id']), _as_scalar(binding.get('batch_id') or NoneV())
                binding[pnames[0]], binding['job_group_id'] = pv, gv
                fr.vars.update(binding)
                if not isinstance(pv, ScalarV) or not isinstance(gv, ScalarV):
                    raise Undecided(f'{fn.name} is called with group / parent ids that are not integer forms ({gv!r}, {pv!r})')
                s2.parent, s2.group = pv.lin, gv.lin
                s2.batch = bv.lin if isinstance(bv, ScalarV) else None
                s2.call_sites.append(Ref(e))
            for s3, how, rv in self.exec_block(fn.body, s2):
                s3.frames.pop()
                if how == 'raise':
                    out.append((s3, RaiseV()))
                else:
                    out.append((s3, rv if (how == 'return' and rv is not None) else NoneV()))
        return out

    def _default(self, d: ast.AST) -> V:
        if isinstance(d, ast.Constant) and d.value is None:
            return NoneV()
        if isinstance(d, ast.Constant) and isinstance(d.value, int):
            return ScalarV(lconst(int(d.value)))
        return OpaqueV(pf.nsrc(d)[:30])

    def _inserts_job_groups(self, fn: pf.FuncDef) -> bool:
        for n in ast.walk(fn):
            if isinstance(n, ast.Call) and id(n) in self.emb:
                e = self.emb[id(n)]
                if e.sql_text and not e.parse_error:
                    try:
                        if any(s.kind == 'insert' and s.table.lower() == 'job_groups' for s in e.stmts()):
                            return True
                    except Exception:   # noqa: BLE001
                        pass
        return False


def _find_oid(st: State, oid: int) -> Any:
    seen = set()

    def rec(v: Any) -> Any:
        if id(v) in seen:
            return None
        seen.add(id(v))
        if isinstance(v, (DictV, ListV)) and v.oid == oid:
            return v
        if isinstance(v, DictV):
            for s in v.stores:
                r = rec(s.value)
                if r is not None:
                    return r
        elif isinstance(v, ListV):
            for sg in v.segs:
                if sg.kind == 'elem':
                    r = rec(sg.value)
                    if r is not None:
                        return r
        elif isinstance(v, TupleV):
            for x in v.items:
                r = rec(x)
                if r is not None:
                    return r
        return None
    for fr in st.frames:
        for v in fr.vars.values():
            r = rec(v)
            if r is not None:
                return r
    return None


class _InterpSql:
    def sql_effect(self, emb: sf.Embedded, e: ast.Call, st: State) -> List[Tuple[State, V]]:
        txt = emb.sql_text or ''
        interesting = CLOSURE in txt or 'job_groups' in txt
        if emb.sql_text is None:
            a0 = pf.nsrc(e.args[0])
            if CLOSURE in a0:
                raise Undecided(f'SQL naming {CLOSURE} is not a literal (`{a0[:50]}`)')
            interesting = False
        out: List[Tuple[State, V]] = []
        arg_nodes = list(e.args[1:2])
        if not interesting:
            for s2, vs in self.ev_many(arg_nodes, st):
                out.append((s2, RaiseV() if _has_raise(vs) else OpaqueV(f'result of {emb.method}@{e.lineno}{s2.iteration}')))
            return out
        stmts = emb.stmts()
        if emb.parse_error:
            if CLOSURE in txt:
                raise Undecided(f'SQL naming {CLOSURE} does not parse ({emb.parse_error})')
            return [(st, OpaqueV('result'))]
        # evaluate the argument (tuple / list of tuples); starred elements are kept apart
        starred: List[int] = []
        if arg_nodes and isinstance(arg_nodes[0], (ast.Tuple, ast.List)):
            elts = arg_nodes[0].elts
            starred = [i for i, x in enumerate(elts) if isinstance(x, ast.Starred)]
            evs = [(s2, TupleV(vs)) for s2, vs in self.ev_many(list(elts), st)]
        elif arg_nodes:
            evs = self.ev(arg_nodes[0], st)
        else:
            evs = [(st, TupleV([]))]
        for s2, args in evs:
            if isinstance(args, RaiseV) or (isinstance(args, TupleV) and _has_raise(args.items)):
                out.append((s2, RaiseV()))
                continue
            if isinstance(args, TupleV):
                args = TupleV([_as_scalar(x) for x in args.items])
            result: V = OpaqueV(f'result of {emb.method}@{e.lineno}{s2.iteration}')
            for stn in stmts:
                written = [t.lower() for t, _ in sf.written_tables(stn)]
                if stn.kind == 'insert' and stn.table.lower() == 'job_groups':
                    row = self._bind_values_row(stn, args, emb)
                    b, g = row.get('batch_id'), row.get('job_group_id')
                    s2.jg_rows.append((b.lin if isinstance(b, ScalarV) else None, g.lin if isinstance(g, ScalarV) else None, Ref(e)))
                elif CLOSURE in written:
                    s2.visited.append(id(e))
                    _REACHED.add(id(e))
                    if stn.kind != 'insert':
                        raise Undecided(f'`{sqltext(stn)[:70]}`: {stn.kind.upper()} on {CLOSURE} is not modelled')
                    s2.rowsets.append(self._closure_insert(stn, args, emb, e, s2))
                elif stn.kind == 'select' and stn.frm is not None and [t.lower() for t in sf.table_names(stn.frm)] == [CLOSURE] and not stn.frm.joins:
                    s2.visited.append(id(e))
                    result = self._closure_read(stn, args, starred, emb, s2)
            out.append((s2, result))
        return out

    def _bind_values_row(self, stn: N, args: V, emb: sf.Embedded) -> Dict[str, V]:
        if stn.select is not None or len(stn.rows) != 1 or stn.cols is None or not isinstance(args, TupleV):
            return {}
        params = _params_in_order(stn)
        if len(params) != len(args.items):
            return {}
        bind = {id(p): v for p, v in zip(params, args.items)}
        out: Dict[str, V] = {}
        for c, x in zip(stn.cols, stn.rows[0]):
            if x.kind == 'param':
                out[c.lower()] = bind[id(x)]
            elif x.kind == 'lit' and isinstance(x.value, int):
                out[c.lower()] = ScalarV(lconst(x.value))
        return out

    def _closure_insert(self, stn: N, args: V, emb: sf.Embedded, e: ast.Call, st: State) -> RowSet:
        where = f'{emb.qual}::{norm(sqltext(stn))[:60]}'
        if stn.cols is None or sorted(c.lower() for c in stn.cols) != sorted(COLS):
            raise Undecided(f'{where}: insert into {CLOSURE} without the explicit column list {COLS}')
        if getattr(stn, 'on_dup', None) or getattr(stn, 'ignore', False) or getattr(stn, 'replace', False):
            raise Undecided(f'{where}: INSERT IGNORE / REPLACE / ON DUPLICATE KEY on {CLOSURE} is not modelled')
        params = _params_in_order(stn)
        segs: List[Tuple[str, Any]] = []
        if stn.select is None:
            if len(stn.rows) != 1:
                raise Undecided(f'{where}: multi-row VALUES')
            rowexpr = stn.rows[0]

            def row_of(items: Sequence[V]) -> Dict[str, V]:
                if len(items) != len(params):
                    raise Undecided(f'{where}: {len(params)} parameters but rows of {len(items)} values')
                bind = {id(p): _as_scalar(v) for p, v in zip(params, items)}
                r: Dict[str, V] = {}
                for c, x in zip(stn.cols, rowexpr):
                    if x.kind == 'param':
                        r[c.lower()] = bind[id(x)]
                    elif x.kind == 'lit' and isinstance(x.value, int):
                        r[c.lower()] = ScalarV(lconst(x.value))
                    else:
                        raise Undecided(f'{where}: value `{sqltext(x)}`')
                return r
            if emb.method in ('execute_many', 'executemany'):
                if not isinstance(args, ListV):
                    raise Undecided(f'{where}: the rows passed to {emb.method} are {args!r}')
                for sg in args.segs:
                    if sg.kind in ('wrong', 'unknown'):
                        segs.append((sg.kind, sg.reason))
                    elif sg.kind == 'elem':
                        if not isinstance(sg.value, TupleV):
                            raise Undecided(f'{where}: row {sg.value!r}')
                        segs.append(('elem', row_of(sg.value.items)))
                    else:
                        if not isinstance(sg.template, TupleV):
                            raise Undecided(f'{where}: rows {sg!r}')
                        segs.append(('chain', sg.base, row_of(sg.template.items)))
            else:
                if not isinstance(args, TupleV):
                    raise Undecided(f'{where}: arguments {args!r}')
                r1 = row_of(args.items)
                if any(isinstance(x, SlotV) for x in r1.values()):
                    if st.chain_ctx is None:
                        raise Undecided(f'{where}: row built from the columns of a chain outside a loop over it')
                    segs.append(('chain', st.chain_ctx, r1))
                else:
                    segs.append(('elem', r1))
            return RowSet(e, segs, where)
        # INSERT .. SELECT: the canonical copy of one group's rows
        sub = stn.select
        tabs = [t.lower() for t in sf.table_names(sub.frm)] if sub.frm is not None else []
        if tabs != [CLOSURE] or sub.frm.joins or sub.group or sub.having is not None or sub.distinct or getattr(sub, 'union', None) or sub.limit is not None:
            raise Undecided(f'{where}: rows selected from {tabs or "?"} with joins / grouping / LIMIT')
        if not isinstance(args, TupleV) or len(args.items) != len(params):
            raise Undecided(f'{where}: cannot bind the parameters')
        bind = {id(p): v for p, v in zip(params, args.items)}
        pins: Dict[str, V] = {}
        for c in sf.conjuncts(sub.where):
            if c.kind == 'bin' and c.op == '=' and c.left.kind == 'col' and c.right.kind == 'param' and c.left.parts[-1].lower() in ('batch_id', 'job_group_id') \
                    and c.left.parts[-1].lower() not in pins:
                pins[c.left.parts[-1].lower()] = bind[id(c.right)]
            else:
                raise Undecided(f'{where}: the copy of the parent\'s rows is restricted by `{sqltext(c)}`')
        if set(pins) != {'batch_id', 'job_group_id'} or not isinstance(pins['job_group_id'], ScalarV):
            raise Undecided(f'{where}: source rows are not pinned to one (batch, group)')
        row: Dict[str, V] = {}
        for c, (x, _) in zip(stn.cols, sub.cols):
            cl = c.lower()
            if x.kind == 'param':
                row[cl] = bind[id(x)]
            elif x.kind == 'col':
                slot = {'ancestor_id': SlotV('A'), 'level': SlotV('L'), 'job_group_id': SlotV('K'), 'batch_id': SlotV('B')}.get(x.parts[-1].lower())
                if slot is None:
                    raise Undecided(f'{where}: column `{sqltext(x)}`')
                row[cl] = slot
            elif x.kind == 'bin' and x.op in ('+', '-') and x.left.kind == 'col' and x.left.parts[-1].lower() == 'level' and x.right.kind == 'lit' and isinstance(x.right.value, int):
                row[cl] = SlotV('L', x.right.value if x.op == '+' else -x.right.value)
            elif x.kind == 'bin' and x.op == '+' and x.right.kind == 'col' and x.right.parts[-1].lower() == 'level' and x.left.kind == 'lit' and isinstance(x.left.value, int):
                row[cl] = SlotV('L', x.left.value)
            elif x.kind == 'lit' and isinstance(x.value, int):
                row[cl] = ScalarV(lconst(x.value))
            else:
                raise Undecided(f'{where}: selected expression `{sqltext(x)}`')
        bl = pins['batch_id'].lin if isinstance(pins['batch_id'], ScalarV) else None
        for k, v in list(row.items()):
            if isinstance(v, SlotV) and v.kind == 'B':
                if bl is None:
                    raise Undecided(f'{where}: batch of the source rows')
                row[k] = ScalarV(bl)
            elif isinstance(v, SlotV) and v.kind == 'K':
                row[k] = ScalarV(pins['job_group_id'].lin)
        return RowSet(e, [('chain', (pins['job_group_id'].lin, 0), row)], where)

    def _closure_read(self, stn: N, args: V, starred: List[int], emb: sf.Embedded, st: State) -> V:
        src = 'true'
        cols = []
        for x, _ in stn.cols:
            if x.kind == 'col':
                cols.append(x.parts[-1].lower())
            else:
                return ReadV(None, None, None, src, [], f'read of {CLOSURE} selects `{sqltext(x)}`')
        if stn.group or stn.having is not None or stn.distinct or stn.limit is not None:
            return ReadV(None, None, None, src, cols, f'read of {CLOSURE} with grouping / LIMIT')
        if not isinstance(args, TupleV):
            return ReadV(None, None, None, src, cols, f'read of {CLOSURE}: arguments {args!r}')
        params = _params_in_order(stn)
        plain = [v for i, v in enumerate(args.items) if i not in starred]
        batch: Optional[Lin] = None
        one: Optional[Lin] = None
        many: Optional[V] = None
        if len(params) != len(plain):
            return ReadV(None, None, None, src, cols, f'read of {CLOSURE}: parameters do not match the arguments')
        bind = {id(p): v for p, v in zip(params, plain)}
        for c in sf.conjuncts(stn.where):
            if c.kind == 'bin' and c.op == '=' and c.left.kind == 'col' and c.right.kind == 'param':
                v = bind[id(c.right)]
                cn = c.left.parts[-1].lower()
                if cn == 'batch_id' and isinstance(v, ScalarV):
                    batch = v.lin
                    continue
                if cn == 'job_group_id' and isinstance(v, ScalarV):
                    one = v.lin
                    continue
            if c.kind == 'in' and not c.negated and c.arg.kind == 'col' and c.arg.parts[-1].lower() == 'job_group_id' and len(c.items) == 1 and c.items[0].kind == 'hole' \
                    and len(starred) == 1 and isinstance(args.items[starred[0]], KeySetV) and len(emb.holes) == 1:
                many = args.items[starred[0]]
                continue
            return ReadV(None, None, None, src, cols, f'read of {CLOSURE} restricted by `{sqltext(c)}`')
        if batch is None or (one is None) == (many is None):
            return ReadV(None, None, None, src, cols, f'read of {CLOSURE} is not pinned to one batch and one group / one list of groups')
        return ReadV(batch, one, many, src, cols)


def _assigned_names(stmts: Sequence[ast.stmt]) -> List[str]:
    out: List[str] = []
    for s in stmts:
        for n in pf.walk_shallow(s):
            if isinstance(n, ast.Name) and isinstance(n.ctx, ast.Store) and n.id not in out:
                out.append(n.id)
        if isinstance(s, ast.Name) and isinstance(s.ctx, ast.Store):
            out.append(s.id)
    return out


def _always_raises(body: Sequence[ast.stmt]) -> bool:
    if not body:
        return False
    last = body[-1]
    if isinstance(last, ast.Raise):
        return True
    if isinstance(last, ast.If) and last.orelse:
        return _always_raises(last.body) and _always_raises(last.orelse)
    return False


class _InterpStmts:
    def assign_name(self, st: State, name: str, v: V) -> None:
        # assignment to a name that an enclosing (defining) frame owns and this frame does not: python would create a local; same here
        st.frame.vars[name] = v

    def assign(self, st: State, target: ast.AST, v: V, value_node: Optional[ast.AST]) -> List[Outcome]:
        if isinstance(target, ast.Name):
            if isinstance(v, ListV) and isinstance(value_node, (ast.Name, ast.Subscript, ast.Attribute)):
                v.fresh = False
            if isinstance(v, OpaqueV) and v.text.startswith('result of ') and '@' in v.text:
                v = OpaqueV(f'{target.id}@{v.text.split("@")[-1]}')      # readable symbol: the variable holding a query result
            self.assign_name(st, target.id, v)
            return [(st, 'next', None)]
        if isinstance(target, (ast.Tuple, ast.List)):
            if isinstance(v, TupleV) and len(v.items) == len(target.elts):
                for t, x in zip(target.elts, v.items):
                    self.assign(st, t, x, None)
            else:
                for n in ast.walk(target):
                    if isinstance(n, ast.Name):
                        self.assign_name(st, n.id, UnknownV('unpacked value') if isinstance(v, (UnknownV, ListV, DictV)) else OpaqueV(f'{n.id}'))
            return [(st, 'next', None)]
        if isinstance(target, ast.Subscript):
            outs: List[Outcome] = []
            for s2, vs in self.ev_many([target.value, target.slice], st):
                if _has_raise(vs):
                    outs.append((s2, 'raise', None))
                    continue
                obj, k = vs
                v2 = _remap(s2, v) if s2 is not st else v
                if isinstance(obj, DictV):
                    self.dict_store(s2, obj, k, v2, target)
                elif isinstance(obj, ListV):
                    raise Undecided(f'`{pf.nsrc(target)[:50]} = ..` changes a list of closure rows in place')
                else:
                    self.escape([v2], f'stored into `{pf.nsrc(target.value)[:30]}`')
                outs.append((s2, 'next', None))
            return outs
        if isinstance(target, ast.Attribute):
            self.escape([v], f'stored into `{pf.nsrc(target)[:30]}`')
            return [(st, 'next', None)]
        return [(st, 'next', None)]

    def exec_block(self, stmts: Sequence[ast.stmt], st: State) -> List[Outcome]:
        cur: List[State] = [st]
        done: List[Outcome] = []
        for s in stmts:
            nxt: List[State] = []
            for c in cur:
                for o in self.exec_stmt(s, c):
                    if o[1] == 'next':
                        nxt.append(o[0])
                    else:
                        done.append(o)
            cur = nxt
            self.n_paths = max(self.n_paths, len(cur) + len(done))
            if len(cur) + len(done) > MAX_PATHS:
                raise Undecided(f'more than {MAX_PATHS} paths')
            if not cur:
                break
        return done + [(c, 'next', None) for c in cur]

    def exec_stmt(self, s: ast.stmt, st: State) -> List[Outcome]:
        if isinstance(s, ast.Expr):
            return [(s2, 'raise' if isinstance(v, RaiseV) else 'next', None) for s2, v in self.ev(s.value, st)]
        if isinstance(s, (ast.Assign, ast.AnnAssign)):
            if s.value is None:
                return [(st, 'next', None)]
            targets = s.targets if isinstance(s, ast.Assign) else [s.target]
            outs: List[Outcome] = []
            for s2, v in self.ev(s.value, st):
                if isinstance(v, RaiseV):
                    outs.append((s2, 'raise', None))
                    continue
                cur = [s2]
                for t in targets:
                    nxt = []
                    for c in cur:
                        for o in self.assign(c, t, _remap(c, v) if c is not s2 else v, s.value):
                            if o[1] == 'next':
                                nxt.append(o[0])
                            else:
                                outs.append(o)
                    cur = nxt
                outs += [(c, 'next', None) for c in cur]
            return outs
        if isinstance(s, ast.AugAssign):
            outs = []
            for s2, v in self.ev(s.value, st):
                if isinstance(s.target, ast.Name):
                    old = self.lookup(s2, s.target.id)
                    if isinstance(old, ScalarV) and isinstance(v, ScalarV) and isinstance(s.op, (ast.Add, ast.Sub)) and not s2.iteration:
                        self.assign_name(s2, s.target.id, ScalarV(old.lin + v.lin if isinstance(s.op, ast.Add) else old.lin - v.lin))
                    elif isinstance(old, (ListV, DictV)):
                        raise Undecided(f'`{pf.nsrc(s)[:50]}` changes a tracked collection in place')
                    else:
                        self.assign_name(s2, s.target.id, UnknownV(f'`{pf.nsrc(s)[:40]}` (accumulated over iterations)'))
                elif isinstance(s.target, ast.Subscript):
                    for s3, obj in self.ev(s.target.value, s2):
                        if isinstance(obj, DictV):
                            obj.unknown = obj.unknown or f'`{pf.nsrc(s)[:40]}`'
                outs.append((s2, 'next', None))
            return outs
        if isinstance(s, ast.If):
            return self.exec_if(s.test, s.body, s.orelse, st)
        if isinstance(s, ast.Assert):
            outs = []
            for s2, t, u in self.test_hinted(s.test, st, True):
                if t:
                    if u and u in s2.uncertain:
                        s2.uncertain.remove(u)      # the continuing side of an assertion is the normal execution
                    outs.append((s2, 'next', None))
                else:
                    outs.append((s2, 'raise', None))
            return outs
        if isinstance(s, (ast.For, ast.AsyncFor)):
            return self.exec_for(s, st)
        if isinstance(s, ast.While):
            self.havoc(st, s.body + s.orelse, 'while loop')
            return [(st, 'next', None)]
        if isinstance(s, ast.Try) or s.__class__.__name__ == 'TryStar':
            swallowing = [h for h in s.handlers if not _always_raises(h.body)]
            outs = []
            for o in self.exec_block(s.body, st):
                if o[1] == 'raise' and swallowing:
                    o[0].uncertain.append('u:an exception handler continues after a failure')
                    outs += self.exec_block(swallowing[0].body, o[0])
                else:
                    outs.append(o)
            if s.orelse or s.finalbody:
                res: List[Outcome] = []
                for o in outs:
                    if o[1] == 'next':
                        res += self.exec_block(list(s.orelse) + list(s.finalbody), o[0])
                    else:
                        res.append(o)
                outs = res
            return outs
        if isinstance(s, (ast.With, ast.AsyncWith)):
            for it in s.items:
                if it.optional_vars is not None:
                    for n in ast.walk(it.optional_vars):
                        if isinstance(n, ast.Name):
                            self.assign_name(st, n.id, OpaqueV(n.id))
            return self.exec_block(s.body, st)
        if isinstance(s, ast.Return):
            if s.value is None:
                return [(st, 'return', NoneV())]
            return [(s2, 'raise' if isinstance(v, RaiseV) else 'return', v) for s2, v in self.ev(s.value, st)]
        if isinstance(s, ast.Raise):
            return [(st, 'raise', None)]
        if isinstance(s, (ast.FunctionDef, ast.AsyncFunctionDef)):
            self.assign_name(st, s.name, FuncV(s, st.frame.fid))
            return [(st, 'next', None)]
        if isinstance(s, ast.Break):
            return [(st, 'break', None)]
        if isinstance(s, ast.Continue):
            return [(st, 'continue', None)]
        if isinstance(s, (ast.Pass, ast.Import, ast.ImportFrom, ast.Global, ast.Delete, ast.ClassDef)):
            return [(st, 'next', None)]
        if isinstance(s, ast.Nonlocal):
            raise Undecided('nonlocal rebinding is not modelled')
        raise Undecided(f'statement `{pf.nsrc(s)[:50]}` is not modelled')

    def exec_if(self, test: ast.AST, body: Sequence[ast.stmt], orelse: Sequence[ast.stmt], st: State) -> List[Outcome]:
        by_token: Dict[Optional[str], Dict[bool, List[Outcome]]] = {}
        outs: List[Outcome] = []
        both = list(body) + list(orelse)
        if not _assigned_names(both) and not any(isinstance(n, (ast.Return, ast.Break, ast.Continue, ast.FunctionDef, ast.AsyncFunctionDef)) for b in both for n in ast.walk(b)) \
                and not self.body_relevant(both + [ast.Expr(value=test)], st):
            return [(st, 'next', None)]         # nothing in either branch touches what is tracked (a raise only ends paths we do not follow)
        want: Optional[bool] = None
        if _always_raises(body) and not orelse:
            want = False
        elif orelse and _always_raises(orelse) and not _always_raises(body):
            want = True
        tests = self.test_hinted(test, st, want) if want is not None else self.test(test, st)
        for s2, t, u in tests:
            res = self.exec_block(body if t else orelse, s2) if (body if t else orelse) else [(s2, 'next', None)]
            by_token.setdefault(u, {}).setdefault(t, []).extend(res)
            outs += res
        # `if <undecidable>: raise`: the side that goes on is the normal execution, not an uncertain one
        for u, sides in by_token.items():
            if u is None:
                continue
            for t in (True, False):
                if sides.get(t) and all(o[1] == 'raise' for o in sides[t]):
                    for o in sides.get(not t, []):
                        if u in o[0].uncertain:
                            o[0].uncertain.remove(u)
        return outs

    def havoc(self, st: State, stmts: Sequence[ast.stmt], why: str) -> None:
        for n in _assigned_names(stmts):
            st.frame.vars[n] = UnknownV(f'{n}: assigned in a {why}')
        for s in stmts:
            for n in ast.walk(s):
                if isinstance(n, ast.Name) and isinstance(n.ctx, ast.Load):
                    v = self.lookup(st, n.id)
                    if isinstance(v, DictV):
                        v.unknown = v.unknown or f'used in a {why}'
                    elif isinstance(v, ListV):
                        st.frame.vars[n.id] = UnknownV(f'{n.id}: used in a {why}')

    def body_relevant(self, stmts: Sequence[ast.stmt], st: State) -> bool:
        for s in stmts:
            for n in ast.walk(s):
                if isinstance(n, ast.Call):
                    if id(n) in self.emb and self.emb[id(n)].sql_text and (CLOSURE in self.emb[id(n)].sql_text or 'job_groups' in self.emb[id(n)].sql_text):
                        return True
                    if isinstance(n.func, ast.Name):
                        fv = self.lookup(st, n.func.id)
                        if isinstance(fv, FuncV) and (self.relevant(fv.node) or fv.def_fid is not None and self.body_relevant_fn(fv.node, st)):
                            return True
                if isinstance(n, ast.Name) and isinstance(self.lookup(st, n.id), (DictV, ListV, KeySetV)):
                    return True
        return False

    def body_relevant_fn(self, fn: pf.FuncDef, st: State) -> bool:
        return self.relevant(fn)

    def exec_for(self, s: ast.stmt, st: State) -> List[Outcome]:
        outs: List[Outcome] = []
        for s2, it in self.ev(s.iter, st):
            if isinstance(it, RaiseV):
                outs.append((s2, 'raise', None))
            elif isinstance(it, ReadV):
                outs += self.loop_over_read(s, it, s2)
            elif isinstance(it, ListV) and self.body_relevant(s.body, s2):
                outs += self.loop_over_list(s, it, s2)
            elif isinstance(it, OpaqueV) and self.body_relevant(s.body, s2):
                outs += self.loop_generic(s, it, s2)
            else:
                if self.body_relevant(s.body, s2) and not isinstance(it, OpaqueV):
                    raise Undecided(f'loop `for {pf.nsrc(s.target)} in {pf.nsrc(s.iter)[:40]}` over {it!r} touches closure rows')
                self.havoc(s2, list(s.body) + [s.target], 'loop')
                outs.append((s2, 'next', None))
        return outs

    def loop_over_read(self, s: ast.stmt, rd: ReadV, st: State) -> List[Outcome]:
        """`async for row in <SELECT .. FROM closure>`: the fill of a per-request map  D[row['job_group_id']].append((row['ancestor_id'], row['level']))."""
        body = [b for b in s.body if not (isinstance(b, ast.Expr) and isinstance(b.value, ast.Constant))]
        ok = False
        if len(body) == 1 and isinstance(body[0], ast.Expr) and isinstance(body[0].value, ast.Call) and isinstance(s.target, ast.Name) and not rd.why_unknown and not s.orelse:
            c = body[0].value
            if isinstance(c.func, ast.Attribute) and c.func.attr == 'append' and len(c.args) == 1 and isinstance(c.func.value, ast.Subscript) and isinstance(c.func.value.value, ast.Name):
                d = self.lookup(st, c.func.value.value.id)
                saved = dict(st.frame.vars)
                st.frame.vars[s.target.id] = RowV(rd)
                try:
                    kres = self.ev(c.func.value.slice, st)
                    vres = self.ev(c.args[0], st)
                finally:
                    st.frame.vars.clear()
                    st.frame.vars.update(saved)
                if isinstance(d, DictV) and d.default == 'list' and not d.stores and d.snapshot is None and not d.unknown and len(kres) == 1 and len(vres) == 1 and not st.iteration:
                    k, v = kres[0][1], vres[0][1]
                    if isinstance(k, SlotV) and k.kind == 'K' and isinstance(v, TupleV) and len(v.items) == 2 and all(isinstance(x, SlotV) for x in v.items) \
                            and (v.items[0].kind, v.items[0].shift, v.items[1].kind, v.items[1].shift) == ('A', 0, 'L', 0):
                        if rd.many is not None and isinstance(rd.many, KeySetV):
                            d.snapshot = (rd.many, rd.batch)
                            ok = True
                        elif rd.one is not None:
                            d.stores.append(Store(rd.one, ListV([Seg('chain', base=(rd.one, 0), template=TupleV([SlotV('A'), SlotV('L')]))], fresh=False), s, st.iteration))
                            ok = True
        if not ok:
            self.havoc(st, list(s.body) + [s.target], f'loop over rows of {CLOSURE}')
        return [(st, 'next', None)]

    def loop_over_list(self, s: ast.stmt, lst: ListV, st: State) -> List[Outcome]:
        """A loop over a list of closure rows whose body inserts them one by one."""
        cur = [st]
        done: List[Outcome] = []
        for sg in lst.segs:
            nxt: List[State] = []
            for c in cur:
                if sg.kind in ('wrong', 'unknown'):
                    c.rowsets.append(RowSet(s, [(sg.kind, sg.reason)], 'loop'))
                    nxt.append(c)
                    continue
                bound = sg.value if sg.kind == 'elem' else sg.template
                if not self.bind_target(c, s.target, bound):
                    raise Undecided(f'`for {pf.nsrc(s.target)} in ..`: element {bound!r}')
                c.chain_ctx = sg.base if sg.kind == 'chain' else None
                for o in self.exec_block(s.body, c):
                    o[0].chain_ctx = None
                    if o[1] in ('next', 'continue'):
                        nxt.append(o[0])
                    elif o[1] == 'break':
                        raise Undecided('break inside a loop over closure rows')
                    else:
                        done.append(o)
            cur = nxt
        return done + [(c, 'next', None) for c in cur]

    def loop_generic(self, s: ast.stmt, it: OpaqueV, st: State) -> List[Outcome]:
        if st.iteration:
            raise Undecided('nested loops around the creation of job groups')
        if s.orelse:
            raise Undecided('for .. else around the creation of job groups')
        plan = ["'", ''] if self.mode == 'two' else ['']
        cur = [st]
        done: List[Outcome] = []
        for idx, prime in enumerate(plan):
            nxt: List[State] = []
            for c in cur:
                tag = 'i' if prime else 'j'
                lv = OpaqueV(f'{it.text}[*{prime}]')
                self.havoc_loop_names(c, s)
                if not self.bind_target(c, s.target, lv):
                    if isinstance(s.target, ast.Tuple) and len(s.target.elts) == 2 and all(isinstance(x, ast.Name) for x in s.target.elts) and it.text.startswith('enumerate('):
                        c.frame.vars[s.target.elts[0].id] = ScalarV(lsym(f'index of {lv.text}'))
                        lv = OpaqueV(f'{it.text[len("enumerate("):-1]}[*{prime}]')
                        c.frame.vars[s.target.elts[1].id] = lv
                    else:
                        raise Undecided(f'loop target `{pf.nsrc(s.target)}`')
                c.iteration = tag
                c.loopvars.append(lv.text)
                c.loop_bindings.append((lv.text, lv))
                if self.mode == 'two':
                    c.parent_case = 'pre' if prime else 'req'
                    if not prime:
                        c.first = (c.group, c.parent, list(c.notes), len(c.rowsets), len(c.jg_rows))
                        c.hyp = []
                for o in self.exec_block(s.body, c):
                    if o[1] in ('next', 'continue'):
                        e_ = o[0]
                        e_.iteration_ends.append(tag)
                        nxt.append(e_)
                    elif o[1] == 'break':
                        raise Undecided('break inside the loop that creates job groups')
                    else:
                        done.append(o)
            cur = nxt
        res: List[Outcome] = []
        for c in cur:
            self.iteration_results.append(c.fork())
            c.iteration = ''
            del c.loopvars[-len(plan):]
            del c.loop_bindings[-len(plan):]
            # after the loop the maps hold the entries of all iterations: not modelled
            for fr in c.frames:
                for v in fr.vars.values():
                    if isinstance(v, DictV) and any(x.iteration for x in v.stores):
                        v.unknown = v.unknown or 'entries of all iterations after the loop'
            res.append((c, 'next', None))
        return done + res

    def havoc_loop_names(self, st: State, s: ast.stmt) -> None:
        for n in _assigned_names(list(s.body)):
            cur = st.frame.vars.get(n)
            if isinstance(cur, (DictV,)):
                continue
            st.frame.vars[n] = UnknownV(f'`{n}` as left by an earlier iteration')


class Interp(_InterpTests, _InterpDict, _InterpCalls, _InterpSql, _InterpStmts, Interp):      # type: ignore[no-redef]
    pass


# ----------------------------------------------------------------------------------------------------
# verdicts
# ----------------------------------------------------------------------------------------------------
Result = Tuple[str, str, Any, str, int]       # ('ok' | 'bad', construct, message / detail, file, line)


def _is_root(st: State, g: Lin) -> bool:
    for r in ROOT_NAMES:
        d = g - lsym(r)
        if lin_eq(d, lconst(0)) or any(lin_eq(z, d) or lin_eq(z, -d) for z in st.zero):
            return True
    return g.is_const() and g.const == 0


def _maybe_root(st: State, g: Lin) -> bool:
    """Not known to differ from the root id."""
    for r in ROOT_NAMES:
        d = g - lsym(r)
        if any(lin_eq(z, d) or lin_eq(z, -d) for z in st.nonzero):
            return False
    if g.is_const() and g.const != 0:
        return False
    return True


class Rows:
    """Normal form of the closure rows of one creation: single rows and chains, as (ancestor form, level) / (base, level shift)."""

    def __init__(self) -> None:
        self.elems: List[Tuple[Lin, Any]] = []      # (ancestor_id, level)
        self.chains: List[Tuple[Base, int]] = []
        self.wrong: List[str] = []
        self.problems: List[str] = []               # decidable column defects (wrong group / batch / ancestor column)


def _norm_base(b: Base, group: Optional[Lin], parent: Optional[Lin]) -> Base:
    lin, k = b
    if group is not None and parent is not None and k >= 1 and lin_eq(lin, group):
        return (parent, k - 1)
    return b


def collect_rows(rowsets: Sequence[RowSet], G: Lin, B: Optional[Lin], sigma: Dict[str, Lin]) -> Rows:
    out = Rows()

    def lin_of(v: Any) -> Optional[Lin]:
        v = _as_scalar(v) if isinstance(v, V) else v
        return subst_lin(v.lin, sigma) if isinstance(v, ScalarV) else None
    for rs in rowsets:
        for sg in rs.segs:
            if sg[0] == 'wrong':
                out.wrong.append(sg[1])
                continue
            if sg[0] == 'unknown':
                raise Undecided(f'{rs.where}: {sg[1]}')
            row = sg[-1]
            for c in COLS:
                if c not in row or isinstance(row[c], UnknownV):
                    raise Undecided(f'{rs.where}: value of column {c} is not determined ({row.get(c)!r})')
            g = lin_of(row['job_group_id'])
            if g is None:
                raise Undecided(f'{rs.where}: job_group_id receives {row["job_group_id"]!r}')
            if not lin_eq(g, G):
                out.problems.append(f'job_group_id receives `{g!r}`, the group being created is `{G!r}`')
            b = lin_of(row['batch_id'])
            if b is None or (B is not None and not lin_eq(b, subst_lin(B, sigma))):
                raise Undecided(f'{rs.where}: batch_id receives {row["batch_id"]!r}')
            if sg[0] == 'elem':
                a, l = lin_of(row['ancestor_id']), lin_of(row['level'])
                if a is None or l is None or not l.is_const():
                    raise Undecided(f'{rs.where}: single row ({row["ancestor_id"]!r}, {row["level"]!r})')
                out.elems.append((a, l.const))
            else:
                base = (subst_lin(sg[1][0], sigma), sg[1][1])
                a, l = row['ancestor_id'], row['level']
                if not (isinstance(a, SlotV) and a.kind == 'A'):
                    out.problems.append(f'ancestor_id receives `{a!r}` instead of the ancestor_id of the copied row')
                    continue
                if not (isinstance(l, SlotV) and l.kind == 'L'):
                    out.problems.append(f'level receives `{l!r}` instead of the copied row\'s level + 1')
                    continue
                out.chains.append((base, l.shift))
    return out


def fold(rows: Rows, pairs: Sequence[Tuple[Lin, Lin]]) -> None:
    """self(X) at level s  +  chain(parent of X) at shift s + 1   ==   chain(X) at shift s,   for every known (X, parent of X)."""
    changed = True
    while changed:
        changed = False
        rows.chains = [(_pair_norm(b, pairs), s) for b, s in rows.chains]
        for X, PX in pairs:
            for i, (a, lv) in enumerate(rows.elems):
                if not lin_eq(a, X):
                    continue
                for j, (b, s) in enumerate(rows.chains):
                    if b[1] == 0 and lin_eq(b[0], PX) and s == lv + 1:
                        del rows.elems[i]
                        rows.chains[j] = ((X, 0), lv)
                        changed = True
                        break
                if changed:
                    break
            if changed:
                break


def _pair_norm(b: Base, pairs: Sequence[Tuple[Lin, Lin]]) -> Base:
    lin, k = b
    again = True
    while again and k >= 1:
        again = False
        for X, PX in pairs:
            if lin_eq(lin, X):
                lin, k, again = PX, k - 1, True
                break
    return (lin, k)


def judge_rows(rows: Rows, G: Lin, P: Lin, root: bool, pairs: Sequence[Tuple[Lin, Lin]] = ()) -> Optional[str]:
    """None when the rows are exactly TrueChain(G); otherwise what is wrong."""
    if rows.wrong:
        return rows.wrong[0]
    if rows.problems:
        return rows.problems[0]
    selfs = [(a, l) for a, l in rows.elems if lin_eq(a, G)]
    others = [(a, l) for a, l in rows.elems if not lin_eq(a, G)]
    full = [(b, s) for b, s in rows.chains if b[1] == 0 and lin_eq(b[0], G)]
    if full and not rows.elems and len(rows.chains) == 1:
        return None if full[0][1] == 0 else f'the rows are the chain of the new group with levels shifted by {full[0][1]}'
    if others:
        raise Undecided(f'single rows for ancestors {[repr(a) for a, _ in others]}')
    if not selfs:
        return 'the self row (g, g, 0) is not inserted: the usage of the group\'s own jobs never reaches the group\'s aggregate'
    if len(selfs) > 1:
        raise Undecided('two self rows')
    if selfs[0][1] != 0:
        return f'the self row is inserted at level {selfs[0][1]}'
    if root:
        if rows.chains:
            raise Undecided('ancestor rows for the root group')
        return None
    if not rows.chains:
        return ('only the self row (g, g, 0) is inserted, no row for the parent or any further ancestor: usage of the jobs of this group is added to the group itself but never to its parent, '
                'to any higher group or to the root group (the batch total)')
    if len(rows.chains) > 1:
        raise Undecided(f'rows copied from several chains {[base_text(b) for b, _ in rows.chains]}')
    b, s = rows.chains[0]
    if b[1] == 0 and lin_eq(b[0], P):
        if s == 1:
            return None
        return f'the parent\'s rows are copied with level + {s} instead of level + 1'
    if (lin_eq(b[0], P) and b[1] >= 1) or any(b[1] == 0 and lin_eq(X, P) and lin_eq(b[0], PX) for X, PX in pairs):
        return (f'the ancestor rows are those of {base_text(b)} shifted by {s}: every ancestor above the parent, but NOT the parent itself (parent, level 1): the parent group never receives the usage of '
                'jobs in the new group')
    return f'the ancestor rows are copied from the chain of `{base_text(b)}`, not from the parent `{P!r}`'


def canonical_store(sto: Store, G: Lin, P: Lin) -> bool:
    v = sto.value
    if not isinstance(v, ListV):
        return False
    rows = Rows()
    for sg in v.segs:
        if sg.kind in ('wrong', 'unknown'):
            return False
        if sg.kind == 'elem':
            t = sg.value
            if not (isinstance(t, TupleV) and len(t.items) == 2):
                return False
            a, l = _as_scalar(t.items[0]), _as_scalar(t.items[1])
            if not (isinstance(a, ScalarV) and isinstance(l, ScalarV) and l.lin.is_const()):
                return False
            rows.elems.append((a.lin, l.lin.const))
        else:
            t = sg.template
            if not (isinstance(t, TupleV) and len(t.items) == 2 and isinstance(t.items[0], SlotV) and isinstance(t.items[1], SlotV) and t.items[0].kind == 'A' and t.items[1].kind == 'L'
                    and t.items[0].shift == 0):
                return False
            rows.chains.append((sg.base, t.items[1].shift))
    fold(rows, [(G, P)])
    if rows.elems or len(rows.chains) != 1:
        return False
    b, s = rows.chains[0]
    return s == 0 and b[1] == 0 and lin_eq(b[0], sto.key) and (lin_eq(sto.key, G) or lin_eq(sto.key, P))


# ----------------------------------------------------------------------------------------------------
# driver
# ----------------------------------------------------------------------------------------------------
def closure_writers(prog: sf.SqlProgram, tier: str) -> List[Tuple[sf.Embedded, N]]:
    from .common import read_repo
    for r in prog.routines.values():
        for stn in sf.all_statements(r.ast.body):
            if any(t.lower() == CLOSURE for t, _ in sf.written_tables(stn)):
                raise AnalysisError(f'{CLOSURE} is written by the stored routine {r.name} ({r.file}): this writer is not analysed')
    out: List[Tuple[sf.Embedded, N]] = []
    dirs = ['batch/batch'] if tier != 'thorough' else ['batch']
    for rel in pf.walk_py(dirs):
        if '/test/' in rel or rel.startswith('batch/test') or rel.startswith('batch/sql/'):
            continue
        try:
            src = read_repo(rel)
        except Exception:       # noqa: BLE001
            continue
        if CLOSURE not in src:
            continue
        m = pf.load(rel)
        covered = set()
        for e in sf.embedded_in(m):
            for n in ast.walk(e.call.args[0]):
                covered.add(id(n))
            if isinstance(e.call.args[0], ast.Name) and e.fn is not None:
                d = pf.single_def(e.fn, e.call.args[0].id)
                if d is not None:
                    for n in ast.walk(d):
                        covered.add(id(n))
            if e.sql_text is None or CLOSURE not in e.sql_text:
                continue
            sts = e.stmts()
            if e.parse_error:
                up = e.sql_text.upper()
                if any(w in up for w in ('INSERT', 'UPDATE ', 'DELETE', 'REPLACE')):
                    raise AnalysisError(f'{rel}::{e.qual}: SQL mentioning {CLOSURE} with a write verb does not parse ({e.parse_error})')
                continue
            for stn in sts:
                if any(t.lower() == CLOSURE for t, _ in sf.written_tables(stn)):
                    out.append((e, stn))
        for n in ast.walk(m.tree):
            if isinstance(n, ast.Constant) and isinstance(n.value, str) and id(n) not in covered and CLOSURE in n.value:
                up = n.value.upper()
                if ('INSERT' in up or 'REPLACE' in up or 'DELETE' in up or 'UPDATE ' in up) and up.find(CLOSURE.upper()) < max(up.find('SELECT'), 0) + 10**6 and \
                        any(w + ' ' + x in ' '.join(up.split()) for w in ('INTO', 'UPDATE', 'DELETE FROM') for x in (CLOSURE.upper(), '`' + CLOSURE.upper() + '`')):
                    raise AnalysisError(f'{rel}:{n.lineno}: a string that writes {CLOSURE} is not an analysed execute() argument (opaque SQL)')
    return out


def _outermost(m: pf.Module, node: ast.AST) -> Optional[pf.FuncDef]:
    par = m.parents()
    cur = par.get(node)
    top = None
    while cur is not None:
        if isinstance(cur, (ast.FunctionDef, ast.AsyncFunctionDef)):
            top = cur
        cur = par.get(cur)
    return top


def _run_entry(m: pf.Module, entry: pf.FuncDef, mode: str, case: str, loop_store_oids: Optional[set], guaranteed: Dict[int, bool]) -> Tuple[Interp, List[State], List[State]]:
    it = Interp(m, mode)
    it.loop_store_oids = loop_store_oids
    it.guaranteed_store = guaranteed
    st = State()
    st.parent_case = case
    fr = it.new_frame(st, entry, None)
    a = entry.args
    for x in a.posonlyargs + a.args + a.kwonlyargs:
        fr.vars[x.arg] = OpaqueV(x.arg)
    outs = it.exec_block(entry.body, st)
    finals = [o[0] for o in outs if o[1] in ('next', 'return')]
    return it, finals, it.iteration_results


def _site_line(st: State, default: int) -> int:
    return st.call_sites[-1].node.lineno if st.call_sites else default


def analyse_entry(m: pf.Module, entry: pf.FuncDef, target_name: str) -> List[Result]:
    """All creations of job groups reachable from one entry function."""
    res: List[Result] = []
    cons0 = f'{m.rel}::{m.qualname(entry)}'
    # ---- discovery run (inductive mode, parent existed before the request) ----
    it0, fin0, iters0 = _run_entry(m, entry, 'ind', 'pre', None, {})
    looped = bool(iters0)
    if not looped:
        creations = [s for s in fin0 if s.group is not None]
        if not creations:
            if any(s.rowsets for s in fin0):
                raise Undecided(f'{cons0}: rows are written to {CLOSURE} but {target_name} is not called on that path')
            return res
        n_ok = 0
        for s in creations:
            v = _judge_state(s, s.rowsets, s.group, s.parent, s.batch, {}, [])
            if v is None:
                n_ok += 1
                continue
            if s.uncertain:
                raise Undecided(f'{cons0}: on a path through {s.uncertain[0].split(':', 2)[-1]} the rows would be wrong ({v}); the path condition is not decided')
            if _is_root(s, s.group) and not v.startswith('the self row'):
                raise Undecided(f'{cons0}: rows of the root group: {v}')
            res.append(('bad', f'{cons0}::{target_name}::closure rows', _msg(v, s, None), m.path, _site_line(s, entry.lineno)))
            return res
        res.append(('ok', f'{cons0}::{target_name}::closure rows', {'paths': n_ok, 'groups': sorted({repr(s.group) for s in creations})}, m.path, entry.lineno))
        return res
    # ---- loop: which maps are written inside the generic iteration, and is the new group's own entry always left behind ----
    store_oids = {oid for s in iters0 for oid, _ in s.stores_this_iteration}
    guaranteed: Dict[int, bool] = {}
    for oid in store_oids:
        paths = [s for s in iters0 if s.group is not None and s.rowsets]
        guaranteed[oid] = bool(paths) and all(any(o == oid and lin_eq(sto.key, s.group) and canonical_store(sto, s.group, s.parent) for o, sto in s.stores_this_iteration) for s in paths)
    pending: List[str] = []
    canonical = True
    n_ok = 0
    groups = set()
    path_undecided: Optional[str] = None
    for case in ('pre', 'req'):
        it1, fin1, iters1 = _run_entry(m, entry, 'ind', case, store_oids, guaranteed)
        for s in iters1:
            if s.group is None:
                if s.rowsets:
                    raise Undecided(f'{cons0}: rows are written to {CLOSURE} but {target_name} is not called on that path')
                continue
            groups.add(repr(s.group))
            for oid, sto in s.stores_this_iteration:
                if not canonical_store(sto, s.group, s.parent):
                    canonical = False
            try:
                v = _judge_state(s, s.rowsets, s.group, s.parent, s.batch, {}, [])
            except Undecided as u:
                path_undecided = path_undecided or str(u)
                continue
            if v is None:
                n_ok += 1
                continue
            if s.uncertain:
                path_undecided = path_undecided or f'on a path through {s.uncertain[0].split(':', 2)[-1]} the rows would be wrong ({v}); the path condition is not decided'
                continue
            if case == 'pre' and not s.inv_hits:
                res.append(('bad', f'{cons0}::{target_name}::closure rows', _msg(v, s, None), m.path, _site_line(s, entry.lineno)))
                return res
            pending.append(v)
    if canonical and not pending and path_undecided is None:
        res.append(('ok', f'{cons0}::{target_name}::closure rows', {'paths': n_ok, 'groups': sorted(groups), 'per_request_maps': len(store_oids), 'induction': 'every store is canonical'},
                    m.path, entry.lineno))
        return res
    # ---- two-iteration history with exact stores ----
    it2, fin2, iters2 = _run_entry(m, entry, 'two', 'pre', store_oids, guaranteed)
    undec: Optional[str] = None
    candidates: List[Tuple[int, Result]] = []
    for s in iters2:
        if s.first is None or s.group is None or s.first[0] is None:
            continue
        G1, P1, notes1, n_rs1, _ = s.first
        Gj, Pj = s.group, s.parent
        # the second group's parent is the first group
        lv = s.loop_bindings_text_j if hasattr(s, 'loop_bindings_text_j') else None
        variant = [x for x in Pj.coef if "[*]" in x and abs(Pj.coef[x]) == 1]
        if not variant:
            continue        # this path's parent cannot be a group of the same request
        v0 = sorted(variant)[0]
        c = Pj.coef[v0]
        rest = Pj - Lin({v0: c}, 0)
        sigma = {v0: (G1 - rest).scale(1 if c == 1 else -1)}
        valid = True
        notes: List[str] = []
        for kind, KL, KS, desc in s.hyp:
            d = subst_lin(KL, sigma) - KS
            same = d.is_const() and d.const == 0
            if (kind == 'hit') != same:
                valid = False
                break
            if kind == 'miss':
                notes.append(f'the look-up key `{KL!r}` (= `{subst_lin(KL, sigma)!r}` for this parent) is not the key `{KS!r}` under which the first group\'s entry was stored'
                             + ('' if d.is_const() else f' (they differ by `{d!r}`, which is 0 only for special requests)'))
            else:
                notes.append(f'the look-up with key `{KL!r}` returns the entry stored by `{desc}`')
        if not valid:
            continue
        # the first creation must itself be right (it is judged by the inductive run)
        try:
            v1 = _judge_state(s, s.rowsets[:n_rs1], G1, P1, s.batch, {}, [])
        except Undecided:
            continue
        if v1 is not None:
            continue
        try:
            v2 = _judge_state(s, s.rowsets[n_rs1:], Gj, G1, s.batch, sigma, [(G1, P1)], check_parent=False)
        except Undecided as u:
            undec = undec or str(u)
            continue
        if v2 is None:
            continue
        if s.uncertain:
            undec = undec or f'path through {s.uncertain[0].split(':', 2)[-1]}'
            continue
        hist = (f'history: one request creates group g1 = `{G1!r}` (parent `{P1!r}` existed before) and then a group g2 = `{subst_lin(Gj, sigma)!r}` whose parent is g1 '
                f'(`{Pj!r}` = g1); ' + '; '.join(notes))
        # prefer the witness in which the parent is named relative to the update (the form clients use for a parent of the same request)
        shares = bool(set(Pj.coef) & set(G1.coef))
        candidates.append((0 if shares else 1, ('bad', f'{cons0}::{target_name}::closure rows', _msg(v2, s, hist), m.path, _site_line(s, entry.lineno))))
    if candidates:
        best = sorted(candidates, key=lambda c: c[0])[0]
        if best[0] == 1:
            # wrong rows only when a request names a parent created by the same request through its ABSOLUTE id; whether such requests occur
            # (clients use the in-update form for those parents) is outside the code analysed
            raise Undecided(f'{cons0}: wrong closure rows only for a request that names a parent created by the same request by its absolute id ({best[1][2][:300]} ...): not decided')
        res.append(best[1])
        return res
    if canonical and not pending and path_undecided is not None:
        raise Undecided(f'{cons0}: {path_undecided}')
    raise Undecided(f'{cons0}: the rows written to {CLOSURE} are assembled in Python through a per-request map whose entries are not all of the form key = group id, value = that group\'s '
                    f'complete chain ({pending[0] if pending else "non-canonical store"}); the two-step history shows no wrong rows{"; " + undec if undec else ""}'
                    f'{"; " + path_undecided if path_undecided else ""}: not decided')


def _judge_state(s: State, rowsets: Sequence[RowSet], G: Lin, P: Lin, B: Optional[Lin], sigma: Dict[str, Lin], pairs: Sequence[Tuple[Lin, Lin]], check_parent: bool = True) -> Optional[str]:
    Gs, Ps = subst_lin(G, sigma), subst_lin(P, sigma)
    rows = collect_rows(rowsets, Gs, B, sigma)
    if check_parent:
        for k, why in s.must_be_parent:
            if not lin_eq(subst_lin(k, sigma), Ps):
                raise Undecided(f'{why} are used for `{k!r}`, which is not the designated parent `{P!r}`')
    jg = [g for _, g, _ in s.jg_rows if g is not None]
    if jg and not any(lin_eq(subst_lin(g, sigma), Gs) for g in jg):
        raise Undecided(f'the job_groups row is inserted for `{jg[-1]!r}`, the closure rows for `{G!r}`')
    root = _is_root(s, G)
    fold(rows, list(pairs))
    v = judge_rows(rows, Gs, Ps, root, pairs)
    if v is not None and not root and _maybe_root(s, G) and not rows.chains and not rows.wrong and not rows.problems:
        # no ancestor rows on a path where the group may be the root (no test told us): only a verdict if the code never tests it
        pass
    return v


def _msg(v: str, s: State, hist: Optional[str]) -> str:
    path = '; '.join(n for n in s.notes[-4:])
    return (f'closure rows written for a new job group `{s.group!r}` with parent `{s.parent!r}`: {v}. ' + (hist + '. ' if hist else '') + (f'Path: {path}. ' if path else '') +
            'Both billing triggers add a job\'s usage to aggregated_job_group_resources_v3 once per closure row of the job\'s group: a missing ancestor row means that group (and the batch total, '
            'the row of group 0) records less than the sum over its descendant jobs\' attempts')


def check_closure(prog: sf.SqlProgram, tier: str = 'quick') -> List[Result]:
    writers = closure_writers(prog, tier)
    if not writers:
        raise AnalysisError(f'no writer of {CLOSURE} found (anchor vanished)')
    mods = {e.module.rel for e, _ in writers}
    if len(mods) != 1:
        raise AnalysisError(f'{CLOSURE} is written from several modules {sorted(mods)}: not analysed')
    m = writers[0][0].module
    emb = sf.embedded_in(m)
    targets = []
    for name, fn in ((n.name, n) for n in m.tree.body if isinstance(n, (ast.FunctionDef, ast.AsyncFunctionDef))):
        for e in emb:
            if e.fn is fn and e.sql_text and not e.parse_error and any(s.kind == 'insert' and s.table.lower() == 'job_groups' for s in e.stmts()):
                targets.append(fn)
                break
    if len(targets) != 1:
        raise AnalysisError(f'{m.rel}: expected one module-level function inserting job_groups rows, found {[t.name for t in targets]}')
    target = targets[0]
    entries: List[pf.FuncDef] = []
    for n in ast.walk(m.tree):
        if isinstance(n, ast.Call) and pf.call_name(n) == target.name:
            top = _outermost(m, n)
            if top is None:
                raise AnalysisError(f'{m.rel}:{n.lineno}: {target.name} called at module level')
            if top is not target and top not in entries:
                entries.append(top)
    if not entries:
        raise AnalysisError(f'{m.rel}: no caller of {target.name} (anchor vanished)')
    res: List[Result] = []
    visited: set = set()
    for entry in entries:
        try:
            r = analyse_entry(m, entry, target.name)
        except Undecided as u:
            if res and any(x[0] == 'bad' for x in res):
                break
            raise AnalysisError(f'{m.rel}::{entry.name}: {u}')
        except RecursionError:
            raise AnalysisError(f'{m.rel}::{entry.name}: abstract execution too deep')
        res += r
    # every writer statement must have been reached by the abstract execution
    reached = _REACHED
    # a verdict of the kind "this row is never written" is only evidence when every writer statement was seen by the abstract execution
    absence = any(x[0] == 'bad' and ('is not inserted' in str(x[2]) or 'only the self row' in str(x[2])) for x in res)
    for e, stn in writers:
        if id(e.call) not in reached and (absence or not any(x[0] == 'bad' for x in res)):
            raise AnalysisError(f'{m.rel}::{e.qual}: `{norm(sqltext(stn))[:70]}` writes {CLOSURE} but is not reached from a caller of {target.name}: not analysed')
    return res


_REACHED: set = set()
