"""Foreign-key graph of the batch database and the row-lifetime facts the billing invariant (C02) rests on.

The four aggregate tables hold running sums that only two triggers maintain (AFTER UPDATE ON attempts, AFTER INSERT ON attempt_resources).
Nothing ever subtracts usage when a billed row disappears, and MySQL does not fire triggers for rows removed by a foreign-key cascade.
So `aggregate == SUM over attempts of quantity x billed time` survives only while

  * no `attempts` / `attempt_resources` row is ever removed - neither by a DELETE on the table itself nor by a DELETE on any table from
    which the row is reachable over `ON DELETE CASCADE` edges (instances, jobs, batches, ...);
  * the columns the triggers multiply by or key on are write-once.

This module replays the DDL of the migration list (CREATE TABLE / ALTER TABLE ADD|DROP FOREIGN KEY / RENAME / DROP TABLE) into a
foreign-key graph and answers `cascade_path(table)`.  Nothing is executed; the DDL is read with the statement splitter of sqlfront
and a small clause recogniser (FOREIGN KEY (..) REFERENCES t (..) [ON DELETE action]).

Edges whose presence cannot be established (a python migration drops foreign keys of the table through information_schema, or a
DROP FOREIGN KEY names a constraint that cannot be resolved) are kept but marked `uncertain`: a verdict that needs such an edge is declined
by the caller.
"""
from __future__ import annotations

import ast
import re
from typing import Dict, List, Optional, Sequence, Tuple

from . import sqlfront as sf
from .common import AnalysisError, read_repo

_ID = r'`?([A-Za-z_0-9]+)`?'
_FK_RE = re.compile(r'(?:CONSTRAINT\s+' + _ID + r'\s+)?FOREIGN\s+KEY\s*(?:' + _ID + r'\s*)?\(([^)]*)\)\s*REFERENCES\s+' + _ID + r'\s*\(([^)]*)\)'
                    r'((?:\s*ON\s+(?:DELETE|UPDATE)\s+(?:CASCADE|SET\s+NULL|SET\s+DEFAULT|RESTRICT|NO\s+ACTION))*)', re.I)
_ON_DELETE_RE = re.compile(r'ON\s+DELETE\s+(CASCADE|SET\s+NULL|SET\s+DEFAULT|RESTRICT|NO\s+ACTION)', re.I)


_DDL_HINT = re.compile(r'FOREIGN\s+KEY|\bRENAME\b|DROP\s+TABLE|CREATE\s+TABLE|DROP\s+CONSTRAINT', re.I)
_DML_HINT = re.compile(r'\b(DELETE|TRUNCATE|REPLACE)\b', re.I)


class FK:
    __slots__ = ('child', 'cols', 'parent', 'pcols', 'on_delete', 'name', 'file', 'uncertain')

    def __init__(self, child: str, cols: List[str], parent: str, pcols: List[str], on_delete: str, name: Optional[str], file: str):
        self.child, self.cols, self.parent, self.pcols, self.on_delete, self.name, self.file = child, cols, parent, pcols, on_delete, name, file
        self.uncertain: Optional[str] = None

    def __repr__(self) -> str:
        return f'{self.child}({", ".join(self.cols)}) -> {self.parent}({", ".join(self.pcols)}) ON DELETE {self.on_delete}'


class Schema:
    def __init__(self) -> None:
        self.fks: List[FK] = []
        self.tables: Dict[str, str] = {}        # table -> file that created it
        self.n_auto: Dict[str, int] = {}        # table -> number of auto-named constraints handed out so far
        self.top_dml: List[Tuple[str, int, str]] = []   # (file, line, statement text) of top-level DML in .sql migrations

    # -- DDL replay ---------------------------------------------------------------------------------
    def _add_fks(self, table: str, text: str, file: str) -> None:
        for m in _FK_RE.finditer(text):
            name = m.group(1)
            cols = [c.strip().strip('`') for c in m.group(3).split(',')]
            pcols = [c.strip().strip('`') for c in m.group(5).split(',')]
            od = _ON_DELETE_RE.search(m.group(6) or '')
            action = re.sub(r'\s+', ' ', od.group(1).upper()) if od else 'RESTRICT'
            if name is None:
                self.n_auto[table] = self.n_auto.get(table, 0) + 1
                name = f'{table}_ibfk_{self.n_auto[table]}'
            self.fks.append(FK(table, cols, m.group(4), pcols, action, name, file))

    def _rename(self, a: str, b: str) -> None:
        if a in self.tables:
            self.tables[b] = self.tables.pop(a)
        if a in self.n_auto:
            self.n_auto[b] = self.n_auto.pop(a)
        for fk in self.fks:
            if fk.child == a:
                fk.child = b          # MySQL keeps the constraint name (<old>_ibfk_n is only renamed when it had the auto form; not relied upon)
            if fk.parent == a:
                fk.parent = b

    def apply_sql(self, stmt: str, file: str, line: int) -> None:
        body = sf._strip_leading_comments(stmt)
        if not body.strip():
            return
        m = re.match(r'CREATE\s+TABLE\s+(?:IF\s+NOT\s+EXISTS\s+)?' + _ID, body, re.I)
        if m:
            t = m.group(1)
            if re.match(r'CREATE\s+TABLE\s+(?:IF\s+NOT\s+EXISTS\s+)?' + _ID + r'\s+LIKE\s+' + _ID, body, re.I):
                self.tables[t] = file       # CREATE TABLE .. LIKE does not copy foreign keys
                return
            self.tables[t] = file
            self.n_auto[t] = 0
            self.fks = [fk for fk in self.fks if fk.child != t]
            self._add_fks(t, body, file)
            return
        m = re.match(r'DROP\s+TABLE\s+(?:IF\s+EXISTS\s+)?(.*)$', body, re.I | re.S)
        if m:
            for t in re.findall(_ID, m.group(1).split(';')[0]):
                self.tables.pop(t, None)
                self.fks = [fk for fk in self.fks if fk.child != t]
            return
        m = re.match(r'RENAME\s+TABLE\s+(.*)$', body, re.I | re.S)
        if m:
            for a, b in re.findall(_ID + r'\s+TO\s+' + _ID, m.group(1), re.I):
                self._rename(a, b)
            return
        m = re.match(r'ALTER\s+TABLE\s+' + _ID + r'(.*)$', body, re.I | re.S)
        if m:
            t, rest = m.group(1), m.group(2)
            self._add_fks(t, rest, file)
            for d in re.finditer(r'DROP\s+(?:FOREIGN\s+KEY|CONSTRAINT)\s+' + _ID, rest, re.I):
                hit = [fk for fk in self.fks if fk.child == t and fk.name == d.group(1)]
                if hit:
                    self.fks = [fk for fk in self.fks if fk not in hit]
                else:
                    for fk in self.fks:
                        if fk.child == t:
                            fk.uncertain = f'{file} drops constraint {d.group(1)} of {t}, which is not resolved to a declaration'
            mr = re.match(r'\s*RENAME\s+(?:TO\s+|AS\s+)?' + _ID + r'\s*;?\s*$', rest, re.I)
            if mr and mr.group(1).upper() not in ('INDEX', 'COLUMN', 'KEY'):
                self._rename(t, mr.group(1))
            return
        if re.match(r'(DELETE|TRUNCATE|REPLACE|UPDATE|INSERT)\b', body, re.I):
            self.top_dml.append((file, line, body))

    def apply_py(self, rel: str) -> None:
        """A python migration: DDL it executes through string constants is replayed when it is literal; a DROP FOREIGN KEY whose
        constraint name is computed at run time makes the foreign keys between the tables it names uncertain."""
        src = read_repo(rel)
        try:
            tree = ast.parse(src)
        except SyntaxError as e:
            raise AnalysisError(f'{rel}: python migration does not parse: {e}')
        consts = [n.value for n in ast.walk(tree) if isinstance(n, ast.Constant) and isinstance(n.value, str)]
        dynamic_drop = any(re.search(r'DROP\s+(FOREIGN\s+KEY|CONSTRAINT)', c, re.I) for c in consts)
        for c in consts:
            if re.search(r'\b(CREATE|ALTER|RENAME|DROP)\s+TABLE\b', c, re.I) and not (dynamic_drop and re.search(r'DROP\s+(FOREIGN\s+KEY|CONSTRAINT)', c, re.I)):
                for part in sf.split_sql_script(c):
                    self.apply_sql(part, rel, 1)
        if dynamic_drop:
            names = {c for c in consts if re.fullmatch(r'[A-Za-z_0-9]+', c)}
            touched = False
            for fk in self.fks:
                if fk.child in names and fk.parent in names:
                    fk.uncertain = f'{rel} drops a foreign key of {fk.child} referencing {fk.parent} by a name looked up at run time'
                    touched = True
            if not touched:
                for fk in self.fks:
                    if fk.child in names or not names:
                        fk.uncertain = f'{rel} drops foreign keys by names looked up at run time'

    # -- queries ------------------------------------------------------------------------------------
    def cascade_path(self, table: str, targets: Sequence[str]) -> Optional[List[FK]]:
        """Shortest chain of ON DELETE CASCADE edges from a row of `table` down to a row of one of `targets` (None if there is none)."""
        table = table.lower()
        tg = {t.lower() for t in targets}
        frontier: List[Tuple[str, List[FK]]] = [(table, [])]
        seen = {table}
        while frontier:
            nxt: List[Tuple[str, List[FK]]] = []
            for t, path in frontier:
                for fk in self.fks:
                    if fk.parent.lower() == t and fk.on_delete == 'CASCADE' and fk.child.lower() not in seen:
                        p2 = path + [fk]
                        if fk.child.lower() in tg:
                            return p2
                        seen.add(fk.child.lower())
                        nxt.append((fk.child.lower(), p2))
            frontier = nxt
        return None

    def cascade_sources(self, targets: Sequence[str]) -> Dict[str, List[FK]]:
        out: Dict[str, List[FK]] = {}
        for t in sorted({fk.parent for fk in self.fks}):
            p = self.cascade_path(t, targets)
            if p is not None:
                out[t.lower()] = p
        return out


_cache: Dict[str, Schema] = {}


def load_schema(database: str = 'batch', sql_dir: str = 'batch/sql') -> Schema:
    if database in _cache:
        return _cache[database]
    sch = Schema()
    for s in sf.migration_list(database):
        rel = f'{sql_dir}/{s}'
        if s.endswith('.py'):
            sch.apply_py(rel)
            continue
        src = read_repo(rel)
        pos = 0
        # the statement splitter is the expensive part: only scripts that can change the foreign-key graph, or - once the v3 aggregates
        # exist - remove rows at top level, are split
        ddl = _DDL_HINT.search(src) is not None
        dml = 'aggregated_job_resources_v3' in sch.tables and _DML_HINT.search(src) is not None
        if not ddl and not dml:
            continue
        for stmt in sf.split_sql_script(src):
            body = sf._strip_leading_comments(stmt)
            k = src.find(body[:120], pos) if body else -1
            line = src[:k].count('\n') + 1 if k >= 0 else 1
            if k >= 0:
                pos = k
            if sf._HEAD_RE.match(body):
                # under a non-';' DELIMITER `DROP TRIGGER ..; CREATE TRIGGER .. END` arrives as one chunk: routine bodies carry no DDL
                continue
            if ';' in body:
                for part in sf.split_sql_script(body):
                    p2 = sf._strip_leading_comments(part)
                    if sf._HEAD_RE.match(p2):
                        break
                    sch.apply_sql(p2, rel, line + body[:max(body.find(p2[:60]), 0)].count('\n'))
            else:
                sch.apply_sql(body, rel, line)
    if 'attempts' not in sch.tables or 'attempt_resources' not in sch.tables:
        raise AnalysisError('schema replay: attempts / attempt_resources are not created by the migration list (anchor vanished)')
    _cache[database] = sch
    return sch
