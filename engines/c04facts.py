"""Facts for rules/c04.py (and reusable by rules/c10.py): idiom-insensitive resolution helpers.

Part 1 (SQL)    RoutineLocals: see through `SET v = <pure expression>` locals (a boolean local holding a test, a local holding a
                bound) at a use site, when the SET provably executes before the use on every path and its operands do not change
                afterwards.  walk_guarded: sf.guarded_statements that also yields the IF statements themselves.
Part 2 (Python) string_values / param_values: the string values an expression can take, through locals, conditional expressions,
                module-level constants, dict-literal lookups and module-level helper functions all of whose returns are enumerable
                (engines/callsites.py stops at the first call).
                BranchFacts: which facts about the result row of a stored-procedure call (`rc == 0`, `old_state` not terminal)
                an edge of a test establishes, whatever the spelling (renamed result local, `==`/`!=`/truthiness, `in`/`not in`,
                and/or/not, a local holding the test, a one-line predicate helper); tests that mention the result in a form that is
                not understood are reported as such (the caller declines instead of judging).
Nothing here imports or runs repository code.
"""
from __future__ import annotations

import ast
import copy
from typing import Callable, Dict, Iterator, List, Optional, Sequence, Set, Tuple

from . import pyfacts as pf
from . import sqlfront as sf
from .common import AnalysisError
from .sqlast import N, text

# ======================================================================================================
# Part 1: SQL locals
# ======================================================================================================

Guard = Tuple[Tuple[N, bool], ...]
_PURE_FUNCS = {'COALESCE', 'IFNULL', 'IF', 'NULLIF', 'GREATEST', 'LEAST', 'ABS', 'CAST', 'CONVERT', 'LOWER', 'UPPER', 'CONCAT'}


def walk_guarded(body: Sequence[N], guard: Guard = ()) -> Iterator[Tuple[N, Guard]]:
    """sf.guarded_statements, but IF statements are yielded too (with the path condition under which their first predicate is evaluated)."""
    extra: Guard = ()
    for st in body:
        g = guard + extra
        if st.kind == 'if':
            yield st, g
            neg: Guard = ()
            single_exit = len(st.branches) == 1 and st.orelse is None and sf._always_exits(st.branches[0][1])
            for c, b in st.branches:
                yield from walk_guarded(b, g + neg + ((c, True),))
                neg = neg + ((c, False),)
            if st.orelse is not None:
                yield from walk_guarded(st.orelse, g + neg)
            if single_exit:
                extra = extra + ((st.branches[0][0], False),)
            elif st.orelse is None and st.branches and all(sf._always_exits(b) for _, b in st.branches):
                extra = extra + neg
        elif st.kind in ('loop', 'while', 'block'):
            yield st, g
            yield from walk_guarded(st.body, g)
        else:
            yield st, g


def _gset(g: Guard) -> Set[Tuple[int, bool]]:
    return {(id(c), p) for c, p in g}


class RoutineLocals:
    """Single-assignment `SET v = e` locals of one routine and the sites at which they may be replaced by e."""

    def __init__(self, routine: N):
        self.routine = routine
        self.params = {p[1].lower() for p in getattr(routine, 'params', [])}
        self.order: Dict[int, int] = {}
        self.guard: Dict[int, Guard] = {}
        self.cond_owner: Dict[int, N] = {}
        self.in_loop: Set[int] = set()
        for i, (st, g) in enumerate(walk_guarded(routine.body)):
            self.order[id(st)] = i
            self.guard[id(st)] = g
            if st.kind == 'if':
                for c, _ in st.branches:
                    self.cond_owner[id(c)] = st
            if st.kind in ('loop', 'while'):
                for x in sf.all_statements(st.body):
                    self.in_loop.add(id(x))
        # every assignment of every variable: (order, statement, value or None when opaque)
        self.assigns: Dict[str, List[Tuple[int, N, Optional[N]]]] = {}

        def add(v: str, st: N, val: Optional[N]) -> None:
            self.assigns.setdefault(v.lower(), []).append((self.order.get(id(st), -1), st, val))
        for st in sf.all_statements(routine.body):
            if st.kind == 'declare':
                if getattr(st, 'default', None) is not None:
                    for nm in st.names:
                        add(nm, st, None)
            elif st.kind == 'set':
                for t, v in st.assigns:
                    if t.kind == 'col' and len(t.parts) == 1:
                        add(t.parts[0], st, v)
            elif st.kind == 'select' and st.into:
                for t in st.into:
                    if t.kind == 'col' and len(t.parts) == 1:
                        add(t.parts[0], st, None)
            elif st.kind == 'fetch':
                for t in (st.into or []):
                    if t.kind == 'col' and len(t.parts) == 1:
                        add(t.parts[0], st, None)
            elif st.kind == 'call':
                # OUT / INOUT arguments are assignments; the modes of the callee are not known here: every bare variable argument counts
                for a in st.args:
                    if a.kind == 'col' and len(a.parts) == 1 and a.parts[0].lower() not in self.params:
                        add(a.parts[0], st, None)

    def _pure(self, e: N) -> bool:
        for n in e.walk():
            if n.kind in ('subq', 'exists', 'select', 'uvar', 'param', 'hole', 'values_fn', 'over'):
                return False
            if n.kind == 'func' and n.name.upper() not in _PURE_FUNCS:
                return False
        return True

    def definition(self, var: str, use: N) -> Optional[N]:
        """The expression `var` provably holds when statement `use` runs, or None."""
        var = var.lower()
        a = self.assigns.get(var, [])
        if len(a) != 1 or var in self.params:
            return None
        pos, st, val = a[0]
        if val is None or st.kind != 'set' or id(st) in self.in_loop or not self._pure(val):
            return None
        upos = self.order.get(id(use))
        if upos is None or pos < 0 or not pos < upos:
            return None
        if not _gset(self.guard[id(st)]) <= _gset(self.guard[id(use)]):
            return None  # the SET does not run on every path that reaches the use
        for n in val.walk():
            if n.kind == 'col':
                if len(n.parts) != 1:
                    return None
                nm = n.parts[0].lower()
                if nm == var:
                    return None
                if any(p >= pos or p < 0 for p, _, _ in self.assigns.get(nm, [])):
                    return None  # an operand is (re)assigned after the SET
        return val

    def expand(self, e: N, use: N, depth: int = 3) -> N:
        """e with SET-locals replaced by their definitions (valid at statement `use`)."""
        if depth <= 0:
            return e

        def repl(n: N) -> Optional[N]:
            if n.kind == 'col' and len(n.parts) == 1:
                d = self.definition(n.parts[0], use)
                if d is not None:
                    return self.expand(d, use, depth - 1)
            return None
        return sf.subst(e, repl)

    def expand_guard(self, guard: Guard) -> Guard:
        out = []
        for c, pol in guard:
            owner = self.cond_owner.get(id(c))
            out.append((self.expand(c, owner) if owner is not None else c, pol))
        return tuple(out)

    def opaque_locals(self, e: N) -> Set[str]:
        """non-parameter variables of e that are assigned by SET somewhere (their value is a computed one we could not substitute)."""
        out = set()
        for n in e.walk():
            if n.kind == 'col' and len(n.parts) == 1:
                nm = n.parts[0].lower()
                if nm not in self.params and any(st.kind == 'set' for _, st, _ in self.assigns.get(nm, [])):
                    out.add(nm)
        return out


def _is_var(e: N) -> bool:
    return e.kind == 'col' and len(e.parts) == 1


def job_key(where: Optional[N], quals: Optional[Set[str]] = None) -> Optional[Tuple[str, str]]:
    """(X, Y) when the conjuncts contain `batch_id = X AND job_id = Y` on the jobs row (X, Y bare variables / parameters); either operand order."""
    found: Dict[str, str] = {}
    for c in sf.conjuncts(where):
        if c.kind != 'bin' or c.op != '=':
            continue
        for a, b in ((c.left, c.right), (c.right, c.left)):
            if a.kind == 'col' and a.parts[-1].lower() in ('batch_id', 'job_id') and _is_var(b) and b.parts[0].lower() not in ('batch_id', 'job_id'):
                if len(a.parts) > 1 and quals is not None and a.parts[-2].lower() not in quals:
                    continue
                found.setdefault(a.parts[-1].lower(), b.parts[0].lower())
    if 'batch_id' in found and 'job_id' in found:
        return found['batch_id'], found['job_id']
    return None


# ======================================================================================================
# Part 2: Python
# ======================================================================================================

def _module_func(m: pf.Module, name: str) -> Optional[pf.FuncDef]:
    for f in m.tree.body:
        if isinstance(f, (ast.FunctionDef, ast.AsyncFunctionDef)) and f.name == name:
            return f
    return None


def _module_const(m: pf.Module, name: str) -> Optional[ast.expr]:
    vals = []
    for st in m.tree.body:
        if isinstance(st, ast.Assign) and any(isinstance(t, ast.Name) and t.id == name for t in st.targets):
            vals.append(st.value)
        elif isinstance(st, ast.AnnAssign) and isinstance(st.target, ast.Name) and st.target.id == name and st.value is not None:
            vals.append(st.value)
    # assigned exactly once at module level and never rebound through `global`
    if len(vals) != 1:
        return None
    for n in ast.walk(m.tree):
        if isinstance(n, ast.Global) and name in n.names:
            return None
    return vals[0]


def _falls_through(fn: pf.FuncDef) -> bool:
    g = pf.cfg(fn)
    return any(p.kind != 'return' for p, _ in g.exit.pred)


def string_values(m: pf.Module, fn: Optional[pf.FuncDef], e: ast.expr, depth: int = 3) -> Optional[Set[str]]:
    """All string values e can take when every reaching definition is enumerable; None otherwise."""
    s = pf.const_str(e)
    if s is not None:
        return {s}
    if depth <= 0:
        return None
    if isinstance(e, ast.IfExp):
        a, b = string_values(m, fn, e.body, depth), string_values(m, fn, e.orelse, depth)
        return None if a is None or b is None else a | b
    if isinstance(e, ast.Name):
        defs = pf.assignments(fn).get(e.id, []) if fn is not None else []
        if not defs:
            c = _module_const(m, e.id)
            return string_values(m, None, c, depth - 1) if c is not None else None
        out: Set[str] = set()
        for d in defs:
            if isinstance(d, ast.arg) or not isinstance(d, ast.expr):
                return None
            v = string_values(m, fn, d, depth - 1) if not (isinstance(d, ast.Name) and d.id == e.id) else None
            if v is None:
                return None
            out |= v
        return out
    if isinstance(e, ast.Subscript):
        d = e.value
        if isinstance(d, ast.Name) and (fn is None or d.id not in pf.assignments(fn)):
            d = _module_const(m, d.id)
        elif isinstance(d, ast.Name) and fn is not None:
            d = pf.single_def(fn, d.id)
        if isinstance(d, ast.Dict) and d.keys and all(k is not None for k in d.keys):
            out = set()
            for v in d.values:
                sv = string_values(m, fn, v, depth - 1)
                if sv is None:
                    return None
                out |= sv
            return out
        return None
    if isinstance(e, ast.Await):
        e = e.value
    if isinstance(e, ast.Call) and isinstance(e.func, ast.Name):
        h = _module_func(m, e.func.id)
        if h is None or h.decorator_list or (fn is not None and e.func.id in pf.assignments(fn)):
            return None
        if any(isinstance(x, (ast.Yield, ast.YieldFrom)) for x in pf.walk_shallow(h)) or _falls_through(h):
            return None
        rets = [r for r in pf.walk_shallow(h) if isinstance(r, ast.Return)]
        if not rets:
            return None
        out = set()
        for r in rets:
            if r.value is None:
                return None
            v = string_values(m, h, r.value, depth - 1)
            if v is None:
                return None
            out |= v
        return out
    return None


def _arg_of(call: ast.Call, fn_def: pf.FuncDef, param: str) -> Optional[ast.expr]:
    names = [a.arg for a in fn_def.args.posonlyargs + fn_def.args.args]
    if param in names:
        i = names.index(param)
        if i < len(call.args) and not any(isinstance(a, ast.Starred) for a in call.args[: i + 1]):
            return call.args[i]
    for k in call.keywords:
        if k.arg == param:
            return k.value
    return None


def param_values(dirs: Sequence[str], module: pf.Module, fn: pf.FuncDef, param: str, depth: int = 2) -> Tuple[Set[str], List[str]]:
    """String values reaching parameter `param` of fn over all call sites by name (following forwarding of a caller's own parameter).
    AnalysisError when a site is not resolvable."""
    from . import callsites as cs
    vals: Set[str] = set()
    sites: List[str] = []
    for m, cfn, call in cs.call_sites(dirs, fn.name):
        a = _arg_of(call, fn, param)
        if a is None:
            raise AnalysisError(f'{m.rel}:{call.lineno}: cannot find argument for {fn.name}({param})')
        v = string_values(m, cfn, a)
        if v is None and cfn is not None:
            r = pf.resolve_expr(cfn, a)
            if isinstance(r, ast.Name) and depth > 0 and r.id in [x.arg for x in cfn.args.posonlyargs + cfn.args.args + cfn.args.kwonlyargs] \
                    and len(pf.assignments(cfn).get(r.id, [])) == 1:
                v2, s2 = param_values(dirs, m, cfn, r.id, depth - 1)
                vals |= v2
                sites += s2
                continue
        if v is None:
            raise AnalysisError(f'{m.rel}:{call.lineno}: value passed for {fn.name}({param}) is not a resolvable string literal: {pf.nsrc(a)}')
        vals |= v
        sites.append(f'{m.rel}::{m.qualname(cfn) if cfn else "<module>"} -> {sorted(v)}')
    if not sites:
        raise AnalysisError(f'no call sites of {fn.name} found')
    return vals, sites


def result_local(mod: pf.Module, fn: pf.FuncDef, proc: str) -> Tuple[ast.Call, str]:
    """(the execute-style call running `CALL <proc>(..)` in fn, the local its result row is bound to)."""
    from .sqlast import SqlParseError, parse_statements
    hits = []
    # (sf.embedded_in caches per file path: an inlined copy of the module has to be scanned directly)
    for c in ast.walk(fn):
        if isinstance(c, ast.Call) and isinstance(c.func, ast.Attribute) and c.func.attr in sf.EXEC_METHODS and c.args:
            sql, _holes, _how = sf._sql_of_expr(fn, c.args[0])
            if sql is None or 'call' not in sql.lower():
                continue
            try:
                sts = parse_statements(sql)
            except SqlParseError:
                continue
            if len(sts) == 1 and sts[0].kind == 'call' and sts[0].name.lower() == proc.lower():
                hits.append(c)
    if len(hits) != 1:
        raise AnalysisError(f'{mod.rel}::{fn.name}: expected exactly one CALL {proc}, found {len(hits)}')
    call = hits[0]
    for n in pf.walk_shallow(fn):
        if isinstance(n, (ast.Assign, ast.AnnAssign)) and n.value is not None and any(x is call for x in ast.walk(n.value)):
            tg = n.targets if isinstance(n, ast.Assign) else [n.target]
            v = n.value.value if isinstance(n.value, ast.Await) else n.value
            if len(tg) == 1 and isinstance(tg[0], ast.Name) and v is call:
                if len(pf.assignments(fn).get(tg[0].id, [])) != 1:
                    raise AnalysisError(f'{mod.rel}::{fn.name}: the result local `{tg[0].id}` of CALL {proc} is assigned more than once')
                return call, tg[0].id
    raise AnalysisError(f'{mod.rel}::{fn.name}: the result row of CALL {proc} is not bound to a local')


class BranchFacts:
    """Facts about the result row `rv` of a stored-procedure call established by the edges of the tests of fn.

    fact 'accepted'  : rv['rc'] == 0
    fact 'live'      : rv['old_state'] is none of the terminal states
    """

    def __init__(self, mod: pf.Module, fn: pf.FuncDef, rv: str, terminal: Set[str], named_collections: Dict[str, Set[str]]):
        """named_collections: imported names -> the members of the collection they denote (resolved by the caller)."""
        self.mod, self.fn, self.rv, self.terminal, self.named = mod, fn, rv, set(terminal), dict(named_collections)
        # names whose value derives from the result row
        self.tainted: Set[str] = {rv}
        asg = pf.assignments(fn)
        changed = True
        while changed:
            changed = False
            for nm, vals in asg.items():
                if nm in self.tainted:
                    continue
                if any(not isinstance(v, ast.arg) and (pf.names_in(v) & self.tainted) for v in vals):
                    self.tainted.add(nm)
                    changed = True

    # ---- shapes ------------------------------------------------------------------------------------------
    def _field(self, e: ast.AST) -> Optional[str]:
        """rv['k'] / rv.get('k') / rv.get('k', <constant>)  ->  'k'."""
        if isinstance(e, ast.Subscript) and isinstance(e.value, ast.Name) and e.value.id == self.rv:
            return pf.const_str(e.slice)
        if isinstance(e, ast.Call) and isinstance(e.func, ast.Attribute) and e.func.attr == 'get' and isinstance(e.func.value, ast.Name) and e.func.value.id == self.rv \
                and not e.keywords and 1 <= len(e.args) <= 2 and all(isinstance(a, ast.Constant) for a in e.args):
            return pf.const_str(e.args[0])
        return None

    def _collection(self, e: ast.AST) -> Optional[Set[str]]:
        if isinstance(e, ast.Name):
            if e.id in self.named and e.id not in pf.assignments(self.fn):
                return set(self.named[e.id])
            c = _module_const(self.mod, e.id) if e.id not in pf.assignments(self.fn) else pf.single_def(self.fn, e.id)
            return self._collection(c) if isinstance(c, (ast.Tuple, ast.List, ast.Set)) else None
        if isinstance(e, (ast.Tuple, ast.List, ast.Set)):
            vals = [pf.const_str(x) for x in e.elts]
            return None if any(v is None for v in vals) else set(vals)  # type: ignore[arg-type]
        return None

    def _helper_body(self, e: ast.AST) -> Optional[ast.expr]:
        """`pred(a, b)` with module-level `def pred(x, y): return <expr>` -> <expr> with the arguments substituted."""
        if not (isinstance(e, ast.Call) and isinstance(e.func, ast.Name) and not e.keywords and not any(isinstance(a, ast.Starred) for a in e.args)):
            return None
        h = _module_func(self.mod, e.func.id)
        if h is None or isinstance(h, ast.AsyncFunctionDef) or h.decorator_list or h.args.vararg or h.args.kwarg or h.args.kwonlyargs or h.args.posonlyargs:
            return None
        body = [s for s in h.body if not (isinstance(s, ast.Expr) and isinstance(s.value, ast.Constant))]
        if len(body) != 1 or not isinstance(body[0], ast.Return) or body[0].value is None or len(h.args.args) != len(e.args):
            return None
        if not all(isinstance(a, (ast.Name, ast.Constant, ast.Subscript)) for a in e.args):
            return None
        mp = {p.arg: a for p, a in zip(h.args.args, e.args)}

        class _S(ast.NodeTransformer):
            def visit_Name(self, node: ast.Name):
                return copy.deepcopy(mp[node.id]) if node.id in mp and isinstance(node.ctx, ast.Load) else node

            def visit_Lambda(self, node):
                return node
        return _S().visit(copy.deepcopy(body[0].value))

    def atom(self, e: ast.expr, pol: bool, depth: int = 2) -> Tuple[Set[str], bool]:
        """(facts established when atom e has truth value pol, understood?).  An atom that does not mention the result row is understood
        and establishes nothing."""
        x = pf.expand_locals(self.fn, e)
        if not (pf.names_in(x) & self.tainted) and not (pf.names_in(e) & self.tainted):
            return set(), True
        if self._field(x) is not None:
            # truthiness of a field
            f = self._field(x)
            if f == 'rc':
                return ({'accepted'} if not pol else set()), True
            return set(), f != 'old_state'
        if isinstance(x, ast.Compare) and len(x.ops) == 1:
            l, op, r = x.left, x.ops[0], x.comparators[0]
            if isinstance(op, (ast.Eq, ast.NotEq)):
                if self._field(r) is not None and self._field(l) is None:
                    l, r = r, l
                f = self._field(l)
                if f == 'rc' and isinstance(r, ast.Constant) and isinstance(r.value, int) and not isinstance(r.value, bool):
                    eq = isinstance(op, ast.Eq) == pol
                    return ({'accepted'} if (eq and r.value == 0) else set()), True
                if f == 'old_state' and pf.const_str(r) is not None:
                    eq = isinstance(op, ast.Eq) == pol
                    return ({'live'} if (eq and pf.const_str(r) not in self.terminal) else set()), True
                if f is not None and f not in ('rc', 'old_state') and not (pf.names_in(r) & self.tainted):
                    return set(), True
            if isinstance(op, (ast.In, ast.NotIn)) and self._field(l) == 'old_state':
                coll = self._collection(r)
                if coll is not None:
                    member = isinstance(op, ast.In) == pol
                    if member:
                        return ({'live'} if not (coll & self.terminal) else set()), True
                    return ({'live'} if coll >= self.terminal else set()), True
            if isinstance(op, (ast.Lt, ast.LtE, ast.Gt, ast.GtE, ast.Eq, ast.NotEq, ast.Is, ast.IsNot)):
                fl, fr = self._field(l), self._field(r)
                others = (pf.names_in(l) | pf.names_in(r)) & self.tainted
                if (fl or fr) and fl not in ('rc', 'old_state') and fr not in ('rc', 'old_state') and others <= {self.rv}:
                    return set(), True  # a comparison of another field of the row (delta_cores_mcpu ...)
        if depth > 0:
            inl = self._helper_body(x)
            if inl is not None:
                fs, ok = self.expr(inl, pol, depth - 1)
                return fs, ok
        return set(), False

    def expr(self, e: ast.expr, pol: bool, depth: int = 2) -> Tuple[Set[str], bool]:
        """facts established by e having truth value pol; understood = every atom that mentions the result row was recognised."""
        x = e
        if isinstance(x, ast.Name):
            x2 = pf.expand_locals(self.fn, x)
            if x2 is not x and isinstance(x2, (ast.BoolOp, ast.UnaryOp, ast.Compare)):
                x = x2
        if isinstance(x, ast.UnaryOp) and isinstance(x.op, ast.Not):
            return self.expr(x.operand, not pol, depth)
        if isinstance(x, ast.BoolOp):
            conj = isinstance(x.op, ast.And)
            if conj == pol:
                # every operand has truth value pol
                facts: Set[str] = set()
                ok = True
                for v in x.values:
                    f, u = self.expr(v, pol, depth)
                    facts |= f
                    ok = ok and u
                return facts, ok
            # at least one operand has truth value pol: only facts common to all operands hold
            parts = [self.expr(v, pol, depth) for v in x.values]
            common = set.intersection(*[p[0] for p in parts]) if parts else set()
            return common, all(p[1] for p in parts)
        return self.atom(x, pol, depth)

    def edge(self, n: pf.Node, label: str) -> Tuple[Set[str], bool]:
        if n.kind != 'test' or not isinstance(n.ast, ast.expr) or label not in ('T', 'F'):
            return set(), True
        return self.expr(n.ast, label == 'T')


def unestablished_path(g: pf.CFG, bf: BranchFacts, goal: pf.Node, fact: str, strict: bool) -> Optional[List[pf.Node]]:
    """A path entry -> goal along which no test edge establishes `fact`.
    strict=True : only edges that are fully understood are followed and no exceptional edge - a path found is positive evidence;
    strict=False: edges through tests that are not understood and exceptional edges are followed too - a path found only here means "cannot decide"."""
    prev: Dict[int, Optional[pf.Node]] = {g.entry.id: None}
    queue = [g.entry]
    while queue:
        n = queue.pop(0)
        for m, lab in n.succ:
            if m.id in prev:
                continue
            facts, understood = bf.edge(n, lab)
            if fact in facts:
                continue
            if strict and (not understood or lab == 'exc'):
                continue
            prev[m.id] = n
            if m is goal:
                path = [m]
                cur: Optional[pf.Node] = n
                while cur is not None:
                    path.append(cur)
                    cur = prev[cur.id]
                return list(reversed(path))
            queue.append(m)
    return None
