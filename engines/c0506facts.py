"""Python-side facts for C05 / C06 (static analysis only; nothing is imported or executed).

  part 1  scheduler selections: the job queries a scheduler's `user_runnable_jobs` issues per running job group, seen THROUGH helper
          closures / methods: a query text that became a parameterised template is instantiated per call site (Python constants
          propagated into `%s` parameters and into f-string holes); which (always_run, cancelled, state) classes of jobs an
          instantiation may select is decided by a truth table over those three atoms (sqleval.may), under which group-cancelled
          flag valuations it runs by a three-valued evaluation of the enclosing guards.
  part 2  lossless flow of the parent-id lists of a job spec (absolute / in-update id space) from the request body to the
          job_parents rows and the n_pending_parents count: a small abstract domain of list expressions (source, shift, dedup
          with its memory scope, filter, slice) evaluated over the validator's clean-up functions and `_create_jobs`.
  part 3  provenance of reported batch / job-group status: what the record -> dict converters are fed with, and what a reader
          function returns, must come from a database query executed by the same invocation - never from state that outlives it.
"""
from __future__ import annotations

import ast
import copy
import os
from typing import Any, Dict, List, Optional, Sequence, Set, Tuple

from . import pyfacts as pf
from . import sqlfront as sf
from . import sqlrules as sr
from .common import AnalysisError, repo_path
from .sqlast import N, SqlParseError, parse_statements, text
from .sqleval import UNKNOWN, may

FuncDef = pf.FuncDef


# ======================================================================================
# shared: substitution of names, resolution of local callables
# ======================================================================================


class _Subst(ast.NodeTransformer):
    def __init__(self, env: Dict[str, ast.expr]):
        self.env = env

    def visit_Name(self, node: ast.Name):
        if isinstance(node.ctx, ast.Load) and node.id in self.env:
            return copy.deepcopy(self.env[node.id])
        return node

    def visit_Lambda(self, node):
        return node


def subst_names(e: ast.expr, env: Dict[str, ast.expr]) -> ast.expr:
    if not env:
        return e
    return _Subst(env).visit(copy.deepcopy(e))


def enclosing_funcs(m: pf.Module, node: ast.AST) -> List[FuncDef]:
    out = []
    par = m.parents()
    cur = par.get(node)
    while cur is not None:
        if isinstance(cur, (ast.FunctionDef, ast.AsyncFunctionDef)):
            out.append(cur)
        cur = par.get(cur)
    return out


def enclosing_class(m: pf.Module, node: ast.AST) -> Optional[ast.ClassDef]:
    par = m.parents()
    cur = par.get(node)
    while cur is not None:
        if isinstance(cur, ast.ClassDef):
            return cur
        cur = par.get(cur)
    return None


_assign_cache: Dict[int, Tuple[ast.AST, Dict[str, List[ast.AST]]]] = {}
_defs_cache: Dict[int, Tuple[ast.AST, Dict[str, FuncDef]]] = {}


def assignments(fn: FuncDef) -> Dict[str, List[ast.AST]]:
    """pf.assignments, remembered per function node."""
    hit = _assign_cache.get(id(fn))
    if hit is None or hit[0] is not fn:
        hit = (fn, pf.assignments(fn))
        _assign_cache[id(fn)] = hit
    return hit[1]


def _defs_directly_in(scope: ast.AST) -> Dict[str, FuncDef]:
    hit = _defs_cache.get(id(scope))
    if hit is None or hit[0] is not scope:
        hit = (scope, {d.name: d for d in pf._body_defs(scope) if isinstance(d, (ast.FunctionDef, ast.AsyncFunctionDef))})
        _defs_cache[id(scope)] = hit
    return hit[1]


def resolve_callable(m: pf.Module, fn: FuncDef, call: ast.Call) -> Optional[FuncDef]:
    """The function a call in `fn` refers to when that is decidable from scoping: a def nested in fn or in one of the functions
    enclosing fn (closure), a method of the enclosing class called on `self`, or a module-level function.  A name that is also
    assigned (re-bound) in the scope where it would be found is not resolved."""
    f = call.func
    if isinstance(f, ast.Name):
        for scope in [fn] + enclosing_funcs(m, fn):
            if f.id in assignments(scope):
                return None
            d = _defs_directly_in(scope).get(f.id)
            if d is not None:
                return d
        d = _defs_directly_in(m.tree).get(f.id)
        return d
    if isinstance(f, ast.Attribute) and isinstance(f.value, ast.Name) and f.value.id in ('self', 'cls'):
        c = enclosing_class(m, fn)
        if c is not None:
            for d in c.body:
                if isinstance(d, (ast.FunctionDef, ast.AsyncFunctionDef)) and d.name == f.attr:
                    return d
    return None


def bind_args(callee: FuncDef, call: ast.Call, is_method: bool) -> Optional[Dict[str, ast.expr]]:
    """formal -> actual expression (defaults included); None when the call uses *args / **kwargs or does not fit."""
    a = callee.args
    if a.vararg or a.kwarg or any(isinstance(x, ast.Starred) for x in call.args) or any(k.arg is None for k in call.keywords):
        return None
    formals = [x.arg for x in a.posonlyargs + a.args]
    if is_method and formals:
        formals = formals[1:]
    if len(call.args) > len(formals):
        return None
    env: Dict[str, ast.expr] = {}
    for name, v in zip(formals, call.args):
        env[name] = v
    kwonly = [x.arg for x in a.kwonlyargs]
    for k in call.keywords:
        if k.arg in env or (k.arg not in formals and k.arg not in kwonly):
            return None
        env[k.arg] = k.value
    pos_defaults = dict(zip(reversed([x.arg for x in a.posonlyargs + a.args]), reversed(a.defaults)))
    for name in formals:
        if name not in env:
            if name not in pos_defaults:
                return None
            env[name] = pos_defaults[name]
    for x, d in zip(a.kwonlyargs, a.kw_defaults):
        if x.arg not in env:
            if d is None:
                return None
            env[x.arg] = d
    return env


# -- scopes: which function binds a name; single definitions through closures and module-level constants ------------------------
def scope_chain(m: pf.Module, fn: Optional[FuncDef]) -> List[FuncDef]:
    return ([fn] + enclosing_funcs(m, fn)) if fn is not None else []


def binding_scope(m: pf.Module, fn: Optional[FuncDef], name: str) -> Optional[FuncDef]:
    """The function whose local `name` is when read in fn (innermost scope that assigns it); None = module level / builtin."""
    for s in scope_chain(m, fn):
        if name in assignments(s):
            return s
    return None


_rebound_cache: Dict[int, Tuple[ast.AST, Set[str]]] = {}


def _rebound_elsewhere(m: pf.Module, holder: Optional[FuncDef], name: str) -> bool:
    """Is `name` of scope `holder` re-bound from a nested function (nonlocal / global)?"""
    root: ast.AST = holder if holder is not None else m.tree
    hit = _rebound_cache.get(id(root))
    if hit is None or hit[0] is not root:
        names: Set[str] = set()
        for n in ast.walk(root):
            if isinstance(n, (ast.Nonlocal, ast.Global)):
                names |= set(n.names)
        hit = (root, names)
        _rebound_cache[id(root)] = hit
    return name in hit[1]


def module_const(m: pf.Module, name: str) -> Optional[ast.expr]:
    """The value of a module-level name that is assigned exactly once at module level and never re-bound through `global`."""
    vals = []
    for st in m.tree.body:
        if isinstance(st, ast.Assign):
            for t in st.targets:
                for x in ast.walk(t):
                    if isinstance(x, ast.Name) and x.id == name:
                        vals.append(st.value if isinstance(t, ast.Name) else None)
        elif isinstance(st, ast.AnnAssign) and isinstance(st.target, ast.Name) and st.target.id == name:
            vals.append(st.value)
        elif isinstance(st, (ast.AugAssign,)) and isinstance(st.target, ast.Name) and st.target.id == name:
            vals.append(None)
        elif isinstance(st, (ast.FunctionDef, ast.AsyncFunctionDef, ast.ClassDef)) and st.name == name:
            vals.append(None)
        elif isinstance(st, (ast.If, ast.Try, ast.With, ast.For, ast.While)):
            if any(isinstance(x, ast.Name) and x.id == name and isinstance(x.ctx, ast.Store) for x in ast.walk(st) if not isinstance(x, (ast.FunctionDef, ast.AsyncFunctionDef, ast.Lambda))):
                # assigned conditionally at module level (nested defs are judged by the `global` scan below)
                if any(isinstance(x, ast.Name) and x.id == name and isinstance(x.ctx, ast.Store) for x in pf.walk_shallow(st)):
                    vals.append(None)
    if len(vals) != 1 or vals[0] is None or _rebound_elsewhere(m, None, name):
        return None
    return vals[0]


def single_def(m: pf.Module, fn: Optional[FuncDef], name: str) -> Tuple[Optional[FuncDef], Optional[ast.AST]]:
    """(holder scope, the unique defining node) of `name` as read in fn: locals, closure variables of enclosing functions, module-level
    constants.  (None, None) when the name has several definitions or none that can be followed."""
    s = binding_scope(m, fn, name)
    if s is not None:
        defs = assignments(s).get(name, [])
        if len(defs) == 1 and not _rebound_elsewhere(m, s, name):
            return s, defs[0]
        return s, None
    v = module_const(m, name)
    return None, v


# -- SQL text of an execute-style call followed through module-level constants / variables of enclosing functions ---------------
def followed_sql_text(m: pf.Module, fn: Optional[FuncDef], e: ast.expr, depth: int = 0) -> Tuple[Optional[str], List[ast.expr], str]:
    t, holes, how = sf._sql_of_expr(fn, e)
    if t is not None or depth > 2:
        return t, holes, how
    if isinstance(e, ast.Name):
        holder, d = single_def(m, fn, e.id)
        if isinstance(d, ast.expr) and not isinstance(d, ast.Await):
            t, holes, how = followed_sql_text(m, holder, d, depth + 1)
            if t is not None:
                return t, holes, ('variable' if how == 'literal' else how)
    return None, [], 'opaque'


def args_node(call: ast.Call) -> Optional[ast.expr]:
    """The argument tuple / rows of an execute-style call: second positional argument, or the keyword `args` / `args_array`."""
    if len(call.args) > 1:
        return call.args[1]
    for k in call.keywords:
        if k.arg in ('args', 'args_array'):
            return k.value
    return None


# -- path guards: enclosing ifs AND guard clauses ------------------------------------------------------------------------
EXITS = (ast.Continue, ast.Break, ast.Return, ast.Raise)


def exit_kind(stmts: Sequence[ast.stmt]) -> Optional[str]:
    """'continue' | 'break' | 'return' | 'raise' | 'mixed' when the block cannot fall through, else None."""
    if not stmts:
        return None
    last = stmts[-1]
    if isinstance(last, EXITS):
        return type(last).__name__.lower()
    if isinstance(last, ast.If) and last.orelse:
        a, b = exit_kind(last.body), exit_kind(last.orelse)
        if a and b:
            return a if a == b else 'mixed'
    if isinstance(last, (ast.With, ast.AsyncWith)):
        return exit_kind(last.body)
    return None


def path_guards(m: pf.Module, node: ast.AST, stop: ast.AST) -> List[Tuple[ast.expr, bool, str]]:
    """(test, polarity, kind) for every condition that must hold for `node` to be reached from the start of `stop`'s body in the same
    iteration / invocation: kind 'if' = an enclosing if (polarity = which arm), otherwise the exit kind of a guard clause in front of it
    (`if c: continue` gives (c, False, 'continue'); `if c: .. else: raise` gives (c, True, 'raise'))."""
    par = m.parents()
    out: List[Tuple[ast.expr, bool, str]] = []
    cur: ast.AST = node
    p = par.get(cur)
    while p is not None:
        for fld in ('body', 'orelse', 'finalbody'):
            b = getattr(p, fld, None)
            if isinstance(b, list) and any(cur is s for s in b):
                for s in b:
                    if s is cur:
                        break
                    if isinstance(s, ast.If):
                        kb, ke = exit_kind(s.body), exit_kind(s.orelse)
                        if kb and not ke:
                            out.append((s.test, False, kb))
                        elif ke and not kb:
                            out.append((s.test, True, ke))
                if isinstance(p, ast.If):
                    out.append((p.test, fld == 'body', 'if'))
        if isinstance(p, ast.ExceptHandler):
            pass
        if p is stop:
            break
        cur = p
        p = par.get(cur)
    return out


# ======================================================================================
# part 1: scheduler selections seen through helpers
# ======================================================================================


class QueryInst:
    """One SQL query as issued from one call site of the analysed function (helpers instantiated)."""

    def __init__(self, m: pf.Module, emb: sf.Embedded, env: Dict[str, ast.expr], guards: List[Tuple[ast.expr, bool]], site: ast.AST, chain: List[str], holder: FuncDef):
        self.m = m
        self.emb = emb
        self.env = env
        self.guards = guards          # (test with helper formals replaced by the actuals, polarity) from the outermost call site inwards
        self.site = site              # the node in the analysed function through which the query is reached
        self.chain = chain            # helper names, outermost first
        self.holder = holder          # the function that textually contains the execute call
        self._stmts: Optional[List[N]] = None
        self.problem: Optional[str] = None
        # the SQL text: sqlfront follows locals of the calling function only; a text held in a module-level constant or in a variable of an
        # enclosing function is followed here (the Embedded object itself is left untouched)
        self.sql_text, self.holes, self.how = emb.sql_text, emb.holes, emb.how
        if self.sql_text is None and emb.call.args:
            self.sql_text, self.holes, self.how = followed_sql_text(m, holder, emb.call.args[0])

    def stmts(self) -> List[N]:
        if self._stmts is None:
            e = self.emb
            sql = self.sql_text
            if sql is None:
                self._stmts, self.problem = [], 'the SQL text is not a literal'
                return self._stmts
            if self.how == 'fstring' and self.holes:
                # a hole bound - through the helper's parameters - to a string constant at this call site is spliced in
                for i, h in enumerate(self.holes):
                    v = const_value(self.holder, subst_names(h, self.env))
                    if not isinstance(v, str):
                        self._stmts, self.problem = [], f'the SQL text has a hole `{pf.nsrc(h)}` that is not bound to a string constant at this call site'
                        return self._stmts
                    sql = sql.replace(f' ⟦{i}⟧ ', f' {v} ')
                try:
                    self._stmts = parse_statements(sql)
                except SqlParseError as ex:
                    self._stmts, self.problem = [], f'instantiated SQL does not parse: {ex}'
            elif e.sql_text is not None:
                self._stmts = e.stmts()
                self.problem = e.parse_error
            else:
                try:
                    self._stmts = parse_statements(sql)
                except SqlParseError as ex:
                    self._stmts, self.problem = [], f'SQL does not parse: {ex}'
        return self._stmts

    def bound(self) -> Optional[Dict[int, ast.expr]]:
        """%s position -> Python expression (helper formals replaced by the call-site actuals)."""
        st = self.stmts()[0]
        elts = sr.args_tuple(self.holder, args_node(self.emb.call))
        params = sr.params_in_order(st)
        if elts is None or len(elts) != len(params):
            return None
        return {p.pos: subst_names(x, self.env) for p, x in zip(params, elts)}

    @property
    def lineno(self) -> int:
        return getattr(self.site, 'lineno', self.emb.lineno)


_UNK = object()


def const_value(fn: Optional[FuncDef], e: ast.expr) -> Any:
    """Python constant an expression denotes (through single-definition locals), or _UNK."""
    if isinstance(e, ast.Name) and fn is not None:
        e = pf.resolve_expr(fn, e)
    if isinstance(e, ast.Constant):
        return e.value
    if isinstance(e, ast.UnaryOp) and isinstance(e.op, ast.Not):
        v = const_value(fn, e.operand)
        return _UNK if v is _UNK else (not v)
    if isinstance(e, ast.UnaryOp) and isinstance(e.op, ast.USub) and isinstance(e.operand, ast.Constant) and isinstance(e.operand.value, (int, float)):
        return -e.operand.value
    return _UNK


def _has_queries(m: pf.Module, fn: FuncDef, seen: Set[int]) -> bool:
    if id(fn) in seen:
        return False
    seen.add(id(fn))
    if any(e.fn is fn for e in sf.embedded_in(m)):
        return True
    for c in pf.calls_in(fn):
        d = resolve_callable(m, fn, c)
        if d is not None and d is not fn and _has_queries(m, d, seen):
            return True
    return False


def collect_queries(m: pf.Module, top: FuncDef, max_depth: int = 3, guard_clauses: bool = False) -> List[QueryInst]:
    """Every embedded SQL query reachable from `top`, once per call path, with the helper parameters replaced by the actual
    arguments of that path and the `if` guards of every call site on the path."""
    out: List[QueryInst] = []

    def const_loops(fn: FuncDef, node: ast.AST) -> List[Dict[str, ast.expr]]:
        """`for flag in (True, False): <node>`: the finite valuations of loop variables that range over literal constants."""
        vals: List[Dict[str, ast.expr]] = [{}]
        for l in sr.enclosing_loops(m, node):
            if not any(l is x for x in pf.walk_shallow(fn)):
                continue
            if isinstance(l, ast.For) and isinstance(l.target, ast.Name) and isinstance(l.iter, (ast.Tuple, ast.List)) and l.iter.elts and all(isinstance(x, ast.Constant) for x in l.iter.elts) \
                    and len(assignments(fn).get(l.target.id, [])) == 1:
                vals = [dict(v, **{l.target.id: x}) for v in vals for x in l.iter.elts]
        if len(vals) > 16:
            raise AnalysisError(f'{m.rel}::{m.qualname(top)}: too many constant loop valuations around a query')
        return vals

    def rec(fn: FuncDef, env: Dict[str, ast.expr], guards: List[Tuple[ast.expr, bool]], site: Optional[ast.AST], chain: List[str], depth: int) -> None:
        embs = {id(e.call): e for e in sf.embedded_in(m) if e.fn is fn}
        for node in pf.walk_shallow(fn):
            if not isinstance(node, ast.Call):
                continue
            is_emb = id(node) in embs
            d = None
            if not is_emb:
                d = resolve_callable(m, fn, node)
                if d is None or d is fn or not _has_queries(m, d, set()):
                    continue
            for cenv in const_loops(fn, node):
                env_c = dict(env, **cenv)
                if guard_clauses:
                    # opt-in: enclosing ifs AND the guard clauses in front of the call (`if c: continue / return / raise` == the rest runs under `not c`)
                    here = [(subst_names(t_, env_c), pol_) for t_, pol_, _k in reversed(path_guards(m, node, fn))]
                else:
                    here = [(subst_names(i.test, env_c), inb) for i, inb in reversed(sr.enclosing_ifs(m, node, stop=fn))]
                # guard clauses `if c: continue` in front of the call, inside the constant loops
                if cenv:
                    for l in sr.enclosing_loops(m, node):
                        if isinstance(l, ast.For) and isinstance(l.target, ast.Name) and l.target.id in cenv:
                            for st in pf.walk_shallow(l):
                                if isinstance(st, ast.Continue) and st.lineno < node.lineno:
                                    for i, inb in sr.enclosing_ifs(m, st, stop=l):
                                        here.append((subst_names(i.test, env_c), not inb))
                if is_emb:
                    out.append(QueryInst(m, embs[id(node)], env_c, guards + here, site if site is not None else node, chain, fn))
                    continue
                if depth >= max_depth:
                    raise AnalysisError(f'{m.rel}::{m.qualname(top)}: queries are nested more than {max_depth} helper calls deep')
                is_method = isinstance(node.func, ast.Attribute)
                b = bind_args(d, node, is_method)
                if b is None:
                    raise AnalysisError(f'{m.rel}::{m.qualname(top)}: call `{pf.nsrc(node)[:80]}` of the query helper {d.name} does not bind its parameters positionally / by keyword')
                reassigned = [k for k in b if len(assignments(d).get(k, [])) > 1]
                if reassigned:
                    raise AnalysisError(f'{m.rel}::{d.name}: parameter(s) {reassigned} are re-assigned inside the query helper')
                env2 = {k: subst_names(v, env_c) for k, v in b.items()}
                rec(d, env2, guards + here, site if site is not None else node, chain + [d.name], depth + 1)
    rec(top, {}, [], None, [], 0)
    return out


def first_table(st: N) -> Optional[str]:
    if st.kind != 'select' or st.frm is None:
        return None
    names = sf.table_names(st.frm)
    return names[0].lower() if names else None


def guard3(test: ast.expr, pol: bool, fn: Optional[FuncDef], atom_src: Optional[str], atom_val: Optional[bool]) -> Optional[bool]:
    """Three-valued value of a Python guard: constants are folded, `atom_src` (normalised source of the group-cancelled flag read)
    has the value atom_val, everything else is unknown (None)."""
    alts = () if atom_src is None else ((atom_src,) if isinstance(atom_src, str) else tuple(atom_src))

    def ev(e: ast.expr) -> Optional[bool]:
        if alts and pf.nsrc(e) in alts:
            return atom_val
        if isinstance(e, ast.Call) and pf.dotted(e.func) == 'bool' and len(e.args) == 1 and not e.keywords:
            return ev(e.args[0])
        if isinstance(e, ast.UnaryOp) and isinstance(e.op, ast.Not):
            v = ev(e.operand)
            return None if v is None else (not v)
        if isinstance(e, ast.BoolOp):
            vs = [ev(x) for x in e.values]
            if isinstance(e.op, ast.And):
                if any(v is False for v in vs):
                    return False
                return True if all(v is True for v in vs) else None
            if any(v is True for v in vs):
                return True
            return False if all(v is False for v in vs) else None
        c = const_value(fn, e)
        if c is not _UNK:
            return bool(c)
        return None
    v = ev(test)
    return None if v is None else (v == pol)


class SchedulerFacts:
    """The selections of one scheduler `user_runnable_jobs`."""

    def __init__(self) -> None:
        self.group_inst: Optional[QueryInst] = None
        self.loop: Optional[ast.AST] = None
        self.loop_var: Optional[str] = None
        self.flag_col: Optional[str] = None
        self.walk_ok = False
        self.jobs: List[QueryInst] = []


STATES = ['Pending', 'Ready', 'Creating', 'Running', 'Success', 'Failed', 'Error', 'Cancelled']


def scheduler_facts(m: pf.Module, fn: FuncDef, what: str, guard_clauses: bool = False) -> SchedulerFacts:
    insts = collect_queries(m, fn, guard_clauses=guard_clauses)
    for q in insts:
        q.stmts()
        if q.problem:
            raise AnalysisError(f'{what}: query at line {q.emb.lineno}: {q.problem}')
    sel = [q for q in insts if q.stmts() and q.stmts()[0].kind == 'select']
    gq = [q for q in sel if first_table(q.stmts()[0]) == 'job_groups']
    jq = [q for q in sel if first_table(q.stmts()[0]) == 'jobs']
    if len(gq) != 1 or not jq:
        raise AnalysisError(f'{what}: job-group / job queries not recognised (job-group selects: {len(gq)}, job selects: {len(jq)}, helpers followed)')
    F = SchedulerFacts()
    F.group_inst, F.jobs = gq[0], jq
    g = gq[0]
    gsel = g.stmts()[0]
    lat = [(j, j.ref) for j in gsel.frm.joins if j.ref.kind == 'derived']
    if len(lat) != 1:
        raise AnalysisError(f'{what}: lateral cancelled lookup not found in the job-group query')
    jn, ref = lat[0]
    w = sr.ancestor_walk(ref.select)
    F.walk_ok = w is not None and text(w['batch']).lower() == 'job_groups.batch_id' and text(w['group']).lower() == 'job_groups.job_group_id' and jn.jtype == 'LEFT'
    for c, al in gsel.cols:
        if al and text(c).lower() == f'({ref.alias.lower()}.cancelled is not null)':
            F.flag_col = al
    # the loop over the running groups: the (async) for of the analysed function whose iterable is / contains the site of the group query
    par = m.parents()
    cur = par.get(g.site)
    loop = None
    node = g.site
    while cur is not None and cur is not fn:
        if isinstance(cur, (ast.For, ast.AsyncFor)) and any(node is x for x in ast.walk(cur.iter)):
            loop = cur
            break
        cur = par.get(cur)
    if loop is None or not isinstance(loop.target, ast.Name):
        raise AnalysisError(f'{what}: the job-group query is not the iterable of a `for <name> in ...` loop')
    if g.chain:
        # the groups come out of a generator helper: it must hand on the records of the query unchanged
        holder = g.holder
        ok = False
        for lp in pf.walk_shallow(holder):
            if isinstance(lp, (ast.For, ast.AsyncFor)) and any(g.emb.call is x for x in ast.walk(lp.iter)) and isinstance(lp.target, ast.Name):
                ys = [y for y in pf.walk_shallow(holder) if isinstance(y, (ast.Yield, ast.YieldFrom))]
                ok = bool(ys) and all(isinstance(y, ast.Yield) and isinstance(y.value, ast.Name) and y.value.id == lp.target.id for y in ys) \
                    and not any(isinstance(s, (ast.Assign, ast.AugAssign, ast.Delete)) and any(isinstance(t, ast.Subscript) and isinstance(t.value, ast.Name) and t.value.id == lp.target.id
                                                                                              for t in (s.targets if isinstance(s, (ast.Assign, ast.Delete)) else [s.target])) for s in pf.walk_shallow(holder))
        if not ok:
            raise AnalysisError(f'{what}: the running job groups are produced by the helper {holder.name}, which does not simply yield the records of its query')
    F.loop, F.loop_var = loop, loop.target.id
    for q in jq:
        if not any(loop is l for l in sr.enclosing_loops(m, q.site)):
            raise AnalysisError(f'{what}: a job query (line {q.emb.lineno}) is issued outside the loop over the running job groups')
    return F


def job_classes(q: QueryInst, schema: Optional[Dict[str, List[str]]] = None) -> Dict[str, Any]:
    """Which classes of jobs may the instantiated query select?  Truth table over (always_run, cancelled, state): the conjuncts of
    WHERE (and of inner-join ON conditions) that mention one of the three jobs columns are evaluated with those atoms set and every
    other atom unknown.  Returns {'may': set of (ar, c, state), 'must': set ..., 'conj': texts, 'key': {'batch_id': src, 'job_group_id': src},
    'unbound': [...]}."""
    st = q.stmts()[0]
    bound = q.bound()
    if bound is None:
        raise AnalysisError(f'{q.m.rel}: arguments of the query at line {q.emb.lineno} are not a literal tuple of the right length')
    tabs = [t for t in sf.from_tables(st.frm) if t.kind == 'table']
    jobs_alias = {(t.alias or t.name).lower() for t in tabs if t.name.lower() == 'jobs'} | {'jobs'}
    others_with_state = [t.name.lower() for t in tabs if t.name.lower() != 'jobs' and (schema is None or 'state' in schema.get(t.name.lower(), ['state']))]
    COLS = ('always_run', 'cancelled', 'state')

    def which(n: N) -> Optional[str]:
        if n.kind != 'col':
            return None
        name = n.parts[-1].lower().strip('`')
        if name not in COLS:
            return None
        if len(n.parts) > 1:
            return name if n.parts[-2].lower().strip('`') in jobs_alias else None
        if name == 'state' and others_with_state:
            return None
        return name
    conj = list(sf.conjuncts(st.where))
    for j in st.frm.joins:
        if j.jtype == 'INNER' and j.on is not None:
            conj += sf.conjuncts(j.on)
    rel = [c for c in conj if any(which(x) for x in c.walk())]
    unbound: List[str] = []

    def pyconst(n: N) -> Any:
        v = const_value(q.holder, bound[n.pos]) if n.pos in bound else _UNK
        if v is _UNK:
            return UNKNOWN
        if isinstance(v, bool):
            return int(v)
        if v is None or isinstance(v, (int, float, str)):
            return v
        return UNKNOWN

    may_set: Set[Tuple[int, int, str]] = set()
    must_set: Set[Tuple[int, int, str]] = set()
    for ar in (0, 1):
        for c_ in (0, 1):
            for s_ in STATES:
                vals = {'always_run': ar, 'cancelled': c_, 'state': s_}

                def known(n: N) -> Any:
                    w_ = which(n)
                    if w_ is not None:
                        return vals[w_]
                    if n.kind == 'param':
                        return pyconst(n)
                    return UNKNOWN
                res = [may(cj, known) for cj in rel]
                if all(True in r for r in res):
                    may_set.add((ar, c_, s_))
                if all(r == {True} for r in res):
                    must_set.add((ar, c_, s_))
    for cj in rel:
        for n in cj.walk():
            if n.kind == 'param' and pyconst(n) is UNKNOWN:
                unbound.append(f'{text(cj)} <- {pf.nsrc(bound[n.pos]) if n.pos in bound else "?"}')
    key: Dict[str, Optional[str]] = {'batch_id': None, 'job_group_id': None}
    key_expr: Dict[str, Optional[ast.expr]] = {'batch_id': None, 'job_group_id': None}
    for cj in sf.conjuncts(st.where):
        if cj.kind == 'bin' and cj.op == '=':
            for a, b in ((cj.left, cj.right), (cj.right, cj.left)):
                if a.kind == 'col' and b.kind == 'param' and a.parts[-1].lower() in key and (len(a.parts) == 1 or a.parts[-2].lower() in jobs_alias) and b.pos in bound:
                    key[a.parts[-1].lower()] = pf.nsrc(bound[b.pos])
                    key_expr[a.parts[-1].lower()] = bound[b.pos]
    projected = False
    for c, al in st.cols:
        if c.kind == 'star' and ((getattr(c, 'table', None) or 'jobs').lower().strip('`') in jobs_alias):
            projected = True
        if any(which(x) == 'cancelled' for x in c.walk()):
            projected = True
    return {'may': may_set, 'must': must_set, 'conj': [text(c) for c in rel], 'key': key, 'key_expr': key_expr, 'unbound': unbound, 'cancelled_projected': projected}


# ======================================================================================
# part 2: lossless flow of the parent-id lists
# ======================================================================================
#
# A job spec names its parents in two lists that live in DIFFERENT id spaces: `absolute_parent_ids` (id k = job k of the batch;
# legacy spelling `parent_ids`) and `in_update_parent_ids` (id k = the k-th job of the update being submitted = job start + k - 1).
# The dependency is recorded by `_create_jobs` as one job_parents row per element of `parent_ids` and n_pending_parents = len(parent_ids).
# Necessary for "Ready only after EVERY parent is terminal": between the request body and those writes no element of either list is
# dropped, and elements of the two lists are never identified with each other before the in-update ones are converted.
#
# Abstract domain of list expressions (nothing is executed; a value is a description of how the list is made from the request's lists):
#     src(K) | map(v, +shift) | cat(v..) | dedup(v, memory) | filter(v, cond) | slice(v) | orelse(v, w) | empty | unknown(why)
# summarised as   terms {(source key, shift normal form)}  +  losses [(kind, message, node)]  +  undecided [why].

from .linform import Lin, lin as _lin  # noqa: E402

PARENT_KEYS = {'parent_ids': 'abs', 'absolute_parent_ids': 'abs', 'in_update_parent_ids': 'upd'}
IDENTITY_CALLS = ('list', 'tuple', 'sorted', 'reversed', 'copy.copy', 'copy.deepcopy', 'iter')
DEDUP_CALLS = ('set', 'frozenset', 'dict.fromkeys', 'OrderedDict.fromkeys', 'collections.OrderedDict.fromkeys')
LOSSY_METHODS = ('remove', 'pop', 'clear', 'discard', 'difference_update', 'intersection_update', '__delitem__')
HARMLESS_METHODS = ('sort', 'reverse', 'copy', 'index', 'count', '__len__', '__iter__', '__contains__')


class PV:
    def __init__(self, kind: str, **kw: Any):
        self.kind = kind
        self.__dict__.update(kw)


class Summary:
    def __init__(self) -> None:
        self.terms: List[Tuple[str, Optional[Lin]]] = []
        self.losses: List[Tuple[str, str, Optional[ast.AST]]] = []
        self.undecided: List[str] = []

    def keys(self) -> Set[str]:
        return {k for k, _ in self.terms}


def _space(term: Tuple[str, Optional[Lin]], conv: Optional[Lin] = None, normalise: Any = None) -> str:
    """Id space of the elements of a term: 'abs' / 'upd' for unshifted lists; an in-update list shifted by exactly the conversion
    offset `conv` (the one that turns an in-update job index into a job id) is in the absolute space."""
    k, sh = term
    if sh is None or (sh.is_const() and sh.const == 0):
        return PARENT_KEYS[k]
    if conv is not None and PARENT_KEYS[k] == 'upd' and (normalise(sh) if normalise is not None else sh) == conv:
        return 'abs'
    return f'{PARENT_KEYS[k]}+({sh!r})'


def summarise(v: PV, conv: Optional[Lin] = None, normalise: Any = None) -> Summary:
    s = Summary()

    def rec(v: PV, shift: Optional[Lin]) -> List[Tuple[str, Optional[Lin]]]:
        k = v.kind
        if k == 'src':
            return [(v.key, shift)]
        if k == 'empty':
            return []
        if k == 'map':
            return rec(v.arg, v.shift if shift is None else (v.shift + shift if v.shift is not None else shift))
        if k == 'cat':
            out: List[Tuple[str, Optional[Lin]]] = []
            for a in v.args:
                out += rec(a, shift)
            return out
        if k == 'dedup':
            ts = rec(v.arg, None)
            spaces = sorted({_space(t, conv, normalise) for t in ts})
            if len(spaces) > 1:
                s.losses.append(('dedup across id spaces', f'`{v.text}` removes duplicates from a list that mixes ids of different id spaces ({", ".join(f"{kk} [{_space((kk, sh), conv, normalise)}]" for kk, sh in ts)}): an in-update id k '
                                 '(= job start + k - 1) that happens to equal an absolute id k is taken for the same job and dropped', v.node))
            if v.memory != 'own':
                s.losses.append(('dedup with a shared memory', f'`{v.text}` drops an id when it is already in `{v.memory_name}`, and `{v.memory_name}` {v.memory}: ids are remembered from one list to the next, '
                                 'so an id is dropped because ANOTHER list (other id space / other job) contained the same number', v.node))
            return [(kk, (sh + shift if sh is not None else shift) if shift is not None else sh) for kk, sh in ts]
        if k == 'filter':
            s.losses.append(('filter', f'`{v.text}` keeps an id only if `{v.cond}`: every parent for which that is false is dropped', v.node))
            return rec(v.arg, shift)
        if k == 'slice':
            s.losses.append(('slice', f'`{v.text}` keeps only part of the list', v.node))
            return rec(v.arg, shift)
        if k == 'orelse':
            s.losses.append(('or', f'`{v.text}`: the second list is used only when the first is empty', v.node))
            return rec(v.first, shift) + rec(v.second, shift)
        if k == 'removed':
            s.losses.append(('removal', f'`{v.text}` removes elements from the list', v.node))
            return rec(v.arg, shift)
        s.undecided.append(getattr(v, 'why', k))
        return []
    s.terms = rec(v, None)
    return s


def key_domain(m: pf.Module, fn: FuncDef, e: ast.expr, depth: int = 0) -> Optional[List[str]]:
    """The string constants a subscript key may denote: a literal, a local with one constant definition, the target of a loop over
    a literal tuple / list of constants, or a parameter whose arguments at every call site in the module have such a domain."""
    s = pf.const_str(e)
    if s is not None:
        return [s]
    if not isinstance(e, ast.Name):
        return None
    defs = assignments(fn).get(e.id, [])
    if len(defs) != 1:
        return None
    d = defs[0]
    if isinstance(d, ast.expr):
        return key_domain(m, fn, d, depth + 1) if depth < 3 else None
    if isinstance(d, (ast.For, ast.AsyncFor, ast.comprehension)) and isinstance(d.target, ast.Name) and isinstance(d.iter, (ast.Tuple, ast.List, ast.Set)):
        vals = [pf.const_str(x) for x in d.iter.elts]
        return None if any(v is None for v in vals) else vals  # type: ignore[return-value]
    if isinstance(d, ast.arg) and depth < 2:
        formals = [a.arg for a in fn.args.posonlyargs + fn.args.args]
        out: List[str] = []
        found = False
        for q, g in m.functions():
            for c in pf.calls_in(g):
                if resolve_callable(m, g, c) is fn:
                    b = bind_args(fn, c, isinstance(c.func, ast.Attribute))
                    if b is None or e.id not in b:
                        return None
                    dom = key_domain(m, g, b[e.id], depth + 1)
                    if dom is None:
                        return None
                    found = True
                    out += [x for x in dom if x not in out]
        return out if found and formals else None
    return None


def _loops_of(m: pf.Module, node: ast.AST, fn: FuncDef) -> List[ast.AST]:
    return [l for l in sr.enclosing_loops(m, node) if any(l is x for x in pf.walk_shallow(fn))]


class ListEval:
    """Abstract evaluation of list-valued expressions of one function."""

    def __init__(self, m: pf.Module, fn: FuncDef, kenv: Optional[Dict[str, str]] = None, venv: Optional[Dict[str, PV]] = None, depth: int = 0):
        self.m = m
        self.fn = fn
        self.kenv = kenv or {}
        self.venv = venv or {}
        self.depth = depth
        self.busy: Set[str] = set()

    def unknown(self, why: str) -> PV:
        return PV('unknown', why=why)

    def key_of(self, e: ast.expr) -> Optional[str]:
        if isinstance(e, ast.Name) and e.id in self.kenv:
            return self.kenv[e.id]
        return pf.const_str(e)

    def _empty_default(self, e: ast.expr) -> bool:
        return (isinstance(e, (ast.List, ast.Tuple)) and not e.elts) or (isinstance(e, ast.Constant) and e.value is None) or \
            (isinstance(e, ast.Call) and pf.dotted(e.func) in ('list', 'tuple') and not e.args)

    def ev(self, e: ast.expr) -> PV:
        if isinstance(e, ast.Await):
            return self.unknown(f'awaited value `{pf.nsrc(e)[:60]}`')
        if isinstance(e, (ast.List, ast.Tuple, ast.Set)):
            if not e.elts:
                return PV('empty')
            if all(isinstance(x, ast.Starred) for x in e.elts):
                v = PV('cat', args=[self.ev(x.value) for x in e.elts])
                return PV('dedup', arg=v, memory='own', memory_name='', text=pf.nsrc(e)[:80], node=e) if isinstance(e, ast.Set) else v
            return self.unknown(f'list display `{pf.nsrc(e)[:60]}`')
        if isinstance(e, ast.Subscript):
            if isinstance(e.slice, ast.Slice):
                inner = self.ev(e.value)
                if e.slice.lower is None and e.slice.upper is None and e.slice.step is None:
                    return inner
                return PV('slice', arg=inner, text=pf.nsrc(e)[:80], node=e)
            k = self.key_of(e.slice)
            if k in PARENT_KEYS and isinstance(e.value, ast.Name):
                return PV('src', key=k, node=e)
            return self.unknown(f'`{pf.nsrc(e)[:60]}`')
        if isinstance(e, ast.BoolOp) and isinstance(e.op, ast.Or) and len(e.values) == 2:
            if self._empty_default(e.values[1]):
                return self.ev(e.values[0])
            return PV('orelse', first=self.ev(e.values[0]), second=self.ev(e.values[1]), text=pf.nsrc(e)[:80], node=e)
        if isinstance(e, ast.BinOp) and isinstance(e.op, ast.Add):
            return PV('cat', args=[self.ev(e.left), self.ev(e.right)])
        if isinstance(e, ast.BinOp) and isinstance(e.op, ast.BitOr):
            return PV('dedup', arg=PV('cat', args=[self.ev(e.left), self.ev(e.right)]), memory='own', memory_name='', text=pf.nsrc(e)[:80], node=e)
        if isinstance(e, (ast.ListComp, ast.SetComp, ast.GeneratorExp)):
            return self._comp(e)
        if isinstance(e, ast.Call):
            return self._call(e)
        if isinstance(e, ast.Name):
            return self._name(e)
        if isinstance(e, ast.Starred):
            return self.ev(e.value)
        return self.unknown(f'`{pf.nsrc(e)[:60]}`')

    # -- calls --------------------------------------------------------------------------
    def _call(self, e: ast.Call) -> PV:
        name = pf.dotted(e.func) or ''
        f = e.func
        if isinstance(f, ast.Attribute) and isinstance(f.value, ast.Name) and f.attr in ('get', 'pop', 'setdefault') and e.args:
            k = self.key_of(e.args[0])
            if k in PARENT_KEYS:
                if len(e.args) == 1 or self._empty_default(e.args[1]):
                    return PV('src', key=k, node=e, moved=f.attr == 'pop')
                return self.unknown(f'`{pf.nsrc(e)[:60]}` has a non-empty default')
        if name in IDENTITY_CALLS and len(e.args) >= 1:
            return self.ev(e.args[0])
        if name in DEDUP_CALLS and len(e.args) >= 1:
            return PV('dedup', arg=self.ev(e.args[0]), memory='own', memory_name='', text=pf.nsrc(e)[:80], node=e)
        if name in ('itertools.chain', 'chain'):
            return PV('cat', args=[self.ev(a) for a in e.args])
        if isinstance(f, ast.Attribute) and f.attr == 'copy' and not e.args:
            return self.ev(f.value)
        if isinstance(f, ast.Attribute) and f.attr in ('union',) and e.args:
            return PV('dedup', arg=PV('cat', args=[self.ev(f.value)] + [self.ev(a) for a in e.args]), memory='own', memory_name='', text=pf.nsrc(e)[:80], node=e)
        d = resolve_callable(self.m, self.fn, e)
        if d is not None and self.depth < 2 and not isinstance(d, ast.AsyncFunctionDef):
            b = bind_args(d, e, isinstance(f, ast.Attribute))
            rets = [r for r in pf.walk_shallow(d) if isinstance(r, ast.Return)]
            if b is not None and len(rets) == 1 and rets[0].value is not None:
                venv = {k: self.ev(v) for k, v in b.items()}
                sub = ListEval(self.m, d, {}, venv, self.depth + 1)
                return sub.ev(rets[0].value)
        return self.unknown(f'call `{pf.nsrc(e)[:60]}`')

    # -- comprehensions -------------------------------------------------------------------
    def _shift(self, elt: ast.expr, var: str) -> Optional[Lin]:
        if isinstance(elt, ast.Name) and elt.id == var:
            return None
        try:
            L = _lin(elt)
        except AnalysisError:
            raise
        if L.coef.get(var) != 1:
            raise AnalysisError(f'element `{pf.nsrc(elt)}` is not `{var}` plus an offset')
        return L - Lin({var: 1}, 0)

    def _comp(self, e: ast.expr) -> PV:
        if len(e.generators) != 1 or not isinstance(e.generators[0].target, ast.Name) or e.generators[0].is_async:
            return self.unknown(f'comprehension `{pf.nsrc(e)[:60]}`')
        g = e.generators[0]
        var = g.target.id
        src = self.ev(g.iter)
        try:
            sh = self._shift(e.elt, var)
        except AnalysisError as ex:
            return self.unknown(str(ex))
        v = src
        for c in g.ifs:
            mem = self._dedup_test(c, var, positive=True)
            if mem is not None:
                scope = self._memory_scope(mem, e)
                if scope == '?':
                    return self.unknown(f'the duplicate memory `{mem}` is a parameter')
                v = PV('dedup', arg=v, memory=scope, memory_name=mem, text=pf.nsrc(e)[:90], node=e)
            else:
                v = PV('filter', arg=v, cond=pf.nsrc(c)[:60], text=pf.nsrc(e)[:90], node=e)
        if sh is not None:
            v = PV('map', arg=v, shift=sh)
        if isinstance(e, ast.SetComp):
            v = PV('dedup', arg=v, memory='own', memory_name='', text=pf.nsrc(e)[:80], node=e)
        return v

    def _dedup_test(self, c: ast.expr, var: str, positive: bool) -> Optional[str]:
        """`var not in S` (positive) / `var in S` (negative, as in `if var in S: continue`), also `not (var in S or S.add(var))`: the name S."""
        if isinstance(c, ast.UnaryOp) and isinstance(c.op, ast.Not):
            inner = c.operand
            if isinstance(inner, ast.BoolOp) and isinstance(inner.op, ast.Or) and len(inner.values) == 2:
                a, b = inner.values
                if isinstance(b, ast.Call) and isinstance(b.func, ast.Attribute) and b.func.attr == 'add' and isinstance(b.func.value, ast.Name):
                    r = self._dedup_test(a, var, not positive)
                    return r if r == b.func.value.id else None
            return self._dedup_test(inner, var, not positive)
        if isinstance(c, ast.Compare) and len(c.ops) == 1 and isinstance(c.left, ast.Name) and c.left.id == var and isinstance(c.comparators[0], ast.Name):
            if (isinstance(c.ops[0], ast.NotIn) and positive) or (isinstance(c.ops[0], ast.In) and not positive):
                S = c.comparators[0].id
                # S must be a set that the surrounding code fills with the ids it has kept
                adds = [n for n in pf.walk_shallow(self.fn) if isinstance(n, ast.Call) and isinstance(n.func, ast.Attribute) and n.func.attr in ('add', 'append')
                        and isinstance(n.func.value, ast.Name) and n.func.value.id == S]
                return S if adds else None
        return None

    def _memory_scope(self, S: str, at: ast.AST) -> str:
        """'own' when the memory S is created afresh for the list being built (same enclosing loops as the construction site),
        otherwise a description of how long it lives."""
        defs = assignments(self.fn).get(S, [])
        if len(defs) != 1:
            return 'is assigned in several places'
        d = defs[0]
        if isinstance(d, ast.arg):
            return '?'  # passed in by the caller: how long it lives is decided there - not analysed
        if not (isinstance(d, ast.expr) and ((isinstance(d, ast.Call) and pf.dotted(d.func) in ('set', 'dict', 'list') and not d.args) or (isinstance(d, (ast.Set, ast.Dict, ast.List)) and not getattr(d, 'elts', getattr(d, 'keys', []))))):
            return 'is not created empty next to the list'
        par = self.m.parents()
        dstmt = par.get(d)
        mine = _loops_of(self.m, at, self.fn)
        theirs = _loops_of(self.m, dstmt, self.fn) if dstmt is not None else []
        # loops that enclose the construction but not the creation of the memory: the memory survives their iterations
        outer = [l for l in mine if not any(l is t for t in theirs)]
        # the innermost loop of the construction itself (the loop over the list's elements) does not count
        outer = [l for l in outer if not self._is_element_loop(l, at)]
        if not outer:
            return 'own'
        l = outer[-1]
        return f'is created once, outside `for {pf.nsrc(l.target)} in {pf.nsrc(l.iter)[:70]}`, and is shared by all its iterations'

    def _is_element_loop(self, loop: ast.AST, at: ast.AST) -> bool:
        return getattr(at, '_element_loop', None) is loop

    # -- names ----------------------------------------------------------------------------
    def _name(self, e: ast.Name) -> PV:
        n = e.id
        if n in self.venv:
            return self.venv[n]
        if n in self.busy:
            return self.unknown(f'`{n}` is defined in terms of itself')
        self.busy.add(n)
        try:
            return self._name0(n)
        finally:
            self.busy.discard(n)

    def _mutations(self, n: str) -> Tuple[List[ast.AST], List[ast.AST], List[ast.AST]]:
        """(append calls, extend-like statements, lossy mutations) on the local list `n`."""
        app, ext, lossy = [], [], []
        for x in pf.walk_shallow(self.fn):
            if isinstance(x, ast.Call) and isinstance(x.func, ast.Attribute) and isinstance(x.func.value, ast.Name) and x.func.value.id == n:
                if x.func.attr in ('append', 'add'):
                    app.append(x)
                elif x.func.attr in ('extend', 'update'):
                    ext.append(x)
                elif x.func.attr in LOSSY_METHODS:
                    lossy.append(x)
                elif x.func.attr == 'insert':
                    ext.append(x)
            elif isinstance(x, ast.Delete) and any(isinstance(t, ast.Subscript) and isinstance(t.value, ast.Name) and t.value.id == n for t in x.targets):
                lossy.append(x)
            elif isinstance(x, ast.Assign) and any(isinstance(t, ast.Subscript) and isinstance(t.value, ast.Name) and t.value.id == n for t in x.targets):
                lossy.append(x)
            elif isinstance(x, ast.AugAssign) and isinstance(x.target, ast.Name) and x.target.id == n:
                if isinstance(x.op, ast.Add):
                    ext.append(x)
                else:
                    lossy.append(x)
        return app, ext, lossy

    def _name0(self, n: str) -> PV:
        defs = [d for d in assignments(self.fn).get(n, []) if not isinstance(d, ast.AugAssign)]
        app, ext, lossy = self._mutations(n)
        if len(defs) != 1 or not isinstance(defs[0], ast.expr):
            return self.unknown(f'`{n}` has {len(defs)} definitions')
        d = defs[0]
        is_empty = (isinstance(d, (ast.List, ast.Set)) and not d.elts) or (isinstance(d, ast.Call) and pf.dotted(d.func) in ('list', 'set') and not d.args)
        if is_empty and app:
            v = self._loop_built(n, d, app)
        else:
            if app:
                return self.unknown(f'`{n}` is both assigned `{pf.nsrc(d)[:40]}` and appended to')
            v = self.ev(d)
        par = self.m.parents()
        for x in ext:
            st = x if isinstance(x, ast.AugAssign) else par.get(x)
            if sr.enclosing_ifs(self.m, x, stop=self.fn) or _loops_of(self.m, x, self.fn) != _loops_of(self.m, par.get(d), self.fn):
                return self.unknown(f'`{pf.nsrc(st)[:60]}` extends `{n}` conditionally / in a loop')
            arg = x.value if isinstance(x, ast.AugAssign) else (x.args[0] if x.args else None)
            if arg is None or (isinstance(x, ast.Call) and x.func.attr == 'insert'):
                return self.unknown(f'`{pf.nsrc(st)[:60]}`')
            v = PV('cat', args=[v, self.ev(arg)])
        for x in lossy:
            st = x if isinstance(x, ast.stmt) else par.get(x)
            v = PV('removed', arg=v, text=pf.nsrc(st)[:80], node=x)
        return v

    def _loop_built(self, n: str, init: ast.expr, app: List[ast.AST]) -> PV:
        """`n = []` ... `for x in SRC: [if c: continue] [if c2:] n.append(f(x))`."""
        if len(app) != 1:
            return self.unknown(f'`{n}` is appended to at {len(app)} places')
        call = app[0]
        loops = _loops_of(self.m, call, self.fn)
        init_loops = _loops_of(self.m, self.m.parents().get(init), self.fn)
        own = [l for l in loops if not any(l is t for t in init_loops)]
        if len(own) != 1 or not isinstance(own[0].target, ast.Name) or len(call.args) != 1:
            return self.unknown(f'`{n}` is not built by one `for x in <list>: {n}.append(..)` loop')
        loop = own[0]
        var = loop.target.id
        src = self.ev(loop.iter)
        try:
            sh = self._shift(call.args[0], var)
        except AnalysisError as ex:
            return self.unknown(str(ex))
        call._element_loop = loop  # type: ignore[attr-defined]
        v = src
        conds: List[Tuple[ast.expr, bool]] = [(i.test, inb) for i, inb in reversed(sr.enclosing_ifs(self.m, call, stop=loop))]
        # guard clauses `if c: continue` / `break` in front of the append, at any depth of the loop body
        for st in pf.walk_shallow(loop):
            if isinstance(st, (ast.Continue, ast.Break)) and getattr(st, 'lineno', 0) < call.lineno:
                ifs = sr.enclosing_ifs(self.m, st, stop=loop)
                if isinstance(st, ast.Break) or not ifs:
                    return PV('slice', arg=v, text=f'{pf.nsrc(st)} in the loop that builds `{n}`', node=st)
                for i, inb in ifs:
                    conds.append((i.test, not inb))
        for c, pol in conds:
            mem = self._dedup_test(c, var, positive=pol)
            if mem is not None and self._memory_scope(mem, call) == '?':
                return self.unknown(f'the duplicate memory `{mem}` is a parameter')
            if mem is not None:
                v = PV('dedup', arg=v, memory=self._memory_scope(mem, call), memory_name=mem, text=f'if {pf.nsrc(c)}: ... {pf.nsrc(call)}' if pol else f'if {pf.nsrc(c)}: continue ... {pf.nsrc(call)}', node=call)
            else:
                v = PV('filter', arg=v, cond=("" if pol else "not ") + pf.nsrc(c)[:60], text=pf.nsrc(call), node=call)
        if sh is not None:
            v = PV('map', arg=v, shift=sh)
        return v


class Touch:
    def __init__(self, fn: FuncDef, node: ast.AST, keys: List[str], how: str, dname: str, key_expr: ast.expr):
        self.fn, self.node, self.keys, self.how, self.dname, self.key_expr = fn, node, keys, how, dname, key_expr


def touch_sites(m: pf.Module) -> List[Touch]:
    """Every place in the module where a mapping is subscripted / get / pop / setdefault / del'ed with a key that may be one of the
    parent-id keys.  how: load | store | del | get | pop | setdefault | aug."""
    out: List[Touch] = []
    for q, fn in m.functions():
        par = m.parents()
        for n in pf.walk_shallow(fn):
            if isinstance(n, ast.Subscript) and isinstance(n.value, ast.Name) and not isinstance(n.slice, ast.Slice):
                dom = key_domain(m, fn, n.slice)
                ks = [k for k in (dom or []) if k in PARENT_KEYS]
                if ks:
                    p = par.get(n)
                    how = 'aug' if isinstance(p, ast.AugAssign) and p.target is n else ('store' if isinstance(n.ctx, ast.Store) else ('del' if isinstance(n.ctx, ast.Del) else 'load'))
                    out.append(Touch(fn, n, ks, how, n.value.id, n.slice))
            elif isinstance(n, ast.Call) and isinstance(n.func, ast.Attribute) and isinstance(n.func.value, ast.Name) and n.func.attr in ('get', 'pop', 'setdefault') and n.args:
                dom = key_domain(m, fn, n.args[0])
                ks = [k for k in (dom or []) if k in PARENT_KEYS]
                if ks:
                    out.append(Touch(fn, n, ks, n.func.attr, n.func.value.id, n.args[0]))
    return out


class FlowFinding:
    def __init__(self, status: str, construct: str, message: str, line: int):
        self.status, self.construct, self.message, self.line = status, construct, message, line


def _stmt_of(m: pf.Module, n: ast.AST) -> ast.AST:
    par = m.parents()
    cur = n
    while cur is not None and not isinstance(cur, ast.stmt):
        cur = par.get(cur)
    return cur if cur is not None else n


EXAMPLE = ('e.g. update 2 starts at job 3; its second job (job 4) is submitted with absolute_parent_ids [1] and in_update_parent_ids [1] (= job 3): the edge to job 3 is lost, job_parents holds only (4, 1), '
           'n_pending_parents = 1, and job 4 becomes Ready as soon as job 1 is done while job 3 is still running (and is not cancelled if job 3 fails)')


def check_key_writers(m: pf.Module, canonical_reads: Sequence[ast.AST] = ()) -> List[FlowFinding]:
    """Who touches the parent-id keys of a job spec in this module, and is every such operation lossless and space-preserving?"""
    out: List[FlowFinding] = []
    sites = touch_sites(m)
    par = m.parents()
    by_fn: Dict[int, List[Touch]] = {}
    for t in sites:
        by_fn.setdefault(id(t.fn), []).append(t)
    for ts in by_fn.values():
        fn = ts[0].fn
        q = m.qualname(fn)
        stores = [t for t in ts if t.how in ('store', 'aug', 'setdefault')]
        stored_sources: Set[str] = set()
        for t in stores:
            st = _stmt_of(m, t.node)
            cons = f'{m.rel}::{q}::{pf.nsrc(st)[:70]}'
            if t.how == 'setdefault':
                args = t.node.args
                if len(args) == 2 and ListEval(m, fn)._empty_default(args[1]):
                    out.append(FlowFinding('ok', cons, 'default for a missing key', st.lineno))
                else:
                    out.append(FlowFinding('undecided', cons, f'`{pf.nsrc(st)[:70]}`: setdefault with a non-empty default', st.lineno))
                continue
            if not isinstance(st, (ast.Assign, ast.AugAssign)) or (isinstance(st, ast.Assign) and len(st.targets) != 1):
                out.append(FlowFinding('undecided', cons, f'`{pf.nsrc(st)[:70]}`: store into a parent-id key in a statement shape that is not analysed', st.lineno))
                continue
            for kt in t.keys:
                kenv = {t.key_expr.id: kt} if isinstance(t.key_expr, ast.Name) else {}
                # `if K not in D: D[K] = ...` (or the else of `if K in D`): a default for a key the request did not carry - nothing can be lost
                absent = False
                for i_, inb in sr.enclosing_ifs(m, st, stop=fn):
                    c_ = i_.test
                    neg = False
                    if isinstance(c_, ast.UnaryOp) and isinstance(c_.op, ast.Not):
                        c_, neg = c_.operand, True
                    if isinstance(c_, ast.Compare) and len(c_.ops) == 1 and isinstance(c_.comparators[0], ast.Name) and c_.comparators[0].id == t.dname:
                        kk = pf.const_str(c_.left) or (kenv.get(c_.left.id) if isinstance(c_.left, ast.Name) else None)
                        notin = isinstance(c_.ops[0], ast.NotIn) != neg
                        if kk == kt and isinstance(c_.ops[0], (ast.In, ast.NotIn)) and (notin == inb):
                            absent = True
                if absent:
                    out.append(FlowFinding('ok', cons + (f' [{t.key_expr.id} = {kt!r}]' if kenv else ''), f'default for a missing {kt!r}', st.lineno))
                    continue
                le = ListEval(m, fn, kenv)
                v = le.ev(st.value)
                if isinstance(st, ast.AugAssign):
                    v = PV('cat', args=[PV('src', key=kt, node=t.node), v])
                s = summarise(v)
                ckey = cons + (f' [{t.key_expr.id} = {kt!r}]' if kenv else '')
                if s.losses:
                    kind, msg, node = s.losses[0]
                    out.append(FlowFinding('bad', ckey, f'the list stored under {kt!r} has lost parent ids ({kind}): {msg}.  The dropped parent gets no job_parents row and is not counted in n_pending_parents: '
                                                        f'the child becomes Ready while that parent is still running; {EXAMPLE}', getattr(node, 'lineno', st.lineno)))
                    continue
                if s.undecided:
                    out.append(FlowFinding('undecided', ckey, f'`{pf.nsrc(st)[:70]}`: the value stored under {kt!r} is not a recognised combination of the request\'s parent-id lists ({s.undecided[0]})', st.lineno))
                    continue
                wrong = [(k, sh) for k, sh in s.terms if PARENT_KEYS[k] != PARENT_KEYS[kt] or not (sh is None or (sh.is_const() and sh.const == 0))]
                if wrong:
                    k, sh = wrong[0]
                    if sh is None or (sh.is_const() and sh.const == 0):
                        out.append(FlowFinding('bad', ckey, f'ids of {k!r} ({"absolute job ids" if PARENT_KEYS[k] == "abs" else "positions within the update"}) are stored under {kt!r} '
                                                            f'({"absolute job ids" if PARENT_KEYS[kt] == "abs" else "positions within the update"}) without conversion: the child waits for the wrong jobs and not for its real parents', st.lineno))
                    else:
                        out.append(FlowFinding('undecided', ckey, f'`{pf.nsrc(st)[:70]}` shifts the ids by {sh!r}', st.lineno))
                    continue
                if kt not in s.keys() and not (kt == 'absolute_parent_ids' and s.keys() == {'parent_ids'}):
                    out.append(FlowFinding('bad', ckey, f'`{pf.nsrc(st)[:70]}` replaces the list under {kt!r} by one that does not contain its previous elements (sources: {sorted(s.keys()) or "none"}): '
                                                        'the parents named there get no job_parents row and are not waited for', st.lineno))
                    continue
                stored_sources |= s.keys()
                out.append(FlowFinding('ok', ckey, f'lossless: {sorted(s.keys())} -> {kt!r}', st.lineno))
        for t in ts:
            st = _stmt_of(m, t.node)
            cons = f'{m.rel}::{q}::{pf.nsrc(st)[:70]}'
            p = par.get(t.node)
            if t.how == 'del' or (t.how == 'pop' and isinstance(p, ast.Expr)):
                lost = [k for k in t.keys if k not in stored_sources]
                if lost and not any(t.node is c for c in canonical_reads):
                    out.append(FlowFinding('bad', cons, f'`{pf.nsrc(st)[:70]}` discards the list under {lost[0]!r} without storing it anywhere: the parents named there get no job_parents row and are not waited for', st.lineno))
                else:
                    out.append(FlowFinding('ok', cons, 'removes a key whose list was moved', st.lineno))
            elif t.how in ('load', 'get', 'pop', 'setdefault'):
                # a mutating method applied to the list (directly or through a local alias)
                recv = [t.node]
                if isinstance(p, ast.Assign) and len(p.targets) == 1 and isinstance(p.targets[0], ast.Name) and p.value is t.node:
                    alias = p.targets[0].id
                    recv += [x for x in pf.walk_shallow(fn) if isinstance(x, ast.Name) and x.id == alias and isinstance(x.ctx, (ast.Load, ast.Del))]
                for r in recv:
                    pr = par.get(r)
                    if isinstance(pr, ast.Attribute) and pr.value is r and isinstance(par.get(pr), ast.Call) and par.get(pr).func is pr and pr.attr in LOSSY_METHODS:
                        st2 = _stmt_of(m, pr)
                        out.append(FlowFinding('bad', f'{m.rel}::{q}::{pf.nsrc(st2)[:70]}', f'`{pf.nsrc(st2)[:70]}` removes elements from the parent-id list {t.keys[0]!r} in place: the removed parents get no job_parents row and are not waited for',
                                               st2.lineno))
                    elif isinstance(pr, ast.Subscript) and pr.value is r and isinstance(pr.ctx, (ast.Del, ast.Store)):
                        st2 = _stmt_of(m, pr)
                        out.append(FlowFinding('bad', f'{m.rel}::{q}::{pf.nsrc(st2)[:70]}', f'`{pf.nsrc(st2)[:70]}` overwrites / deletes elements of the parent-id list {t.keys[0]!r} in place', st2.lineno))
    return out


def norm_lin(fn: FuncDef, L: Lin, depth: int = 3) -> Lin:
    """Replace symbols that are single-definition integer locals by the normal form of their definition."""
    out = Lin({}, L.const)
    for s_, c in L.coef.items():
        sub = None
        if s_.isidentifier() and depth > 0:
            d = pf.single_def(fn, s_)
            if isinstance(d, ast.expr) and not isinstance(d, ast.Await):
                try:
                    sub = norm_lin(fn, _lin(d), depth - 1)
                except AnalysisError:
                    sub = None
        out = out + (sub.scale(c) if sub is not None else Lin({s_: c}, 0))
    return out


def job_id_shift(fn: FuncDef) -> Tuple[Lin, str]:
    """`job_id = spec['job_id'] + <shift>`: the conversion of an in-update job index to the absolute job id, as (shift, text)."""
    d = pf.single_def(fn, 'job_id')
    if not isinstance(d, ast.expr):
        raise AnalysisError('_create_jobs: `job_id` has no single definition')
    L = norm_lin(fn, _lin(d))   # single-definition integer locals followed (`k = spec['job_id']; job_id = k + start - 1`)
    idx = [s_ for s_, c in L.coef.items() if s_.endswith("['job_id']") and c == 1]
    if len(idx) != 1:
        raise AnalysisError(f'_create_jobs: `job_id = {pf.nsrc(d)}` is not the spec\'s in-update job id plus an offset')
    return norm_lin(fn, L - Lin({idx[0]: 1}, 0)), pf.nsrc(d)


def check_parent_ids_value(m: pf.Module, fn: FuncDef, e: ast.expr, role: str) -> List[FlowFinding]:
    """The list that feeds the job_parents rows / the n_pending_parents count of `_create_jobs`: it must denote exactly
    absolute_parent_ids  ++  [start + k - 1 for k in in_update_parent_ids]  (duplicates may be removed once both are absolute ids)."""
    q = m.qualname(fn)
    cons = f'{m.rel}::{q}::{role}'
    line = getattr(e, 'lineno', fn.lineno)
    shift_job, jtxt = job_id_shift(fn)
    s = summarise(ListEval(m, fn).ev(e), shift_job, lambda L: norm_lin(fn, L))
    out: List[FlowFinding] = []
    if s.losses:
        kind, msg, node = s.losses[0]
        return [FlowFinding('bad', cons, f'`{pf.nsrc(e)}` has lost parent ids on the way from the request ({kind}): {msg}.  The dropped parent gets no job_parents row and is not counted in n_pending_parents: '
                                         f'the child becomes Ready while that parent is still running; {EXAMPLE}', getattr(node, 'lineno', line))]
    if s.undecided:
        return [FlowFinding('undecided', cons, f'`{pf.nsrc(e)}` is not a recognised combination of the spec\'s parent-id lists ({s.undecided[0]})', line)]
    have = {PARENT_KEYS[k] for k, _ in s.terms}
    for space, name in (('abs', 'absolute_parent_ids'), ('upd', 'in_update_parent_ids')):
        if space not in have:
            out.append(FlowFinding('bad', cons, f'the ids of {name!r} never reach `{pf.nsrc(e)}` (sources: {sorted(s.keys()) or "none"}): those parents get no job_parents row and are not counted in n_pending_parents, '
                                                'so the child does not wait for them', line))
    for k, sh in s.terms:
        shn = norm_lin(fn, sh) if sh is not None else Lin({}, 0)
        if PARENT_KEYS[k] == 'abs' and not (shn.is_const() and shn.const == 0):
            out.append(FlowFinding('bad', cons, f'absolute parent ids ({k!r}) are shifted by {shn!r}: the child waits for job p + ({shn!r}) instead of its parent p', line))
        if PARENT_KEYS[k] == 'upd' and shn != shift_job:
            out.append(FlowFinding('bad', cons, f'an in-update parent index k ({k!r}) is recorded as job k + ({shn!r}), whereas the in-update job index k denotes job k + ({shift_job!r}) (`job_id = {jtxt}`): '
                                                'the child waits for the wrong job (or, unconverted, for a job of an earlier update) and not for its real parent, which may still be running when the child becomes Ready', line))
    if not out:
        out.append(FlowFinding('ok', cons, f'{sorted(s.keys())} -> absolute ids, in-update ones by + ({shift_job!r})', line))
    return out


# ======================================================================================
# part 3: provenance of reported status
# ======================================================================================
#
# Atoms of a provenance set:
#   ('db', line, typed)        result of a query executed on the database handle by THIS invocation
#   ('dbh',)                   the database handle itself (app['db'], a parameter annotated Database / Transaction, the tx of a @transaction(db) function)
#   ('apph',)                  the application object itself (app, request.app, ...): the door to everything that outlives the request
#   ('ret', root, typed)       read from state that outlives the invocation: app[...] entries, module-level mutable objects and module names re-bound
#                              through `global`, attributes of self / of module-level classes and functions, mutable parameter defaults, variables of
#                              an enclosing function whose nested function escapes (decorators, factories), results of memoised functions.  root names it.
#   ('reader', f, True)        the result of calling a status reader of the module (checked on its own)
#   ('fref', f, True)          a reference to such a function
#   ('param', name, typed) | ('unk', why, typed)
# `typed` on the atom = the value went through a record -> dict converter.  Whether a value (may) carry a status is decided by `is_typed`:
# converter output, reader results, values read from a database row that also feeds a converter (status_lines), and values read back from a
# retained root into which such a value is stored somewhere in the module (typed_roots; WHO MAY STORE is decided interprocedurally: a
# parameter is expanded to the actual arguments of the call sites of its function, decorator applications included).

CONVERTERS = ('batch_record_to_dict', 'job_group_record_to_dict')
DB_METHODS = ('select_and_fetchone', 'select_and_fetchall', 'execute_and_fetchone', 'execute_and_fetchall')
DB_TYPES = ('Database', 'Transaction')
MEMO_WORDS = ('lru_cache', 'alru_cache', 'cache', 'cached', 'cachedmethod', 'memoize', 'memoise', 'memoized', 'ttl_cache', 'async_lru', 'cached_property')
CONTAINER_STORE_METHODS = ('setdefault', 'put', 'append', 'add', 'update', 'insert', 'set', 'store', 'appendleft', 'extend')
STORE_METHODS = CONTAINER_STORE_METHODS + ('remember', 'memoize', 'memoise', 'memo', 'cache', 'save', 'record', 'push', 'register', 'write', 'keep', 'stash', 'fill', 'populate', 'prime', '__setitem__',
                                           'put_nowait', 'set_many', 'add_entry', 'set_entry', 'put_entry', 'assign')
READONLY_METHODS = ('get', 'keys', 'values', 'items', 'copy', 'pop', 'popitem', 'clear', 'move_to_end', 'discard', 'remove', 'index', 'count', 'lookup', '__getitem__', '__contains__', 'peek',
                    'is_set', 'wait', 'close', 'aclose', 'get_nowait', 'invalidate', 'forget', 'evict', 'expire', 'delete', 'join', 'format', 'startswith', 'endswith', 'split', 'strip', 'lower', 'upper',
                    'encode', 'decode', 'sort', 'reverse')
APPISH = ('app', 'request.app', 'self.app', 'request.config_dict')
STARTUP_FUNCS = ('on_startup', 'on_cleanup', '__init__', 'run', 'main', 'async_main')
# the fields of a status row / status dict the property is about (completion and the counts); cost, attributes, times ... are not
COMPLETION_FIELDS = frozenset(('state', 'complete', 'n_jobs', 'n_completed', 'n_succeeded', 'n_failed', 'n_cancelled', 'cancelled'))

Atom = Tuple[Any, ...]


def _typed(a: Atom) -> Atom:
    if a[0] in ('dbh', 'apph'):
        return a
    return (a[0], a[1], True)


def memo_decorator(fn: FuncDef) -> Optional[str]:
    for d in fn.decorator_list:
        f = d.func if isinstance(d, ast.Call) else d
        name = pf.dotted(f) or ''
        last = name.split('.')[-1].lower()
        if last in MEMO_WORDS or 'cache' in last or 'memo' in last:
            return name
    return None


def _flatten_targets(ts: Sequence[ast.expr]) -> List[ast.expr]:
    out: List[ast.expr] = []
    for t in ts:
        if isinstance(t, (ast.Tuple, ast.List)):
            out += _flatten_targets(t.elts)
        elif isinstance(t, ast.Starred):
            out += _flatten_targets([t.value])
        else:
            out.append(t)
    return out


class StoreSite:
    """One statement that may put a value into state that outlives the invocation."""

    def __init__(self, fn: FuncDef, qual: str, node: ast.AST, roots: Set[str], vals: List[ast.expr], definite: bool):
        self.fn, self.qual, self.node, self.roots, self.vals, self.definite = fn, qual, node, roots, vals, definite
        self.typed = False
        self.dbfed = False   # a value read from the database (by whichever invocation executes the store) goes in


class _ModInfo:
    """Per-module facts of one module taking part in the analysis (the module given, plus the modules of the repository it imports
    helpers from - adopted on demand)."""

    def __init__(self, m: pf.Module):
        self.m = m
        self.defs: Dict[str, ast.AST] = {d.name: d for d in pf._body_defs(m.tree)}
        self.imports: Dict[str, str] = m.imports()
        self.loads: Dict[str, int] = {}
        self.attr_refs: Dict[str, int] = {}
        for n in ast.walk(m.tree):
            if isinstance(n, ast.Name) and isinstance(n.ctx, ast.Load):
                self.loads[n.id] = self.loads.get(n.id, 0) + 1
            elif isinstance(n, ast.Attribute):
                self.attr_refs[n.attr] = self.attr_refs.get(n.attr, 0) + 1
        self.names: Dict[str, ast.AST] = {}
        for st in m.tree.body:
            if isinstance(st, ast.Assign):
                for x in st.targets:
                    if isinstance(x, ast.Name):
                        self.names[x.id] = st.value
            elif isinstance(st, ast.AnnAssign) and isinstance(st.target, ast.Name) and st.value is not None:
                self.names[st.target.id] = st.value
        self.global_rebound: Set[str] = set()


class StatusProvenance:
    MAX_ADOPTED = 24

    def __init__(self, m: pf.Module, converters: Sequence[str] = CONVERTERS):
        self.m = m
        self.converters = tuple(converters)
        self.funcs: List[Tuple[str, FuncDef]] = []
        self.by_name: Dict[str, List[FuncDef]] = {}
        self.qual: Dict[int, str] = {}
        self.mods: Dict[str, _ModInfo] = {}
        self.mod_of: Dict[int, pf.Module] = {}
        self._by_tree: Dict[int, _ModInfo] = {}
        self.readers: Set[int] = set()
        self.direct: Set[int] = set()
        self.typed_roots: Set[str] = set()
        self.maybe_roots: Set[str] = set()
        self.dbfed_roots: Set[str] = set()   # written, while requests are served, with values read from the database
        self.status_lines: Set[Any] = set()
        self.stores: List[StoreSite] = []
        self.root_class: Dict[str, ast.ClassDef] = {}
        self._memo: Dict[Tuple[Any, ...], Set[Atom]] = {}
        self._frames: List[Set[Tuple[Any, ...]]] = [set()]   # per computation in progress: the unfinished computations (cycles) its result depends on
        self._nodes: Dict[int, Tuple[ast.AST, List[ast.AST]]] = {}
        self._esc: Dict[Tuple[int, int], bool] = {}
        self._rets: Dict[int, List[ast.AST]] = {}
        self._appish: Dict[int, bool] = {}
        self._dbh_attr: Dict[Tuple[int, str], bool] = {}
        self._foreign: Dict[Tuple[str, str], Optional[Tuple[pf.Module, ast.AST]]] = {}
        self.obj_mode = False   # True while the OBJECT an expression denotes is wanted (store targets): values that merely flowed into it by mutation do not count
        self.wrappers: Set[int] = set()   # functions a decorator of this module puts around a reader: checked like readers, but they do not make their name a reader name
        self._globals: Dict[int, Set[str]] = {}
        self._mutations: Dict[int, Dict[str, List[Tuple[ast.AST, Optional[ast.expr], ast.expr]]]] = {}
        self.objattr_roots: Set[str] = set()
        self.startup: Set[str] = set(STARTUP_FUNCS)
        self.package = '/'.join(m.rel.split('/')[:2]) + '/'
        self._add_module(m)
        self._build_call_index()
        self._compute_readers()
        self._solve()

    def _add_module(self, m2: pf.Module) -> None:
        info = _ModInfo(m2)
        self.mods[m2.rel] = info
        self._by_tree[id(m2.tree)] = info
        for q, f in m2.functions():
            self.funcs.append((q, f))
            self.qual[id(f)] = q
            self.mod_of[id(f)] = m2
            self.by_name.setdefault(f.name, []).append(f)
            g = {x for n in self.nodes_of(f) if isinstance(n, ast.Global) for x in n.names}
            self._globals[id(f)] = g
            info.global_rebound |= {x for x in g if x in pf.assignments(f)}
        self.objattr_roots |= self._scan_objattr_roots(info)
        for n in ast.walk(m2.tree):
            if isinstance(n, ast.Call) and (pf.dotted(n.func) or '').endswith(('on_startup.append', 'on_cleanup.append', 'on_shutdown.append')) and n.args and isinstance(n.args[0], ast.Name):
                self.startup.add(n.args[0].id)

    def M(self, fn: ast.AST) -> pf.Module:
        return self.mod_of.get(id(fn), self.m)

    def MI(self, fn: ast.AST) -> _ModInfo:
        return self.mods[self.M(fn).rel]

    def lineref(self, fn: ast.AST, e: ast.AST) -> Any:
        m2 = self.M(fn)
        return e.lineno if m2 is self.m else f'{m2.rel}:{e.lineno}'

    def gname(self, fn: ast.AST, name: str) -> str:
        """Root name of a module-level name: bare in the module under analysis, qualified in an adopted one."""
        m2 = self.M(fn)
        return name if m2 is self.m else f'{m2.rel}:{name}'

    # -- functions of other modules of the repository (helpers imported by name) -------------------------
    def foreign_def(self, fn: ast.AST, name: str) -> Optional[Tuple[pf.Module, ast.AST]]:
        return self._import_target(self.M(fn), name, 0)

    def _import_target(self, m2: pf.Module, name: str, depth: int) -> Optional[Tuple[pf.Module, ast.AST]]:
        key = (m2.rel, name)
        if key in self._foreign:
            return self._foreign[key]
        res: Optional[Tuple[pf.Module, ast.AST]] = None
        imports = self.mods[m2.rel].imports if m2.rel in self.mods else m2.imports()
        origin = imports.get(name)
        if origin and depth <= 2:
            level = len(origin) - len(origin.lstrip('.'))
            parts = origin.lstrip('.').split('.')
            pkg = m2.rel.split('/')[:-1]
            base: Optional[List[str]] = None
            if level >= 1 and level - 1 <= len(pkg):
                base = pkg[:len(pkg) - (level - 1)]
            elif level == 0 and parts[0] == self.package.split('/')[1]:
                base = [self.package.split('/')[0]]
            if base is not None and len(parts) >= 1:
                sym, modparts = parts[-1], parts[:-1]
                for cand in ('/'.join(base + modparts) + '.py', '/'.join(base + modparts + ['__init__.py'])):
                    if modparts and cand.startswith(self.package) and os.path.exists(repo_path(cand)):
                        try:
                            m3 = pf.load(cand)
                        except AnalysisError:
                            break
                        d = {x.name: x for x in pf._body_defs(m3.tree)}.get(sym)
                        res = (m3, d) if d is not None else self._import_target(m3, sym, depth + 1)
                        break
        self._foreign[key] = res
        return res

    def _shadowed(self, fn: FuncDef, name: str) -> bool:
        return any(name in assignments(s_) or name in _defs_directly_in(s_) for s_ in [fn] + enclosing_funcs(self.M(fn), fn)) or name in self.MI(fn).defs

    def resolve(self, fn: FuncDef, call: ast.Call) -> Optional[FuncDef]:
        """resolve_callable, plus functions imported by name from a module of the repository that has been adopted."""
        d = resolve_callable(self.M(fn), fn, call)
        if d is None and isinstance(call.func, ast.Attribute):
            # Class(...).method(...) / x = Class(...); x.method(...) for a class of this module
            recv = call.func.value.value if isinstance(call.func.value, ast.Await) else call.func.value
            if isinstance(recv, ast.Name) and not isinstance(recv.ctx, ast.Store):
                defs = assignments(fn).get(recv.id, [])
                one = defs[0] if len(defs) == 1 else None
                recv = one.value if isinstance(one, ast.Await) else one
            if isinstance(recv, ast.Call) and isinstance(recv.func, ast.Name) and not any(recv.func.id in assignments(s_) for s_ in [fn] + enclosing_funcs(self.M(fn), fn)):
                c = self.MI(fn).defs.get(recv.func.id)
                if isinstance(c, ast.ClassDef):
                    for x in c.body:
                        if isinstance(x, (ast.FunctionDef, ast.AsyncFunctionDef)) and x.name == call.func.attr:
                            return x
        if d is None and isinstance(call.func, ast.Name) and not self._shadowed(fn, call.func.id):
            t_ = self.foreign_def(fn, call.func.id)
            if t_ is not None and t_[0].rel in self.mods and isinstance(t_[1], (ast.FunctionDef, ast.AsyncFunctionDef)):
                return t_[1]
        return d

    def _adopt_reachable(self) -> bool:
        """Adopt the modules of the repository that define functions (or decorators) the status readers call, transitively."""
        grew = False
        seen: Set[int] = set()
        work = [f for q, f in self.funcs if id(f) in self.readers or id(f) in self.wrappers]
        while work:
            f = work.pop()
            if id(f) in seen:
                continue
            seen.add(id(f))
            names = [(c.func.id, c) for c in self.calls_of(f) if isinstance(c.func, ast.Name)]
            for dec in f.decorator_list:
                dn = dec.func if isinstance(dec, ast.Call) else dec
                if isinstance(dn, ast.Name):
                    names.append((dn.id, None))
            for nm, c in names:
                d = resolve_callable(self.M(f), f, c) if c is not None else None
                if d is None and not self._shadowed(f, nm):
                    t_ = self.foreign_def(f, nm)
                    if t_ is not None:
                        m3, d3 = t_
                        if m3.rel not in self.mods and len(self.mods) <= self.MAX_ADOPTED:
                            self._add_module(m3)
                            grew = True
                        if m3.rel in self.mods and isinstance(d3, (ast.FunctionDef, ast.AsyncFunctionDef)):
                            d = d3
                if d is not None:
                    work.append(d)
                    work += [x for x in self.nodes_of(d) if isinstance(x, (ast.FunctionDef, ast.AsyncFunctionDef)) and x is not d]
            for c in self.calls_of(f):
                if isinstance(c.func, ast.Attribute):
                    d = resolve_callable(self.M(f), f, c)
                    if d is not None:
                        work.append(d)
        return grew

    def nodes_of(self, fn: ast.AST) -> List[ast.AST]:
        hit = self._nodes.get(id(fn))
        if hit is None or hit[0] is not fn:
            hit = (fn, list(pf.walk_shallow(fn)))
            self._nodes[id(fn)] = hit
        return hit[1]

    def calls_of(self, fn: ast.AST) -> List[ast.Call]:
        return [n for n in self.nodes_of(fn) if isinstance(n, ast.Call)]

    # -- syntactic pre-scans -------------------------------------------------------------------
    def _scan_objattr_roots(self, info: _ModInfo) -> Set[str]:
        """`X.attr` for module-level functions / classes X whose attribute is stored to (or into) somewhere in the module: function
        attributes and class-level containers used as per-process state."""
        out: Set[str] = set()

        def base(t: ast.AST) -> None:
            cur = t
            while isinstance(cur, (ast.Subscript, ast.Attribute)):
                if isinstance(cur, ast.Attribute) and isinstance(cur.value, ast.Name) and cur.value.id in info.defs:
                    out.add(f'{cur.value.id}.{cur.attr}')
                    return
                cur = cur.value
        for n in ast.walk(info.m.tree):
            if isinstance(n, ast.Assign):
                for t in _flatten_targets(n.targets):
                    base(t)
            elif isinstance(n, (ast.AugAssign, ast.AnnAssign)):
                base(n.target)
            elif isinstance(n, ast.Call) and isinstance(n.func, ast.Attribute) and n.func.attr in STORE_METHODS:
                base(n.func.value)
        return out

    def _refs_in(self, scope: ast.AST, name: str) -> Tuple[int, int]:
        """(loads of the identifier, attribute references .name) inside scope."""
        if id(scope) in self._by_tree:
            return self._by_tree[id(scope)].loads.get(name, 0), self._by_tree[id(scope)].attr_refs.get(name, 0)
        a = b = 0
        for n in ast.walk(scope):
            if isinstance(n, ast.Name) and n.id == name and isinstance(n.ctx, ast.Load):
                a += 1
            elif isinstance(n, ast.Attribute) and n.attr == name:
                b += 1
        return a, b

    def _build_call_index(self) -> None:
        """callee -> call sites (caller, call, is_method) for calls that resolve by scoping; decorator applications as synthetic
        call sites of the decorator's (or the decorator factory's inner function's) first parameter."""
        self.sites: Dict[int, List[Tuple[FuncDef, ast.Call, bool]]] = {}
        for q, g in self.funcs:
            for c in self.calls_of(g):
                d = self.resolve(g, c)
                if d is not None:
                    self.sites.setdefault(id(d), []).append((g, c, isinstance(c.func, ast.Attribute)))
        self.deco_actuals: Dict[Tuple[int, str], List[FuncDef]] = {}
        self.deco_of: Dict[int, List[FuncDef]] = {}
        for q, f in self.funcs:
            outer = enclosing_funcs(self.M(f), f)
            for dec in f.decorator_list:
                target: Optional[FuncDef] = None
                dn = dec.func if isinstance(dec, ast.Call) else dec
                if not isinstance(dn, ast.Name):
                    continue
                D = None
                for scope in outer:
                    D = _defs_directly_in(scope).get(dn.id)
                    if D is not None:
                        break
                D = D or _defs_directly_in(self.M(f).tree).get(dn.id)
                if D is None and not self._shadowed(f, dn.id):
                    t_ = self.foreign_def(f, dn.id)
                    if t_ is not None and t_[0].rel in self.mods and isinstance(t_[1], (ast.FunctionDef, ast.AsyncFunctionDef)):
                        D = t_[1]
                if D is None:
                    continue
                if isinstance(dec, ast.Name):
                    target = D
                else:
                    inner = _defs_directly_in(D)
                    for r in self.nodes_of(D):
                        if isinstance(r, ast.Return) and isinstance(r.value, ast.Name) and r.value.id in inner:
                            target = inner[r.value.id]
                if target is None:
                    continue
                ps = [a.arg for a in target.args.posonlyargs + target.args.args]
                if ps:
                    self.deco_actuals.setdefault((id(target), ps[0]), []).append(f)
                    self.deco_of.setdefault(id(f), []).append(target)
        self._closed: Dict[int, bool] = {}

    def closed(self, fn: FuncDef) -> bool:
        """Every call of fn is a call site we know: a private (underscore) or nested function that is referenced only as the callee of
        resolved calls, carries no decorator and is not ambiguous.  Then its parameters ARE the union of the actual arguments."""
        hit = self._closed.get(id(fn))
        if hit is not None:
            return hit
        mm = self.M(fn)
        outer = enclosing_funcs(mm, fn)
        par = mm.parents().get(fn)
        while par is not None and not isinstance(par, (ast.FunctionDef, ast.AsyncFunctionDef, ast.ClassDef, ast.Module)):
            par = mm.parents().get(par)
        sites = self.sites.get(id(fn), [])
        ok = bool(sites) and not fn.decorator_list and not (fn.name.startswith('__') and fn.name.endswith('__'))
        if ok:
            if isinstance(par, ast.ClassDef):
                ok = fn.name.startswith('_') and self._refs_in(mm.tree, fn.name)[1] == len(sites) and len(self.by_name.get(fn.name, [])) == 1
            elif outer:
                scope = outer[0]
                ok = self._refs_in(scope, fn.name)[0] == len(sites) and sum(1 for d in pf._body_defs(scope) if getattr(d, 'name', None) == fn.name) == 1
            else:
                ok = fn.name.startswith('_') and self._refs_in(mm.tree, fn.name) == (len(sites), 0) and len(self.by_name.get(fn.name, [])) == 1
        self._closed[id(fn)] = ok
        return ok

    # -- reader closure -------------------------------------------------------------------
    def _compute_readers(self) -> None:
        for q, f in self.funcs:
            for c in self.calls_of(f):
                if (pf.dotted(c.func) or '').split('.')[-1] in self.converters:
                    self.direct.add(id(f))
        self.readers |= self.direct
        self._close_readers()

    def _close_readers(self) -> None:
        changed = True
        while changed:
            changed = False
            names = {f.name for q, f in self.funcs if id(f) in self.readers}
            for q, f in self.funcs:
                if id(f) in self.readers:
                    continue
                for n in self.nodes_of(f):
                    if isinstance(n, ast.Name) and isinstance(n.ctx, ast.Load) and n.id in names and n.id not in assignments(f):
                        self.readers.add(id(f))
                        changed = True
                        break
            # resolved calls (self.method(...), Class(...).method(...), helpers of adopted modules): the caller of a reader is a reader
            for q, f in self.funcs:
                if id(f) in self.readers:
                    for g, c, is_m in self.sites.get(id(f), []):
                        if id(g) not in self.readers:
                            self.readers.add(id(g))
                            changed = True
        # the wrapper a decorator of this module puts around a reader calls the reader through the decorator's parameter
        for (tid, pname), decorated in self.deco_actuals.items():
            if not any(id(f) in self.readers for f in decorated):
                continue
            for q, f in self.funcs:
                if id(f) in self.readers or not (id(f) == tid or any(id(s_) == tid for s_ in enclosing_funcs(self.M(f), f))):
                    continue
                if any(isinstance(n, ast.Name) and n.id == pname and isinstance(n.ctx, ast.Load) for n in self.nodes_of(f)) and (id(f) == tid or pname not in assignments(f)):
                    self.wrappers.add(id(f))
        self._memo.clear()

    def is_reader_name(self, fn: FuncDef, name: str) -> Optional[FuncDef]:
        for scope in [fn] + enclosing_funcs(self.M(fn), fn):
            if name in assignments(scope):
                return None
            d = _defs_directly_in(scope).get(name)
            if d is not None:
                return d if id(d) in self.readers else None
        d = _defs_directly_in(self.M(fn).tree).get(name)
        return d if d is not None and id(d) in self.readers else None

    # -- module-level names -------------------------------------------------------------------
    def module_names(self, fn: Optional[ast.AST] = None) -> Dict[str, ast.AST]:
        return (self.MI(fn) if fn is not None else self.mods[self.m.rel]).names

    @staticmethod
    def _immutable_expr(e: ast.AST) -> bool:
        if isinstance(e, ast.Constant):
            return True
        if isinstance(e, (ast.Tuple,)):
            return all(StatusProvenance._immutable_expr(x) for x in e.elts)
        if isinstance(e, (ast.BinOp, ast.UnaryOp)):
            return all(StatusProvenance._immutable_expr(x) for x in ast.iter_child_nodes(e) if isinstance(x, ast.expr))
        if isinstance(e, ast.Call) and (pf.dotted(e.func) or '').split('.')[-1] in ('frozenset', 'int', 'str', 'float', 'compile', 'getLogger', 'RouteTableDef', 'TypeVar', 'ParamSpec', 'AppKey'):
            return True
        return False

    @staticmethod
    def _mutable_expr(e: Optional[ast.AST]) -> bool:
        if e is None:
            return False
        if isinstance(e, (ast.Dict, ast.List, ast.Set, ast.ListComp, ast.DictComp, ast.SetComp)):
            return True
        return isinstance(e, ast.Call) and not StatusProvenance._immutable_expr(e)

    def is_typed(self, a: Atom) -> bool:
        """May the value carry batch / job-group status?"""
        if a[0] == 'ret':
            return a[2] is True or a[1] in self.typed_roots
        if a[0] == 'db':
            return a[2] is True or a[1] in self.status_lines
        return len(a) == 3 and a[2] is True

    # -- provenance -------------------------------------------------------------------
    def appish(self, fn: FuncDef, e: ast.expr) -> bool:
        if isinstance(e, ast.Name):
            if e.id != 'app':
                return False
            hit = self._appish.get(id(fn))
            if hit is None:
                defs = assignments(fn).get('app', [])
                hit = all(isinstance(d, ast.arg) or (isinstance(d, ast.expr) and pf.dotted(d) in APPISH) for d in defs) if defs else True
                self._appish[id(fn)] = hit
            return hit
        return isinstance(e, ast.Attribute) and e.attr in ('app', 'config_dict') and pf.dotted(e) in APPISH

    def _app_entry(self, key: ast.expr) -> Set[Atom]:
        if pf.const_str(key) == 'db':
            return {('dbh',)}
        return {('ret', f'app[{pf.nsrc(key)}]', False)}

    def mutations(self, fn: FuncDef) -> Dict[str, List[Tuple[ast.AST, Optional[ast.expr], ast.expr]]]:
        """local name -> (statement, target or None, value) for values that flow INTO the object it names by mutation: x[k] = v, x.attr = v,
        x.update(v), x.append(v) ..."""
        hit = self._mutations.get(id(fn))
        if hit is not None:
            return hit
        out: Dict[str, List[Tuple[ast.AST, Optional[ast.expr], ast.expr]]] = {}

        def base_name(t: ast.AST) -> Optional[str]:
            cur = t
            while isinstance(cur, (ast.Subscript, ast.Attribute)):
                cur = cur.value
            return cur.id if isinstance(cur, ast.Name) else None
        for n in self.nodes_of(fn):
            if isinstance(n, (ast.Assign, ast.AugAssign, ast.AnnAssign)) and n.value is not None:
                for t in _flatten_targets(n.targets if isinstance(n, ast.Assign) else [n.target]):
                    if isinstance(t, (ast.Subscript, ast.Attribute)):
                        b = base_name(t)
                        if b is not None:
                            out.setdefault(b, []).append((n, t, n.value))
            elif isinstance(n, ast.Call) and isinstance(n.func, ast.Attribute) and n.func.attr in STORE_METHODS:
                b = base_name(n.func.value)
                if b is not None:
                    for v in list(n.args) + [k.value for k in n.keywords]:
                        out.setdefault(b, []).append((n, None, v))
        self._mutations[id(fn)] = out
        return out

    # -- field sensitivity at the two ends where keys are constants -------------------------------------
    def const_keys(self, fn: FuncDef, sl: ast.AST) -> Optional[Set[str]]:
        """The string keys a subscript may use, when they are constants: 'k', or a loop / comprehension variable over a literal tuple."""
        k = pf.const_str(sl)
        if k is not None:
            return {k}
        if isinstance(sl, ast.Name):
            keys: Set[str] = set()
            defs = [d for scope in [fn] + enclosing_funcs(self.M(fn), fn) for d in assignments(scope).get(sl.id, [])]
            if not defs:
                return None
            for d in defs:
                it = d.iter if isinstance(d, (ast.For, ast.AsyncFor, ast.comprehension)) and isinstance(d.target, ast.Name) else None
                if isinstance(it, ast.Name) and it.id in self.module_names(fn) and it.id not in self.MI(fn).global_rebound:
                    it = self.module_names(fn)[it.id]
                if not isinstance(it, (ast.Tuple, ast.List, ast.Set)) or not it.elts or not all(pf.const_str(x) is not None for x in it.elts):
                    return None
                keys |= {pf.const_str(x) for x in it.elts}
            return keys
        return None

    def is_status_obj(self, fn: FuncDef, e: ast.AST, busy: Optional[Set[Tuple[Any, ...]]] = None) -> bool:
        """Is the local name e, evidently, ONE status row / ONE status dict (not a container of them): every definition is the result of a
        converter, a fetchone on the database handle, or the loop variable over a fetchall."""
        if not isinstance(e, ast.Name):
            return False
        defs = assignments(fn).get(e.id)
        if not defs:
            return False

        def on_db(c: ast.AST, methods: Tuple[str, ...]) -> bool:
            if isinstance(c, ast.Await):
                c = c.value
            return isinstance(c, ast.Call) and isinstance(c.func, ast.Attribute) and c.func.attr in methods and ('dbh',) in self.prov(fn, c.func.value, 'exp', busy)
        for d in defs:
            v = d.value if isinstance(d, ast.Await) else d
            if isinstance(v, ast.Call):
                if (pf.dotted(v.func) or '').split('.')[-1] in self.converters or on_db(v, ('select_and_fetchone', 'execute_and_fetchone')):
                    continue
                return False
            if isinstance(d, (ast.For, ast.AsyncFor, ast.comprehension)) and isinstance(d.target, ast.Name) and on_db(d.iter, ('select_and_fetchall', 'execute_and_fetchall')):
                continue
            return False
        return True

    def off_topic(self, fn: FuncDef, t: ast.AST, busy: Optional[Set[Tuple[Any, ...]]] = None) -> bool:
        """t = <status row / dict>[k] with every possible k a constant outside the completion fields (cost, attributes, ...)."""
        if not (isinstance(t, ast.Subscript) and isinstance(t.value, ast.Name)):
            return False
        keys = self.const_keys(fn, t.slice)
        return keys is not None and not (keys & COMPLETION_FIELDS) and self.is_status_obj(fn, t.value, busy)

    def prov(self, fn: FuncDef, e: ast.AST, mode: str = 'exp', busy: Optional[Set[Tuple[Any, ...]]] = None) -> Set[Atom]:
        """Provenance atoms of expression e of function fn.  mode 'exp': parameters are expanded to the actual arguments of the known call
        sites (context-insensitive; top-level queries).  mode 'sum': parameters stay symbolic ('param' atoms) - used for function summaries,
        which a call site instantiates with its own actuals (context-sensitive)."""
        busy = busy if busy is not None else set()
        P = lambda x: self.prov(fn, x, mode, busy)  # noqa: E731
        if e is None or isinstance(e, ast.Constant):
            return set()
        if isinstance(e, ast.Lambda):
            out = set()
            bound = {a.arg for a in e.args.posonlyargs + e.args.args + e.args.kwonlyargs}
            for n in ast.walk(e.body):
                if isinstance(n, ast.Name) and isinstance(n.ctx, ast.Load) and n.id not in bound:
                    out |= {a for a in P(n) if a[0] in ('fref', 'ret', 'apph')}
            return out
        if isinstance(e, ast.Await):
            return P(e.value)
        if isinstance(e, ast.Name):
            if self.appish(fn, e):
                return {('apph',)}
            return self._name(fn, e.id, mode, busy)
        if isinstance(e, ast.Subscript):
            if self.off_topic(fn, e, busy):
                return {('dbf', a[1], False) for a in P(e.value) if a[0] == 'db'}
            base = {('apph',)} if self.appish(fn, e.value) else P(e.value)
            out = {a for a in base if a[0] not in ('dbh', 'apph')}
            if ('apph',) in base:
                out |= self._app_entry(e.slice)
            return out
        if isinstance(e, ast.Attribute):
            if self.appish(fn, e):
                return {('apph',)}
            if isinstance(e.value, ast.Name) and e.value.id in ('self', 'cls'):
                if self._self_attr_is_dbh(fn, e.attr, busy):
                    return {('dbh',)}
                return {('ret', f'{e.value.id}.{e.attr}', False)}
            if isinstance(e.value, ast.Name) and f'{e.value.id}.{e.attr}' in self.objattr_roots and not any(e.value.id in assignments(s) for s in [fn] + enclosing_funcs(self.M(fn), fn)):
                return {('ret', f'{e.value.id}.{e.attr}', False)}
            base = P(e.value)
            if ('dbh',) in base:
                return {('ret', f'attribute {e.attr} of the database handle', False)} | {a for a in base if a[0] != 'dbh'}
            return base
        if isinstance(e, ast.Call):
            return self._call(fn, e, mode, busy)
        if isinstance(e, (ast.ListComp, ast.SetComp, ast.GeneratorExp)):
            return P(e.elt)
        if isinstance(e, ast.DictComp):
            return P(e.key) | P(e.value)
        if isinstance(e, ast.Dict):
            out = set()
            for k, v in zip(e.keys, e.values):
                out |= P(v)
            return out
        if isinstance(e, ast.Starred):
            return P(e.value)
        if isinstance(e, ast.IfExp):
            return P(e.body) | P(e.orelse)
        if isinstance(e, ast.Compare):
            return set()
        if isinstance(e, ast.NamedExpr):
            return P(e.value)
        out = set()
        for c in ast.iter_child_nodes(e):
            if isinstance(c, ast.expr):
                out |= P(c)
        return out

    def _self_attr_is_dbh(self, fn: FuncDef, attr: str, busy: Set[Tuple[Any, ...]]) -> bool:
        """self.<attr> of the class fn belongs to is the database handle: every assignment to it in the class stores the handle."""
        c = enclosing_class(self.M(fn), fn)
        if c is None:
            return False
        key = (id(c), attr)
        hit = self._dbh_attr.get(key)
        if hit is not None:
            return hit
        self._dbh_attr[key] = False   # while it is being decided
        vals = []
        for meth in c.body:
            if isinstance(meth, (ast.FunctionDef, ast.AsyncFunctionDef)):
                for n in self.nodes_of(meth):
                    if isinstance(n, (ast.Assign, ast.AnnAssign)) and n.value is not None:
                        for t in _flatten_targets(n.targets if isinstance(n, ast.Assign) else [n.target]):
                            if isinstance(t, ast.Attribute) and isinstance(t.value, ast.Name) and t.value.id == 'self' and t.attr == attr:
                                vals.append((meth, n.value))
        res = bool(vals) and all(('dbh',) in self.prov(meth, v, 'exp', set()) for meth, v in vals)
        self._dbh_attr[key] = res
        return res

    def _escapes(self, scope: FuncDef, fn: FuncDef) -> bool:
        """Does the function nested in `scope` on the way to fn outlive the invocation of scope: scope returns a reference to it
        (decorators, factories), not merely its result."""
        key = (id(scope), id(fn))
        hit = self._esc.get(key)
        if hit is not None:
            return hit
        chain = [fn] + enclosing_funcs(self.M(fn), fn)
        res = False
        if scope in chain and chain.index(scope) > 0:
            child = chain[chain.index(scope) - 1]
            for r in self.returns_of(scope):
                callees = {id(c.func) for c in ast.walk(r.value) if isinstance(c, ast.Call)}
                if any(isinstance(n, ast.Name) and n.id == child.name and id(n) not in callees for n in ast.walk(r.value)):
                    res = True
        self._esc[key] = res
        return res

    def returns_of(self, fn: FuncDef) -> List[ast.AST]:
        hit = self._rets.get(id(fn))
        if hit is None:
            hit = [r for r in self.nodes_of(fn) if isinstance(r, (ast.Return, ast.Yield)) and r.value is not None]
            self._rets[id(fn)] = hit
        return hit

    def _name(self, fn: FuncDef, name: str, mode: str, busy: Set[Tuple[Any, ...]]) -> Set[Atom]:
        key = (id(fn), name, mode, self.obj_mode)
        if key in self._memo:
            return set(self._memo[key])
        if key in busy or len(busy) > 60:
            # cycle: the value under construction is not known yet; whoever is being computed right now depends on it
            self._frames[-1].add(key if key in busy else ('depth',))
            return set()
        busy.add(key)
        self._frames.append(set())
        try:
            out = self._name_uncached(fn, name, mode, busy)
        finally:
            busy.discard(key)
            pending = self._frames.pop()
        pending.discard(key)   # the cycle through this very name is closed now
        if not pending:
            self._memo[key] = set(out)
        else:
            self._frames[-1] |= pending
        return out

    def _name_uncached(self, fn: FuncDef, name: str, mode: str, busy: Set[Tuple[Any, ...]]) -> Set[Atom]:
        for scope in [fn] + enclosing_funcs(self.M(fn), fn):
            defs = assignments(scope).get(name)
            if name in self._globals.get(id(scope), ()):
                out: Set[Atom] = {('ret', self.gname(fn, name), False)}
                for d in defs or []:
                    out |= self._def(scope, name, d, mode, busy)
                return out
            if defs:
                out = set()
                for d in defs:
                    out |= self._def(scope, name, d, mode, busy)
                if not self.obj_mode:
                    for _, t, v in self.mutations(scope).get(name, []):
                        if t is not None and self.off_topic(scope, t, busy):
                            continue
                        out |= {a for a in self.prov(scope, v, mode, busy) if a[0] not in ('dbh', 'apph')}
                if scope is not fn and self._escapes(scope, fn) and any(not isinstance(d, ast.arg) for d in defs):
                    out.add(('ret', f'{name} (variable of {scope.name}, shared by every call of the function it returns)', False))
                return out
            d2 = _defs_directly_in(scope).get(name)
            if d2 is not None:
                return {('fref', d2.name, True)} if id(d2) in self.readers else set()
        d3 = _defs_directly_in(self.M(fn).tree).get(name)
        if d3 is not None:
            return {('fref', d3.name, True)} if id(d3) in self.readers else set()
        info = self.MI(fn)
        mv = info.names.get(name)
        if mv is not None or name in info.global_rebound:
            if name not in info.global_rebound and self._immutable_expr(mv):
                return set()
            return {('ret', self.gname(fn, name), False)}
        if name in info.imports:
            t_ = self.foreign_def(fn, name)   # a function / object imported by name from an adopted module of the repository
            if t_ is not None and t_[0].rel in self.mods:
                m3, d4 = t_
                if isinstance(d4, (ast.FunctionDef, ast.AsyncFunctionDef)):
                    return {('fref', d4.name, True)} if id(d4) in self.readers else set()
        return set()  # imported name / builtin

    def _default_of(self, fn: FuncDef, name: str) -> Optional[ast.expr]:
        a = fn.args
        pos = a.posonlyargs + a.args
        for x, d in zip(reversed(pos), reversed(a.defaults)):
            if x.arg == name:
                return d
        for x, d in zip(a.kwonlyargs, a.kw_defaults):
            if x.arg == name:
                return d
        return None

    def _default_atoms(self, fn: FuncDef, name: str) -> Set[Atom]:
        d = self._default_of(fn, name)
        if self._mutable_expr(d):
            return {('ret', f'{name} (default value of a parameter of {fn.name}: one object for the whole process)', False)}
        return set()

    def _def(self, scope: FuncDef, name: str, d: ast.AST, mode: str, busy: Set[Tuple[Any, ...]]) -> Set[Atom]:
        if isinstance(d, ast.arg):
            # the first parameter of a function decorated with @transaction(db) is a transaction on the database handle
            for dec in scope.decorator_list:
                if isinstance(dec, ast.Call) and (pf.dotted(dec.func) or '').split('.')[-1] == 'transaction' and dec.args:
                    params = [a.arg for a in scope.args.posonlyargs + scope.args.args]
                    if params and params[0] == name:
                        outer = enclosing_funcs(self.M(scope), scope)
                        if ('dbh',) in self.prov(outer[0] if outer else scope, dec.args[0], 'exp', busy):
                            return {('dbh',)}
            ann = d.annotation
            if ann is not None and ((pf.dotted(ann) or pf.const_str(ann) or '').split('.')[-1] in DB_TYPES):
                return {('dbh',)}
            if name in ('self', 'cls') or mode == 'sum':
                return {('param', name, False)} | self._default_atoms(scope, name)
            # WHO calls: the parameter is whatever the call sites pass (defaults are added where the call leaves the parameter out)
            out: Set[Atom] = set()
            for f in self.deco_actuals.get((id(scope), name), []):
                if id(f) in self.readers:
                    out.add(('fref', f.name, True))
            for g, c, is_m in self.sites.get(id(scope), []):
                b = bind_args(scope, c, is_m)
                if b is None:
                    for a in list(c.args) + [k.value for k in c.keywords]:
                        out |= self.prov(g, a, 'exp', busy)
                elif name in b:
                    out |= self._default_atoms(scope, name) if b[name] is self._default_of(scope, name) else self.prov(g, b[name], 'exp', busy)
            if not self.closed(scope):
                out.add(('param', name, False))
                out |= self._default_atoms(scope, name)
            return out
        if isinstance(d, ast.expr):
            return self.prov(scope, d, mode, busy)
        if isinstance(d, (ast.Assign, ast.AugAssign)):
            return self.prov(scope, d.value, mode, busy)
        if isinstance(d, (ast.For, ast.AsyncFor, ast.comprehension)):
            return self.prov(scope, d.iter, mode, busy)
        if isinstance(d, ast.withitem):
            return self.prov(scope, d.context_expr, mode, busy)
        return {('unk', f'binding of {name}', False)}

    # -- function summaries -------------------------------------------------------------------
    def summary(self, d: FuncDef, busy: Set[Tuple[Any, ...]]) -> Set[Atom]:
        """What d returns, its own parameters symbolic: ('param', p, typed) = whatever the caller passes for p (through a converter when typed);
        ('dbif', line, p) = the result of a query executed by this invocation IF p is the database handle."""
        key = ('summary', id(d), self.obj_mode)
        if key in self._memo:
            return set(self._memo[key])
        if key in busy:
            self._frames[-1].add(key)
            return set()
        busy.add(key)
        self._frames.append(set())
        try:
            out: Set[Atom] = set()
            for r in self.returns_of(d):
                out |= self.prov(d, r.value, 'sum', busy)
        finally:
            busy.discard(key)
            pending = self._frames.pop()
        pending.discard(key)
        if not pending:
            self._memo[key] = set(out)
        else:
            self._frames[-1] |= pending
        return out

    def _apply(self, fn: FuncDef, d: FuncDef, e: ast.Call, is_method: bool, mode: str, busy: Set[Tuple[Any, ...]]) -> Set[Atom]:
        """The summary of d instantiated with the actual arguments of call e in fn."""
        summ = self.summary(d, busy)
        formals = {x.arg for x in d.args.posonlyargs + d.args.args + d.args.kwonlyargs} | ({d.args.vararg.arg} if d.args.vararg else set()) | ({d.args.kwarg.arg} if d.args.kwarg else set())
        need = {a[1] for a in summ if a[0] == 'param' and a[1] in formals} | {a[2] for a in summ if a[0] == 'dbif' and a[2] in formals}
        env: Dict[str, Set[Atom]] = {}
        if need:
            b = bind_args(d, e, is_method)
            if b is not None:
                for k in need:
                    if k in b:
                        env[k] = self._default_atoms(d, k) if b[k] is self._default_of(d, k) else self.prov(fn, b[k], mode, busy)
            else:
                allp: Set[Atom] = set()
                for a in list(e.args) + [k.value for k in e.keywords]:
                    allp |= self.prov(fn, a, mode, busy)
                env = {k: set(allp) for k in need}
        out: Set[Atom] = set()
        for a in summ:
            if a[0] == 'param' and a[1] in formals and not (is_method and a[1] in ('self', 'cls')):
                for x in env.get(a[1], {('unk', f'argument {a[1]} of {d.name}', False)}):
                    out.add(_typed(x) if a[2] else x)
            elif a[0] == 'dbif' and a[2] in formals:
                act = env.get(a[2], set())
                if ('dbh',) in act:
                    out.add(('db', a[1], False))
                out |= {x for x in act if x[0] != 'dbh'}
            else:
                out.add(a)
        return out

    def _methods_on(self, roots: Sequence[str], attr: str) -> List[FuncDef]:
        out = []
        for r in roots:
            c = self.root_class.get(r)
            if c is not None:
                out += [x for x in c.body if isinstance(x, (ast.FunctionDef, ast.AsyncFunctionDef)) and x.name == attr]
        return out

    def _call(self, fn: FuncDef, e: ast.Call, mode: str, busy: Set[Tuple[Any, ...]]) -> Set[Atom]:
        P = lambda x: self.prov(fn, x, mode, busy)  # noqa: E731
        f = e.func
        name = pf.dotted(f) or ''
        args = list(e.args) + [k.value for k in e.keywords]
        if name.split('.')[-1] in self.converters and e.args:
            return {_typed(a) for a in P(e.args[0])} or {('unk', f'argument of {name}', True)}
        if isinstance(f, ast.Attribute):
            recv = P(f.value)
            if ('dbh',) in recv:
                if f.attr in DB_METHODS:
                    return {('db', self.lineref(fn, e), False)}
                return {('dbh',)}  # db.start(), tx.<other>: still the handle
            if f.attr in DB_METHODS and mode == 'sum':
                ps = [a for a in recv if a[0] == 'param']
                if ps:
                    return {('dbif', self.lineref(fn, e), a[1]) for a in ps} | {a for a in recv if a[0] != 'param'}
            if ('apph',) in recv:
                if f.attr in ('get', 'setdefault', '__getitem__', 'pop') and e.args:
                    return self._app_entry(e.args[0]) | {a for a in recv if a[0] == 'ret'}
            ret = {a for a in recv if a[0] == 'ret'}
            if ret:
                out = set(ret)  # any method of a retained object answers from retained state
                for d in self._methods_on(sorted(a[1] for a in ret), f.attr):
                    out |= {a for a in self._apply(fn, d, e, True, mode, busy) if a[0] != 'dbh'}
                return out
            d = self.resolve(fn, e)  # self.method(...)
            if d is not None:
                out = self._apply(fn, d, e, True, mode, busy)
                mdec = memo_decorator(d)
                if mdec:
                    out.add(('ret', f'results remembered by @{mdec} on {d.name}', any(self.is_typed(a) for a in out)))
                return out
            out = {a for a in recv if a[0] != 'dbh'}
            for a in args:
                out |= {x for x in P(a) if x[0] != 'dbh'}
            return out
        # plain call
        fatoms = P(f) if isinstance(f, ast.Name) else set()
        frefs = [a for a in fatoms if a[0] == 'fref']
        if frefs:
            out = {('reader', a[1], True) for a in frefs}
            for a in frefs:
                for d in self.by_name.get(a[1], []):
                    mdec = memo_decorator(d)
                    if mdec:
                        out.add(('ret', f'results remembered by @{mdec} on {d.name}', True))
            return out
        d = self.resolve(fn, e)
        if d is not None:
            mdec = memo_decorator(d)
            out = self._apply(fn, d, e, False, mode, busy)
            if mdec:
                out.add(('ret', f'results remembered by @{mdec} on {d.name}', any(self.is_typed(a) for a in out)))
            return out
        out = {a for a in fatoms if a[0] in ('ret', 'param')}  # a callable kept in retained state / passed in
        for a in args:
            out |= {x for x in P(a) if x[0] != 'dbh'}
        return out

    # -- which retained roots hold status values: who may store ---------------------------------------
    def obj_prov(self, fn: FuncDef, e: ast.expr) -> Set[Atom]:
        """Provenance of the OBJECT e denotes (what is it a part / an alias of), not of everything that was put into it."""
        self.obj_mode = True
        try:
            return self.prov(fn, e)
        finally:
            self.obj_mode = False

    def _ret_roots(self, fn: FuncDef, e: ast.expr) -> Set[str]:
        return {a[1] for a in self.obj_prov(fn, e) if a[0] == 'ret'}

    def _target_roots(self, fn: FuncDef, t: ast.expr) -> Set[str]:
        if isinstance(t, ast.Name):
            return {self.gname(fn, t.id)} if t.id in self._globals.get(id(fn), ()) else set()
        if isinstance(t, ast.Subscript):
            base = {('apph',)} if self.appish(fn, t.value) else self.obj_prov(fn, t.value)
            out = {a[1] for a in base if a[0] == 'ret'}
            if ('apph',) in base and pf.const_str(t.slice) != 'db':
                out.add(f'app[{pf.nsrc(t.slice)}]')
            return out
        if isinstance(t, ast.Attribute):
            if isinstance(t.value, ast.Name) and t.value.id in ('self', 'cls'):
                return {f'{t.value.id}.{t.attr}'}
            if isinstance(t.value, ast.Name) and f'{t.value.id}.{t.attr}' in self.objattr_roots:
                return {f'{t.value.id}.{t.attr}'}
            return self._ret_roots(fn, t.value)
        return set()

    def _collect_stores(self) -> None:
        self.stores = []
        for q, fn in self.funcs:
            for n in self.nodes_of(fn):
                if isinstance(n, (ast.Assign, ast.AugAssign, ast.AnnAssign)) and n.value is not None:
                    for t in _flatten_targets(n.targets if isinstance(n, ast.Assign) else [n.target]):
                        roots = self._target_roots(fn, t)
                        if roots:
                            self.stores.append(StoreSite(fn, q, n, roots, [n.value], True))
                elif isinstance(n, ast.Call) and isinstance(n.func, ast.Attribute) and n.func.attr not in READONLY_METHODS and n.func.attr not in DB_METHODS:
                    vals = list(n.args) + [k.value for k in n.keywords]
                    if not vals:
                        continue
                    recv = self.obj_prov(fn, n.func.value)
                    roots = {a[1] for a in recv if a[0] == 'ret'}
                    if ('apph',) in recv and n.func.attr == 'setdefault' and len(n.args) == 2:
                        roots, vals = {f'app[{pf.nsrc(n.args[0])}]'}, [n.args[1]]
                    if roots:
                        self.stores.append(StoreSite(fn, q, n, roots, vals, n.func.attr in STORE_METHODS))
                elif isinstance(n, ast.Call) and isinstance(n.func, ast.Name) and len(n.args) + len(n.keywords) >= 2 and self.resolve(fn, n) is None \
                        and n.func.id not in self.MI(fn).defs and n.func.id not in assignments(fn):
                    # a retained container handed, together with other values, to a function defined elsewhere: it may put them in
                    vals = list(n.args) + [k.value for k in n.keywords]
                    conts = [(v, {a[1] for a in self.obj_prov(fn, v) if a[0] == 'ret'}) for v in vals if isinstance(v, (ast.Name, ast.Subscript, ast.Attribute))]
                    for v, roots in conts:
                        if roots:
                            self.stores.append(StoreSite(fn, q, n, roots, [x for x in vals if x is not v], False))

    def _module_class(self, fn: FuncDef, e: ast.AST) -> Optional[ast.ClassDef]:
        if isinstance(e, ast.Await):
            e = e.value
        if isinstance(e, ast.Call) and isinstance(e.func, ast.Name):
            c = self.MI(fn).defs.get(e.func.id)
            if isinstance(c, ast.ClassDef) and not any(e.func.id in assignments(s) for s in [fn] + enclosing_funcs(self.M(fn), fn)):
                return c
        return None

    def _solve(self) -> None:
        """Fixpoint over: the store sites (which retained root, which values), the classes of retained objects (their methods become
        call sites), the roots that may hold a status, and the functions that answer from such a root (they are readers too)."""
        for _ in range(4):
            before = (len(self.readers), len(self.typed_roots), len(self.maybe_roots), len(self.root_class), len(self.status_lines))
            if self._adopt_reachable():
                self._build_call_index()
                self._compute_readers()
                self._memo.clear()
            self._collect_stores()
            # module-level objects: X = C(...)
            for info in list(self.mods.values()):
                for nm, v in info.names.items():
                    c = info.defs.get(v.func.id) if isinstance(v, ast.Call) and isinstance(v.func, ast.Name) else None
                    if isinstance(c, ast.ClassDef):
                        self.root_class.setdefault(nm if info.m is self.m else f'{info.m.rel}:{nm}', c)
            n_rc = len(self.root_class)
            for s in self.stores:
                if isinstance(s.node, (ast.Assign, ast.AnnAssign)):
                    c = self._module_class(s.fn, s.node.value)
                    if c is not None:
                        for r in s.roots:
                            self.root_class.setdefault(r, c)
            if len(self.root_class) != n_rc:
                self._memo.clear()
            if self.root_class:
                meths = {x.name for c in self.root_class.values() for x in c.body if isinstance(x, (ast.FunctionDef, ast.AsyncFunctionDef))}
                grew = False
                for q, g in self.funcs:
                    for c in self.calls_of(g):
                        if isinstance(c.func, ast.Attribute) and c.func.attr in meths and not (isinstance(c.func.value, ast.Name) and c.func.value.id in ('self', 'cls')):
                            for d in self._methods_on(sorted(self._ret_roots(g, c.func.value)), c.func.attr):
                                lst = self.sites.setdefault(id(d), [])
                                if not any(x[1] is c for x in lst):
                                    lst.append((g, c, True))
                                    grew = True
                if grew:
                    self._memo.clear()
                    self._closed.clear()
                    self._collect_stores()
            # a module-level object built around a reader: _cached_get_batch = alru_cache(maxsize=..)(_get_batch), CACHE = Cache(_get_batch, ..)
            for info in list(self.mods.values()):
                for nm, v in info.names.items():
                    if isinstance(v, ast.Call) and any(isinstance(x, ast.Name) and isinstance(x.ctx, ast.Load) and isinstance(info.defs.get(x.id), (ast.FunctionDef, ast.AsyncFunctionDef))
                                                       and id(info.defs[x.id]) in self.readers for x in ast.walk(v)):
                        self.typed_roots.add(nm if info.m is self.m else f'{info.m.rel}:{nm}')
            # rows that feed a converter are status records
            for q, fn in self.funcs:
                for c in self.calls_of(fn):
                    if (pf.dotted(c.func) or '').split('.')[-1] in self.converters and c.args:
                        self.status_lines |= {a[1] for a in self.prov(fn, c.args[0]) if a[0] == 'db'}
            for _ in range(4):
                n0 = len(self.typed_roots) + len(self.maybe_roots)
                for s in self.stores:
                    typed = False
                    for v in s.vals:
                        atoms = self.prov(s.fn, v)
                        if any(self.is_typed(a) for a in atoms):
                            typed = True
                        # a loader handed to a cache object: Cache(_get_batch, ...), Cache(lambda k: _get_batch(app, k)), functools.partial(_get_batch, app)
                        if isinstance(v, ast.Call):
                            for x in list(v.args) + [k.value for k in v.keywords]:
                                if any(a[0] == 'fref' for a in self.prov(s.fn, x)):
                                    typed = True
                    s.typed = typed
                    s.dbfed = any(a[0] == 'db' for v in s.vals for a in self.prov(s.fn, v))
                    if s.dbfed and s.definite and not any(p in self.startup for p in s.qual.split('.')):
                        self.dbfed_roots |= s.roots
                    if typed:
                        if s.definite:
                            self.typed_roots |= s.roots
                        else:
                            self.maybe_roots |= s.roots
                if len(self.typed_roots) + len(self.maybe_roots) == n0:
                    break
            # a function that answers from a retained object holding status dicts is a status reader too (and so are its callers)
            grew = False
            if self.typed_roots:
                for q, f in self.funcs:
                    if id(f) in self.readers:
                        continue
                    for r in self.nodes_of(f):
                        if isinstance(r, (ast.Return, ast.Yield)) and r.value is not None and any(a[0] == 'ret' and self.is_typed(a) for a in self.prov(f, r.value, 'sum')):
                            self.readers.add(id(f))
                            self.direct.add(id(f))
                            grew = True
                            break
            if grew:
                self._close_readers()
            if before == (len(self.readers), len(self.typed_roots), len(self.maybe_roots), len(self.root_class), len(self.status_lines)):
                break

    def store_sites_of(self, root: str) -> List[StoreSite]:
        return [s for s in self.stores if root in s.roots]

    def startup_only(self, root: str) -> bool:
        """Every store into the root happens while the process starts (configuration), never while it serves requests."""
        return all(any(p in self.startup for p in s.qual.split('.')) for s in self.store_sites_of(root) if s.definite) and root not in self.maybe_roots


class StatusFinding:
    def __init__(self, status: str, construct: str, message: str, line: int):
        self.status, self.construct, self.message, self.line = status, construct, message, line
        self.path: Optional[str] = None   # file of the construct when it is not the module that was asked about


STALE = ('other front-end replicas (batch/deployment.yaml runs several) commit updates, cancel or complete jobs without this process seeing it, and a read that was in flight when the entry was dropped puts the old answer back: '
         'e.g. a batch completes and is polled here, an update with jobs is committed through another replica (commit_batch_update re-opens it: state running, n_jobs increased), and this process keeps answering '
         'complete / the old n_jobs, n_completed - a client in wait() returns before the jobs it has just submitted have run')


def _where_stored(sp: StatusProvenance, root: str) -> str:
    ss = [s for s in sp.store_sites_of(root) if s.typed] or sp.store_sites_of(root)
    if not ss:
        return ''
    s = ss[0]
    return f' (stored by `{pf.nsrc(s.node)[:70]}` in {s.qual})'


def _validated_by_fresh_read(sp: StatusProvenance, fn: FuncDef, node: ast.AST) -> bool:
    """Is the statement control-dependent on a test that looks at a database row read by this invocation (a remembered answer that is
    re-validated against the database before it is served)?  Only definitions that can reach the test count (textually before it, or
    anywhere when the test sits in a loop): `x = memo.get(k); if x is not None: return x; ...; x = convert(row)` is not a validation."""
    par = sp.M(fn).parents()
    cur = node
    p = par.get(cur)
    chain = []
    while p is not None and p is not fn:
        chain.append((p, cur))
        cur = p
        p = par.get(cur)
    in_loop = any(isinstance(x, (ast.For, ast.AsyncFor, ast.While)) for x, _ in chain)

    def reach(e: ast.AST, line: int, depth: int) -> Set[Atom]:
        """atoms of e as evaluated at `line`: names are followed through the definitions that precede that line only"""
        if depth > 8:
            return set()
        if isinstance(e, ast.Await):
            return reach(e.value, line, depth)
        if isinstance(e, ast.Call):
            return sp.prov(fn, e)
        if isinstance(e, ast.Name):
            defs = assignments(fn).get(e.id)
            if not defs:
                return sp.prov(fn, e)
            out: Set[Atom] = set()
            for d in defs:
                ln = getattr(d, 'lineno', None)
                if isinstance(d, ast.arg):
                    out |= sp._def(fn, e.id, d, 'exp', set())
                    continue
                if not in_loop and ln is not None and ln >= line:
                    continue
                val = d if isinstance(d, ast.expr) else (d.value if isinstance(d, (ast.Assign, ast.AugAssign)) else (d.iter if isinstance(d, (ast.For, ast.AsyncFor, ast.comprehension)) else
                                                         (d.context_expr if isinstance(d, ast.withitem) else None)))
                out |= reach(val, ln or line, depth + 1) if val is not None else sp._def(fn, e.id, d, 'exp', set())
            return out
        out = set()
        for c in ast.iter_child_nodes(e):
            if isinstance(c, ast.expr):
                out |= reach(c, line, depth)
        return out
    for p, cur in chain:
        if isinstance(p, (ast.If, ast.While, ast.IfExp)) and not any(cur is x for x in ast.walk(p.test)):
            if any(a[0] in ('db', 'dbf') for a in reach(p.test, p.test.lineno, 0)):
                return True
    return False


def check_status_provenance(m: pf.Module, returns: bool = True) -> Tuple[List[StatusFinding], StatusProvenance]:
    sp = StatusProvenance(m)
    out: List[StatusFinding] = []
    stale = STALE
    for q, fn in sp.funcs:
        if id(fn) not in sp.readers and id(fn) not in sp.wrappers:
            continue
        rel = sp.M(fn).rel
        n_out = len(out)
        mdec = memo_decorator(fn)
        if mdec:
            out.append(StatusFinding('bad', f'{rel}::{q}::memoised', f'{q}, which returns batch / job-group status, is wrapped by @{mdec}: answers are served from a per-process memo instead of the database; {stale}', fn.lineno))
        # (a) what the converters are fed with
        for c in sp.calls_of(fn):
            cname = (pf.dotted(c.func) or '').split('.')[-1]
            if cname in sp.converters and c.args:
                atoms = sp.prov(fn, c.args[0])
                cons = f'{rel}::{q}::record given to {cname}'
                ret = sorted(a[1] for a in atoms if a[0] == 'ret')
                if ret:
                    out.append(StatusFinding('bad', cons, f'the record passed to {cname} can come from {ret[0]}{_where_stored(sp, ret[0])}, state that outlives the request, instead of a query executed by this request: {stale}', c.lineno))
                elif any(a[0] in ('unk', 'param', 'reader', 'apph') for a in atoms) or not any(a[0] == 'db' for a in atoms):
                    out.append(StatusFinding('undecided', cons, f'where the record passed to {cname} comes from is not decided ({sorted(str(a[:2]) for a in atoms)[:3]})', c.lineno))
                else:
                    out.append(StatusFinding('ok', cons, f'query result of this invocation (line(s) {sorted((a[1] for a in atoms if a[0] == "db"), key=str)})', c.lineno))
        if not returns:
            continue
        # (c) what the reader returns
        bad_ret = None
        und_ret = None
        n_ret = 0
        for r in sp.returns_of(fn):
            if True:
                n_ret += 1
                # the function's OWN reads (its parameters symbolic): what a caller passes in is the caller's business, and comes back to it through the summary
                atoms = sp.prov(fn, r.value, 'sum')
                hits = sorted(a[1] for a in atoms if a[0] == 'ret' and sp.is_typed(a))
                if hits and bad_ret is None:
                    bad_ret = (r, hits[0])
                soft = sorted(a[1] for a in atoms if a[0] == 'ret' and not sp.is_typed(a) and not sp.startup_only(a[1]))
                if soft and und_ret is None:
                    und_ret = (r, f'it is read back from {soft[0]}{_where_stored(sp, soft[0])}, state that outlives the request and is written while requests are served; whether a status can be in it is not decided')
                if ('apph',) in atoms and und_ret is None:
                    und_ret = (r, 'the application object itself is handed to code outside this module, whose answer is returned: whether that code answers from per-process state is not decided')
        cons = f'{rel}::{q}::returned status'
        if bad_ret is None:
            # a field of the status object overwritten from an object that other invocations fill from the database
            for name, muts in sp.mutations(fn).items():
                nm = ast.Name(id=name, ctx=ast.Load())
                obj = sp.obj_prov(fn, nm) if name in assignments(fn) else set()
                if not any(sp.is_typed(a) for a in obj) or any(a[0] == 'ret' for a in obj):
                    continue
                for st, t, v in muts:
                    if t is not None and sp.off_topic(fn, t):
                        continue
                    hits = sorted(a[1] for a in sp.prov(fn, v) if a[0] == 'ret' and a[1] in sp.dbfed_roots)
                    if hits and bad_ret is None:
                        bad_ret = (st, hits[0])
        if bad_ret is not None and _validated_by_fresh_read(sp, fn, bad_ret[0]):
            r, root = bad_ret
            out.append(StatusFinding('undecided', cons, f'`{pf.nsrc(r)[:80]}` answers from {root}, state that outlives the request, under a condition that depends on a database query of this request: whether that '
                                                        'comparison proves the remembered status current (n_jobs, state, time_completed all compared) is not decided', r.lineno))
        elif bad_ret is not None:
            r, root = bad_ret
            verb = 'answers with' if isinstance(r, (ast.Return, ast.Yield)) else 'overwrites completion fields of the reported status with'
            out.append(StatusFinding('bad', cons, f'`{pf.nsrc(r)[:80]}` {verb} a status that was read back from {root}{_where_stored(sp, root)} - state that outlives the request and into which this module stores status dicts - '
                                                  f'not from a query executed by this request (served from a process-local memo): {stale}', r.lineno))
        elif und_ret is not None:
            r, why = und_ret
            out.append(StatusFinding('undecided', cons, f'`{pf.nsrc(r)[:80]}`: {why}', r.lineno))
        elif id(fn) in sp.direct and n_ret:
            out.append(StatusFinding('ok', cons, f'{n_ret} return(s): no status read back from retained state', fn.lineno))
        elif id(fn) in sp.direct:
            # (d) a reporter that returns nothing SENDS the status (callback payloads): what it hands to other code
            cons = f'{rel}::{q}::status sent'
            sent = None
            n_sent = 0
            for c in sp.calls_of(fn):
                if (pf.dotted(c.func) or '').split('.')[-1] in sp.converters:
                    continue
                for a in list(c.args) + [k.value for k in c.keywords]:
                    atoms = sp.prov(fn, a)
                    if any(sp.is_typed(x) for x in atoms):
                        n_sent += 1
                        hits = sorted(x[1] for x in atoms if x[0] == 'ret' and sp.is_typed(x))
                        if hits and sent is None:
                            sent = (c, hits[0])
            if sent is not None:
                c, root = sent
                out.append(StatusFinding('bad', cons, f'`{pf.nsrc(c)[:80]}` sends a status that was read back from {root}{_where_stored(sp, root)} - state that outlives the invocation - not from a query executed by it: {stale}', c.lineno))
            elif n_sent:
                out.append(StatusFinding('ok', cons, f'{n_sent} argument(s) carrying a status: none read back from retained state', fn.lineno))
        for f_ in out[n_out:]:
            f_.path = sp.M(fn).path
    return out, sp


def check_converter_pure(m: pf.Module, fname: str) -> StatusFinding:
    """A record -> dict converter answers from its argument: no return of it reads state that outlives the call."""
    sp = StatusProvenance(m, converters=())
    fn = m.func(fname)
    cons = f'{m.rel}::{fname}::answers from its record'
    n = 0
    for r in sp.nodes_of(fn):
        if isinstance(r, (ast.Return, ast.Yield)) and r.value is not None:
            n += 1
            ret = sorted(a[1] for a in sp.prov(fn, r.value) if a[0] == 'ret')
            if ret:
                return StatusFinding('bad', cons, f'`{pf.nsrc(r)[:80]}` in {fname} answers from {ret[0]}{_where_stored(sp, ret[0])}, state that outlives the call, instead of the record it was given: every reporter of batch / job-group status '
                                                  f'goes through this function, so the reported completion and counts are those of an earlier request; {STALE}', r.lineno)
    if n == 0:
        return StatusFinding('undecided', cons, f'{fname} has no return statement with a value', fn.lineno)
    return StatusFinding('ok', cons, f'{n} return(s) computed from the parameter only', fn.lineno)
