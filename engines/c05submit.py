"""Submission-site facts shared by C05-R1 and C01-R5: what `_create_jobs` inserts per job, decided without relying on the spelling of the code
(static analysis only; nothing is imported or executed).

  prepare()        the function with its module-level helpers inlined (engines/inline.py; a tuple-unpacking call `a, b = h(..)` is first split
                   into `t = h(..); a = t[0]; b = t[1]`), so an extracted helper is analysed as if it had stayed in place
  embedded()       the execute-style calls of a module (of the prepared function, for a module returned by prepare()) with their SQL text; a text held in a module-level constant or in a variable of an
                   enclosing function is followed (engines/sqlfront.py only follows locals of the calling function)
  rows_of()        the rows an `execute_many` receives: the element tuple, the for-loops / comprehension generators that produce it and the
                   conditions under which a row is left out - for a comprehension, a generator expression, or a list that is created empty and
                   grown at ONE site by append / extend / += (several lists may share a loop); local, parameter and loop-variable names are
                   resolved, never compared with frozen strings
  path_guards()    conditions under which a statement is reached inside a loop / function: enclosing `if`s AND guard clauses in front of it
                   (`if c: continue / break / return / raise`), the guard-clause spelling of an enclosing `if not c:`
  JobLoop          truth-table evaluation of the per-job part of the submission loop.  The abstract domain is finite: the atoms the code tests
                   (first update?  absolute parent list empty?  in-update parent list empty?  always_run?  + opaque atoms for anything else).
                   For every valuation the straight-line effect of the loop body is computed on symbolic values: which constant the inserted
                   `state` is, which tallies are incremented by which amounts, which length expression feeds the parent count.  `if`/`else`,
                   defaults + guarded override, conditional expressions, boolean locals, nested ifs vs `and`, `x += w` vs `x = x + w`
                   all give the same table.  A verdict that depends on an opaque atom is declined by the callers, never reported.
"""
from __future__ import annotations

import ast
import copy
import os
from typing import Any, Dict, List, Optional, Sequence, Set, Tuple

from . import c0506facts as cf
from . import inline
from . import pyfacts as pf
from . import sqlfront as sf
from . import sqlrules as sr
from .common import AnalysisError, repo_path
from .linform import Lin

FuncDef = pf.FuncDef


# ======================================================================================
# inlining
# ======================================================================================
def _split_unpacking_calls(fn: FuncDef, helpers: Dict[str, FuncDef]) -> None:
    """`a, b = h(x)`  ==>  `_t = h(x); a = _t[0]; b = _t[1]`  for module-level helpers h (the inliner handles single targets only)."""
    n = [0]

    def block(stmts: List[ast.stmt]) -> List[ast.stmt]:
        out: List[ast.stmt] = []
        for st in stmts:
            if isinstance(st, ast.Assign) and len(st.targets) == 1 and isinstance(st.targets[0], (ast.Tuple, ast.List)) and isinstance(st.value, ast.Call) \
                    and isinstance(st.value.func, ast.Name) and st.value.func.id in helpers and all(isinstance(t, ast.Name) for t in st.targets[0].elts):
                n[0] += 1
                tmp = f'_unpacked__{st.value.func.id}{n[0]}'
                a0 = ast.copy_location(ast.Assign(targets=[ast.Name(id=tmp, ctx=ast.Store())], value=st.value, lineno=st.lineno), st)
                out.append(a0)
                for i, t in enumerate(st.targets[0].elts):
                    out.append(ast.copy_location(ast.Assign(targets=[ast.Name(id=t.id, ctx=ast.Store())],
                                                            value=ast.Subscript(value=ast.Name(id=tmp, ctx=ast.Load()), slice=ast.Constant(value=i), ctx=ast.Load()), lineno=st.lineno), st))
                for x in out[-(len(st.targets[0].elts) + 1):]:
                    ast.fix_missing_locations(x)
                continue
            for fld in ('body', 'orelse', 'finalbody'):
                b = getattr(st, fld, None)
                if isinstance(b, list) and b and isinstance(b[0], ast.stmt) and not isinstance(st, (ast.FunctionDef, ast.AsyncFunctionDef, ast.ClassDef)):
                    setattr(st, fld, block(b))
            if isinstance(st, ast.Try):
                for h in st.handlers:
                    h.body = block(h.body)
            out.append(st)
        return out
    fn.body = block(fn.body)


def prepare(m: pf.Module, target: str, nested: bool = False, exclude: Sequence[str] = ()) -> Tuple[pf.Module, FuncDef, inline.Inliner]:
    """Copy of the module in which the module-level function `target` has its module-level helper calls inlined.  Only the target function
    is copied (it is the only thing rewritten); the other top-level nodes are shared with the original module and never modified (the
    inliner copies a helper's body for every expansion)."""
    m.func(target)
    body: List[ast.stmt] = []
    for st in m.tree.body:
        body.append(copy.deepcopy(st) if isinstance(st, (ast.FunctionDef, ast.AsyncFunctionDef)) and st.name == target else st)
    tree = ast.Module(body=body, type_ignores=[])
    m2 = pf.Module(m.rel, m.path, m.src, tree)
    helpers = {f.name: f for f in tree.body if isinstance(f, (ast.FunctionDef, ast.AsyncFunctionDef)) and f.name != target and f.name not in exclude}
    fn = m2.func(target)
    _split_unpacking_calls(fn, helpers)
    il = inline.Inliner(helpers, None, 3)
    il.run(fn)
    if nested:
        # the functions defined inside the target (transaction bodies, closures) call module-level helpers too
        for sub in ast.walk(fn):
            if isinstance(sub, (ast.FunctionDef, ast.AsyncFunctionDef)) and sub is not fn:
                _split_unpacking_calls(sub, helpers)
                il.run(sub)
    # parent map: the shared nodes keep the parents they have in the original module, only the copied function is walked
    par = dict(m.parents())
    for st in tree.body:
        par[st] = tree
    for p_ in ast.walk(fn):
        for c_ in ast.iter_child_nodes(p_):
            par[c_] = p_
    m2._parents = par
    m2._scope = fn  # type: ignore[attr-defined]   (embedded() looks at the prepared function only: everything else is the original module)
    return m2, fn, il


_prepared: Dict[Tuple[Any, ...], Tuple[pf.Module, FuncDef, inline.Inliner]] = {}


def prepared(m: pf.Module, target: str, nested: bool = True, exclude: Sequence[str] = ()) -> Tuple[pf.Module, FuncDef, inline.Inliner]:
    """prepare(), remembered per (module, function, helpers left alone)."""
    k = (m.path, target, nested, tuple(exclude))
    if k not in _prepared:
        _prepared[k] = prepare(m, target, nested, exclude)
    return _prepared[k]


def outermost_function(m: pf.Module, node: ast.AST) -> Optional[FuncDef]:
    fs = cf.enclosing_funcs(m, node)
    if isinstance(node, (ast.FunctionDef, ast.AsyncFunctionDef)):
        fs = [node] + fs
    return fs[-1] if fs else None


def counterpart(m2: pf.Module, scope: ast.AST, node: ast.AST, kind: type = ast.Call) -> Optional[ast.AST]:
    """The node of the prepared copy that stems from `node` of the original module (same position and source text)."""
    want = (getattr(node, 'lineno', None), getattr(node, 'col_offset', None), pf.nsrc(node))
    for x in ast.walk(scope):
        if isinstance(x, kind) and (getattr(x, 'lineno', None), getattr(x, 'col_offset', None)) == want[:2] and pf.nsrc(x) == want[2]:
            return x
    return None


scope_chain = cf.scope_chain
binding_scope = cf.binding_scope
_rebound_elsewhere = cf._rebound_elsewhere
module_const = cf.module_const
single_def = cf.single_def
_sql_text = cf.followed_sql_text


_emb_cache: Dict[int, List[sf.Embedded]] = {}


def embedded(m: pf.Module) -> List[sf.Embedded]:
    """sf.embedded_in for THIS module object (a copy with inlined helpers has its own nodes), SQL texts followed through module-level
    constants and variables of enclosing functions."""
    hit = _emb_cache.get(id(m.tree))
    if hit is not None:
        return hit
    out: List[sf.Embedded] = []
    for node in ast.walk(getattr(m, '_scope', None) or m.tree):
        if isinstance(node, ast.Call) and isinstance(node.func, ast.Attribute) and node.func.attr in sf.EXEC_METHODS and node.args:
            recv = pf.dotted(node.func.value) or pf.nsrc(node.func.value)
            fn = m.enclosing_func(node)
            sql, holes, how = _sql_text(m, fn, node.args[0])
            out.append(sf.Embedded(m, fn, node, node.func.attr, recv, sql, holes, how))
    _emb_cache[id(m.tree)] = out
    return out


def sql_constant_nodes(m: pf.Module) -> Set[int]:
    """ids of the string-constant nodes that are the (followed) SQL text of some execute-style call of the module."""
    covered: Set[int] = set()

    def cover(fn: Optional[FuncDef], e: ast.expr, depth: int) -> None:
        for n in ast.walk(e):
            covered.add(id(n))
        if isinstance(e, ast.Name) and depth < 3:
            holder, d = single_def(m, fn, e.id)
            if isinstance(d, ast.expr):
                cover(holder, d, depth + 1)
        elif isinstance(e, ast.JoinedStr):
            for v in e.values:
                if isinstance(v, ast.FormattedValue) and isinstance(v.value, ast.Name) and depth < 3:
                    holder, d = single_def(m, fn, v.value.id)
                    if isinstance(d, ast.expr):
                        cover(holder, d, depth + 1)
    for e in embedded(m):
        if e.sql_text is not None:
            cover(e.fn, e.call.args[0], 0)
    return covered


exit_kind = cf.exit_kind
path_guards = cf.path_guards


# ======================================================================================
# rows of an execute_many
# ======================================================================================
class Rows:
    def __init__(self) -> None:
        self.elts: List[ast.expr] = []
        self.binders: List[Tuple[ast.expr, ast.expr, ast.AST]] = []   # (target, iterable, loop / generator node) outermost first
        self.conds: List[Tuple[ast.expr, bool, str]] = []            # conditions under which a row is produced (kind as in path_guards / 'comp')
        self.holder: Optional[FuncDef] = None
        self.site: Optional[ast.AST] = None
        self.list_name: Optional[str] = None
        self.how = ''
        self.problem: Optional[str] = None
        self.chunk_iter: Optional[Tuple[Optional[FuncDef], ast.expr, ast.AST]] = None   # the rows are the loop variable of `for x in <iter>` around the call


def _is_empty_list(e: ast.AST) -> bool:
    return (isinstance(e, ast.List) and not e.elts) or (isinstance(e, ast.Call) and pf.dotted(e.func) == 'list' and not e.args and not e.keywords)


def _comp_rows(r: Rows, comp: ast.AST) -> bool:
    if isinstance(comp, ast.Call) and pf.dotted(comp.func) in ('list', 'tuple') and len(comp.args) == 1 and not comp.keywords:
        comp = comp.args[0]
    if isinstance(comp, (ast.List, ast.Tuple)) and len(comp.elts) == 1 and isinstance(comp.elts[0], ast.Tuple) and not any(isinstance(x, ast.Starred) for x in comp.elts[0].elts):
        r.elts = list(comp.elts[0].elts)
        return True
    if not isinstance(comp, (ast.ListComp, ast.GeneratorExp)) or not isinstance(comp.elt, ast.Tuple) or any(isinstance(x, ast.Starred) for x in comp.elt.elts):
        return False
    for g in comp.generators:
        if g.is_async:
            return False
        r.binders.append((g.target, g.iter, g))
        r.conds += [(c, True, 'comp') for c in g.ifs]
    r.elts = list(comp.elt.elts)
    return True


def rows_of(m: pf.Module, fn: Optional[FuncDef], arg: Optional[ast.expr]) -> Rows:
    """The rows passed as `arg` to an execute_many in fn.  `problem` is set (and nothing else can be relied on) when the shape is not one of
    the recognised ones."""
    r = Rows()
    r.holder = fn
    if arg is None:
        r.problem = 'no argument list'
        return r
    if not isinstance(arg, ast.Name):
        r.site, r.how = arg, 'comp'
        if not _comp_rows(r, arg):
            r.problem = f'`{pf.nsrc(arg)[:60]}` is not a comprehension of tuples'
        return r
    holder, d = single_def(m, fn, arg.id)
    r.list_name = arg.id
    if holder is None:
        r.problem = f'`{arg.id}` is not a local list'
        return r
    r.holder = holder
    defs = [x for x in cf.assignments(holder).get(arg.id, []) if not isinstance(x, ast.AugAssign)]
    if len(defs) != 1 or _rebound_elsewhere(m, holder, arg.id):
        r.problem = f'`{arg.id}` has {len(defs)} definitions'
        return r
    d = defs[0]
    if isinstance(d, (ast.For, ast.AsyncFor)):
        r.problem = f'`{arg.id}` is the variable of a loop over `{pf.nsrc(d.iter)[:60]}`'
        r.chunk_iter = (holder, d.iter, d)
        return r
    if not isinstance(d, ast.expr):
        r.problem = f'`{arg.id}` is not assigned a list'
        return r
    # every use of the list besides reading it
    grow: List[Tuple[str, ast.AST, ast.expr]] = []
    for x in ast.walk(holder):
        if not isinstance(x, (ast.Call, ast.AugAssign, ast.Delete, ast.Assign)):
            continue
        f_ = m.enclosing_func(x)
        if f_ is not holder and binding_scope(m, f_, arg.id) is not holder:
            continue  # a nested function with a local of the same name
        if isinstance(x, ast.Call) and isinstance(x.func, ast.Attribute) and isinstance(x.func.value, ast.Name) and x.func.value.id == arg.id:
            a = x.func.attr
            if a == 'append' and len(x.args) == 1:
                grow.append(('append', x, x.args[0]))
            elif a == 'extend' and len(x.args) == 1:
                grow.append(('extend', x, x.args[0]))
            elif a in ('insert', 'remove', 'pop', 'clear', '__delitem__', '__setitem__', 'sort', 'reverse'):
                r.problem = f'`{pf.nsrc(x)[:60]}` changes the list besides appending to it'
                return r
        elif isinstance(x, ast.AugAssign) and isinstance(x.target, ast.Name) and x.target.id == arg.id:
            if isinstance(x.op, ast.Add):
                grow.append(('extend', x, x.value))
            else:
                r.problem = f'`{pf.nsrc(x)[:60]}`'
                return r
        elif isinstance(x, (ast.Delete, ast.Assign)) and any(isinstance(t, ast.Subscript) and isinstance(t.value, ast.Name) and t.value.id == arg.id
                                                              for t in (x.targets if isinstance(x, (ast.Delete, ast.Assign)) else [])):
            r.problem = f'`{pf.nsrc(x)[:60]}` changes elements of the list'
            return r
    if not _is_empty_list(d):
        if grow:
            r.problem = f'`{arg.id}` is both assigned `{pf.nsrc(d)[:40]}` and grown'
            return r
        r.site, r.how = d, 'comp'
        if not _comp_rows(r, d):
            r.problem = f'`{arg.id} = {pf.nsrc(d)[:60]}` is not a comprehension of tuples'
        return r
    if len(grow) != 1:
        r.problem = f'`{arg.id}` is grown at {len(grow)} places'
        return r
    how, site, val = grow[0]
    if m.enclosing_func(site) is not holder:
        r.problem = f'`{arg.id}` is grown inside a nested function'
        return r
    r.site, r.how = site, how
    par = m.parents()
    init_stmt = par.get(d)
    init_loops = [l for l in sr.enclosing_loops(m, init_stmt)] if init_stmt is not None else []
    loops = [l for l in reversed(sr.enclosing_loops(m, site)) if any(l is x for x in pf.walk_shallow(holder)) and not any(l is t for t in init_loops)]
    if any(isinstance(p_, ast.While) for p_ in _ancestors(m, site, holder)):
        r.problem = f'`{arg.id}` is grown inside a while loop'
        return r
    if any(l.orelse for l in loops):
        r.problem = 'for .. else'
        return r
    for l in loops:
        r.binders.append((l.target, l.iter, l))
    stop = loops[0] if loops else holder
    r.conds = [(t, pol, k) for t, pol, k in path_guards(m, site, stop)]
    if any(isinstance(p_, (ast.Try,)) and any(site is x for h in p_.handlers for s in h.body for x in ast.walk(s)) for p_ in _ancestors(m, site, holder)):
        r.problem = 'rows are appended in an exception handler'
        return r
    sub = Rows()
    if how == 'append':
        if isinstance(val, ast.Tuple) and not any(isinstance(x, ast.Starred) for x in val.elts):
            r.elts = list(val.elts)
        else:
            r.problem = f'`{pf.nsrc(site)[:60]}` does not append a tuple display'
    else:
        if _comp_rows(sub, val):
            r.elts = sub.elts
            r.binders += sub.binders
            r.conds += sub.conds
        else:
            r.problem = f'`{pf.nsrc(site)[:60]}` does not extend the list by a comprehension of tuples'
    return r


def _ancestors(m: pf.Module, node: ast.AST, stop: ast.AST) -> List[ast.AST]:
    par = m.parents()
    out = []
    p = par.get(node)
    while p is not None and p is not stop:
        out.append(p)
        p = par.get(p)
    return out


# ======================================================================================
# imported helpers (is the producer of an iterable a one-shot iterator?)
# ======================================================================================
PKG_ROOTS = {'hailtop': 'hail/python/hailtop', 'gear': 'gear/gear', 'batch': 'batch/batch', 'web_common': 'web_common/web_common', 'auth': 'auth/auth', 'ci': 'ci/ci'}
ONE_SHOT_BUILTINS = ('iter', 'zip', 'map', 'filter', 'enumerate', 'reversed', 'itertools.chain', 'itertools.islice', 'itertools.batched', 'chain', 'islice', 'batched')


def imported_def(m: pf.Module, name: str, depth: int = 0) -> Optional[FuncDef]:
    """The function definition a name imported into module m refers to, following `from .x import y` re-exports inside the repository."""
    local = {d.name: d for d in pf._body_defs(m.tree) if isinstance(d, (ast.FunctionDef, ast.AsyncFunctionDef))}
    if name in local:
        return local[name]
    origin = m.imports().get(name)
    if origin is None or depth > 3:
        return None
    level = len(origin) - len(origin.lstrip('.'))
    parts = origin.lstrip('.').split('.')
    sym, modparts = parts[-1], parts[:-1]
    if level:
        base = m.rel.split('/')[:-1]
        base = base[:len(base) - (level - 1)] if level - 1 <= len(base) else None
        if base is None:
            return None
        cand_base = base + modparts
    else:
        if not modparts or modparts[0] not in PKG_ROOTS:
            return None
        cand_base = PKG_ROOTS[modparts[0]].split('/') + modparts[1:]
    for cand in ('/'.join(cand_base) + '.py', '/'.join(cand_base + ['__init__.py'])):
        if os.path.exists(repo_path(cand)):
            try:
                m3 = pf.load(cand)
            except AnalysisError:
                return None
            return imported_def(m3, sym, depth + 1)
    return None


def one_shot_iterator(m: pf.Module, fn: Optional[FuncDef], e: ast.expr) -> Optional[str]:
    """A description when the value of e is known to be an iterator that can be consumed only once (generator object, iter(), zip(), ...);
    None when it is a re-iterable container or unknown."""
    if isinstance(e, ast.GeneratorExp):
        return f'the generator expression `{pf.nsrc(e)[:60]}`'
    if isinstance(e, ast.Name):
        holder, d = single_def(m, fn, e.id)
        if isinstance(d, ast.expr):
            return one_shot_iterator(m, holder, d)
        return None
    if isinstance(e, ast.Call):
        name = pf.dotted(e.func) or ''
        if name in ONE_SHOT_BUILTINS:
            return f'`{pf.nsrc(e)[:60]}` ({name} returns an iterator)'
        if isinstance(e.func, ast.Name):
            d = cf.resolve_callable(m, fn, e) if fn is not None else None
            if d is None and binding_scope(m, fn, e.func.id) is None:
                d = imported_def(m, e.func.id)
            if d is not None and not isinstance(d, ast.AsyncFunctionDef) and any(isinstance(x, (ast.Yield, ast.YieldFrom)) for x in pf.walk_shallow(d)):
                return f'`{pf.nsrc(e)[:60]}` ({d.name} is a generator function: its result can be iterated once)'
    return None


def runs_in_retried_transaction(m: pf.Module, fn: Optional[FuncDef]) -> Optional[str]:
    """Name of a `@transaction(..)`-decorated function that (transitively, within the same enclosing function) calls fn - or is fn."""
    if fn is None:
        return None
    outer = cf.enclosing_funcs(m, fn)
    scope: ast.AST = outer[0] if outer else m.tree
    defs = {d.name: d for d in pf._body_defs(scope) if isinstance(d, (ast.FunctionDef, ast.AsyncFunctionDef))}

    def decorated(d: FuncDef) -> bool:
        return any((n or '').split('.')[-1] == 'transaction' for n in pf.decorator_names(d))
    seen: Set[str] = set()
    work = [fn.name]
    while work:
        cur = work.pop()
        if cur in seen or cur not in defs:
            continue
        seen.add(cur)
        if decorated(defs[cur]):
            return cur
        for name, d in defs.items():
            if name not in seen and any(isinstance(c.func, ast.Name) and c.func.id == cur for c in pf.calls_in(d)):
                work.append(name)
    return None


# ======================================================================================
# the per-job loop: truth tables over the atoms the code tests
# ======================================================================================
class _NeedAtom(Exception):
    def __init__(self, key: str):
        self.key = key


class _NeedName(Exception):
    def __init__(self, name: str):
        self.name = name


class _Reject(Exception):
    pass


class Decline(AnalysisError):
    pass


AMBIG = object()
UNKNOWN = object()

A_FIRST = 'first update'
A_ALWAYS = 'always_run'


def a_empty(key: str) -> str:
    return f'{key} empty'


class Tally:
    def __init__(self, key: Optional[ast.expr], col: Optional[str], op: str, amount: ast.expr, node: ast.AST):
        self.key, self.col, self.op, self.amount, self.node = key, col, op, amount, node


class Outcome:
    def __init__(self) -> None:
        self.val: Dict[str, bool] = {}
        self.rejected = False
        self.values: Dict[str, Any] = {}        # column -> python constant | UNKNOWN
        self.exprs: Dict[str, ast.expr] = {}    # column -> expression with branch-assigned locals replaced by their value on this path
        self.tallies: List[Tally] = []
        self.count: Optional[Lin] = None        # linear form of the parent-count column over the lengths of the request's lists


class _Subst(ast.NodeTransformer):
    def __init__(self, env: Dict[str, Any], carried: Set[str]):
        self.env, self.carried = env, carried

    def visit_Name(self, node: ast.Name):
        if isinstance(node.ctx, ast.Load) and node.id in self.env:
            v = self.env[node.id]
            if v is AMBIG:
                return ast.copy_location(ast.Name(id='__ambig__' + node.id, ctx=ast.Load()), node)
            return copy.deepcopy(v)
        if isinstance(node.ctx, ast.Load) and node.id in self.carried:
            return ast.copy_location(ast.Name(id='__carried__' + node.id, ctx=ast.Load()), node)
        return node

    def visit_Lambda(self, node):
        return node


def strip_markers(e: ast.AST) -> ast.AST:
    e = copy.deepcopy(e)
    for n in ast.walk(e):
        if isinstance(n, ast.Name):
            for pre in ('__ambig__', '__carried__'):
                if n.id.startswith(pre):
                    n.id = n.id[len(pre):]
    return e


class JobLoop:
    """The per-job loop of the submission function.

    row:       column -> expression of the tuple appended to the jobs rows (the `jobs` insert's column list zipped with the tuple)
    tally_dict the name of the mapping whose items feed the counter inserts (None: tallies are not looked at)
    """

    MAX_ATOMS = 10

    def __init__(self, m: pf.Module, fn: FuncDef, loop: ast.AST, row: Dict[str, ast.expr], row_site: ast.AST, tally_dict: Optional[str], count_col: str = 'n_pending_parents'):
        self.m, self.fn, self.loop, self.row, self.row_site, self.tally_dict, self.count_col = m, fn, loop, row, row_site, tally_dict, count_col
        self.assigned = self._assigned_in_loop()
        self.multi = {n for n, k in self.assigned.items() if k > 1 or len(cf.assignments(fn).get(n, [])) > 1}
        self.needed: Set[str] = set()
        self.atoms: List[str] = []
        self.opaque: Dict[str, str] = {}
        self.outcomes: List[Outcome] = []
        self._le = cf.ListEval(m, fn)
        self._summaries: Dict[str, Optional[cf.Summary]] = {}
        self.u_src = pf.nsrc(self._root(row['update_id'])) if 'update_id' in row else None
        self.ar_src = pf.nsrc(self._root(row['always_run'])) if 'always_run' in row else None

    # -- helpers ------------------------------------------------------------------
    def _assigned_in_loop(self) -> Dict[str, int]:
        out: Dict[str, int] = {}
        for st in self.loop.body:
            for n in pf.walk_shallow(st):
                tg: List[ast.expr] = []
                if isinstance(n, ast.Assign):
                    tg = list(n.targets)
                elif isinstance(n, (ast.AnnAssign, ast.AugAssign)):
                    tg = [n.target]
                elif isinstance(n, (ast.For, ast.AsyncFor, ast.comprehension)):
                    tg = [n.target]
                elif isinstance(n, ast.NamedExpr):
                    tg = [n.target]
                elif isinstance(n, (ast.With, ast.AsyncWith)):
                    tg = [i.optional_vars for i in n.items if i.optional_vars is not None]
                for t in tg:
                    for x in ast.walk(t):
                        if isinstance(x, ast.Name) and isinstance(x.ctx, ast.Store):
                            out[x.id] = out.get(x.id, 0) + 1
        return out

    def _root(self, e: ast.expr) -> ast.expr:
        """Follow a name through single definitions that are themselves plain names (aliases)."""
        for _ in range(4):
            if isinstance(e, ast.Name) and e.id not in self.multi:
                _, d = single_def(self.m, self.fn, e.id)
                if isinstance(d, ast.Name):
                    e = d
                    continue
            break
        return e

    def _single_expr(self, name: str) -> Optional[ast.expr]:
        if name in self.multi:
            return None
        _, d = single_def(self.m, self.fn, name)
        if isinstance(d, ast.expr) and not isinstance(d, (ast.Await, ast.Yield, ast.YieldFrom)):
            return d
        return None

    def _resolve(self, e: ast.expr, depth: int = 4) -> ast.expr:
        """Single-definition locals followed: `n` -> `len(parent_ids)`, `t[1]` -> second element of the tuple display `t` was assigned."""
        for _ in range(depth):
            if isinstance(e, ast.Name):
                d = self._single_expr(e.id)
                if d is None:
                    return e
                e = d
            elif isinstance(e, ast.Subscript) and isinstance(e.value, ast.Name) and isinstance(e.slice, ast.Constant) and isinstance(e.slice.value, int):
                d = self._single_expr(e.value.id)
                if isinstance(d, ast.Tuple) and 0 <= e.slice.value < len(d.elts) and not any(isinstance(x, ast.Starred) for x in d.elts):
                    e = d.elts[e.slice.value]
                else:
                    return e
            else:
                return e
        return e

    def _through_tuples(self, e: ast.expr) -> ast.expr:
        """Names defined as an element of a tuple display (`t = (a, b); x = t[0]`, the residue of an inlined helper returning a tuple) replaced
        by that element."""
        jl = self

        class T(ast.NodeTransformer):
            def visit_Name(self, node: ast.Name):
                if isinstance(node.ctx, ast.Load):
                    d = jl._single_expr(node.id)
                    if isinstance(d, ast.Subscript):
                        r = jl._resolve(d, 3)
                        if r is not d and isinstance(r, ast.Name):
                            return self.visit(copy.deepcopy(r))
                        if r is not d and not isinstance(r, ast.Subscript):
                            return copy.deepcopy(r)
                return node

            def visit_Lambda(self, node):
                return node
        if not any(isinstance(n, ast.Name) and isinstance(self._single_expr(n.id), ast.Subscript) for n in ast.walk(e)):
            return e
        return T().visit(copy.deepcopy(e))

    # -- list expressions -----------------------------------------------------------
    def list_summary(self, e: ast.expr) -> Optional[cf.Summary]:
        """Summary of a list expression over the request's parent-id lists, or None when e is not recognisably such a list."""
        if any(isinstance(n, ast.Name) and n.id.startswith(('__ambig__', '__carried__')) for n in ast.walk(e)):
            return None
        key = ast.dump(e)
        if key in self._summaries:
            return self._summaries[key]
        self._summaries[key] = None
        r = self._list_summary(e)
        self._summaries[key] = r
        return r

    def _list_summary(self, e: ast.expr) -> Optional[cf.Summary]:
        e = self._through_tuples(e)
        try:
            s = cf.summarise(self._le.ev(e))
        except AnalysisError:
            return None
        if s.undecided or not (s.terms or s.losses):
            if not s.undecided and isinstance(e, (ast.List, ast.Tuple)) and not e.elts:
                return s
            return None
        return s

    def _empty_atoms(self, e: ast.expr) -> Optional[List[str]]:
        """empty(e)  ==  AND of the returned atoms, for a lossless combination of the request's lists."""
        s = self.list_summary(e)
        # a duplicate removal with a memory of its own never empties a non-empty list (whatever id spaces it mixes); every other loss may
        if s is None or any(kind != 'dedup across id spaces' for kind, _, _ in s.losses):
            return None
        return sorted({a_empty(k) for k in s.keys()})

    # -- boolean evaluation ------------------------------------------------------------
    def _atom(self, key: str, val: Dict[str, bool], text: Optional[str] = None) -> bool:
        if key not in val:
            if text is not None:
                self.opaque.setdefault(key, text)
            raise _NeedAtom(key)
        return val[key]

    def _all_empty(self, atoms: List[str], val: Dict[str, bool]) -> bool:
        res = True
        for a in atoms:
            if not self._atom(a, val):
                res = False
        return res

    def _int_const(self, e: ast.expr) -> Optional[int]:
        e = self._resolve(e)
        if isinstance(e, ast.Constant) and isinstance(e.value, int) and not isinstance(e.value, bool):
            return e.value
        return None

    def _len_arg(self, e: ast.expr) -> Optional[ast.expr]:
        e = self._resolve(e)
        if isinstance(e, ast.Call) and pf.dotted(e.func) == 'len' and len(e.args) == 1 and not e.keywords:
            return e.args[0]
        return None

    def _compare(self, e: ast.Compare, val: Dict[str, bool]) -> Optional[bool]:
        if len(e.ops) != 1:
            return None
        op, l, r = e.ops[0], e.left, e.comparators[0]
        flip = {ast.Lt: ast.Gt, ast.Gt: ast.Lt, ast.LtE: ast.GtE, ast.GtE: ast.LtE, ast.Eq: ast.Eq, ast.NotEq: ast.NotEq}
        if type(op) not in flip:
            return None
        if self._int_const(l) is not None and self._int_const(r) is None:
            l, r, op = r, l, flip[type(op)]()
        k = self._int_const(r)
        # first update?
        if k == 1 and self.u_src is not None and isinstance(op, (ast.Eq, ast.NotEq)) and pf.nsrc(self._root(l)) == self.u_src:
            v = self._atom(A_FIRST, val)
            return v if isinstance(op, ast.Eq) else not v
        # len(L) <op> k
        la = self._len_arg(l)
        if la is not None and k is not None:
            atoms = self._empty_atoms(la)
            if atoms is not None:
                table = {(ast.Eq, 0): True, (ast.NotEq, 0): False, (ast.Gt, 0): False, (ast.GtE, 1): False, (ast.Lt, 1): True, (ast.LtE, 0): True}
                want_empty = table.get((type(op), k))
                if want_empty is not None:
                    em = self._all_empty(atoms, val)
                    return em if want_empty else not em
        # L == [] / L != []
        if isinstance(op, (ast.Eq, ast.NotEq)) and isinstance(self._resolve(r), (ast.List, ast.Tuple)) and not self._resolve(r).elts:
            atoms = self._empty_atoms(l)
            if atoms is not None:
                em = self._all_empty(atoms, val)
                return em if isinstance(op, ast.Eq) else not em
        return None

    def beval(self, e: ast.expr, val: Dict[str, bool]) -> bool:
        if isinstance(e, ast.Constant):
            return bool(e.value)
        if isinstance(e, ast.UnaryOp) and isinstance(e.op, ast.Not):
            return not self.beval(e.operand, val)
        if isinstance(e, ast.BoolOp):
            vs = [self.beval(x, val) for x in e.values]
            return all(vs) if isinstance(e.op, ast.And) else any(vs)
        if isinstance(e, ast.IfExp):
            return self.beval(e.body, val) if self.beval(e.test, val) else self.beval(e.orelse, val)
        if isinstance(e, ast.Name):
            if e.id.startswith('__ambig__'):
                raise _NeedName(e.id[len('__ambig__'):])
            if e.id.startswith('__carried__'):
                raise Decline(f'`{e.id[len("__carried__"):]}` is read before it is assigned in the same iteration of the job loop')
            if self.ar_src is not None and pf.nsrc(self._root(e)) == self.ar_src:
                return self._atom(A_ALWAYS, val)
        if isinstance(e, ast.Compare):
            v = self._compare(e, val)
            if v is not None:
                return v
        # truthiness of a parent-id list / of its length
        la = self._len_arg(e)
        atoms = self._empty_atoms(la if la is not None else e)
        if atoms is not None:
            return not self._all_empty(atoms, val)
        if isinstance(e, (ast.Name, ast.Subscript)):
            d = self._resolve(e, 1)
            if d is not e and isinstance(d, (ast.BoolOp, ast.Compare, ast.UnaryOp, ast.IfExp, ast.Constant, ast.Name, ast.Subscript)):
                return self.beval(d, val)
        txt = pf.nsrc(strip_markers(e))
        return self._atom('? ' + txt, val, txt)

    def sval(self, e: ast.expr, val: Dict[str, bool]) -> Any:
        if isinstance(e, ast.Constant):
            return e.value
        if isinstance(e, ast.IfExp):
            return self.sval(e.body, val) if self.beval(e.test, val) else self.sval(e.orelse, val)
        if isinstance(e, ast.Name) and e.id.startswith('__ambig__'):
            raise _NeedName(e.id[len('__ambig__'):])
        if isinstance(e, (ast.Name, ast.Subscript)):
            d = self._resolve(e, 1)
            if d is not e:
                return self.sval(d, val)
        return UNKNOWN

    # -- statements -------------------------------------------------------------------
    def _tally_target(self, t: ast.expr, env: Dict[str, Any]) -> Optional[Tuple[Optional[ast.expr], Optional[str]]]:
        """(key expression, column) when t is `D[key][col]`, possibly through an alias `a = D[key]`."""
        if self.tally_dict is None or not isinstance(t, ast.Subscript):
            return None
        col = pf.const_str(t.slice)
        v = t.value
        if isinstance(v, ast.Name):
            if v.id in env and env[v.id] is not AMBIG:
                v = env[v.id]
            else:
                v = self._resolve(v, 2)
        if isinstance(v, ast.Subscript) and isinstance(v.value, ast.Name) and v.value.id == self.tally_dict:
            key = v.slice
            if isinstance(key, ast.Name) and not key.id.startswith('__'):
                key = env[key.id] if key.id in env and env[key.id] is not AMBIG else self._resolve(key, 2)
            return key, col
        return None

    def _touches_tally(self, st: ast.AST, env_names: Set[str]) -> bool:
        if self.tally_dict is None:
            return False
        for n in pf.walk_shallow(st):
            if isinstance(n, ast.Name) and (n.id == self.tally_dict or n.id in env_names):
                return True
        return False

    def _aliases(self) -> Set[str]:
        out: Set[str] = set()
        if self.tally_dict is None:
            return out
        for name, defs in cf.assignments(self.fn).items():
            for d in defs:
                if isinstance(d, ast.Subscript) and isinstance(d.value, ast.Name) and d.value.id == self.tally_dict:
                    out.add(name)
        return out

    def _relevant(self, st: ast.AST, aliases: Set[str]) -> bool:
        for n in pf.walk_shallow(st):
            if isinstance(n, (ast.Assign, ast.AnnAssign, ast.AugAssign)):
                for t in (n.targets if isinstance(n, ast.Assign) else [n.target]):
                    for x in ast.walk(t):
                        if isinstance(x, ast.Name) and isinstance(x.ctx, ast.Store) and x.id in self.needed:
                            return True
                        if isinstance(x, ast.Name) and (x.id == self.tally_dict or x.id in aliases) and isinstance(t, ast.Subscript):
                            return True
            elif isinstance(n, ast.Call) and isinstance(n.func, ast.Attribute) and isinstance(n.func.value, ast.Name) and (n.func.value.id == self.tally_dict or n.func.value.id in aliases) \
                    and n.func.attr not in ('items', 'keys', 'values', 'get', 'copy'):
                return True
            elif n is self.row_site:
                return True
        return any(True for _ in _loop_level_exits(st))

    def _names_stored(self, st: ast.AST) -> Set[str]:
        return {x.id for x in pf.walk_shallow(st) if isinstance(x, ast.Name) and isinstance(x.ctx, ast.Store)}

    def _exec(self, stmts: Sequence[ast.stmt], env: Dict[str, Any], val: Dict[str, bool], out: Outcome, aliases: Set[str], top: bool) -> bool:
        """Returns True once the row site has been executed (the rest of the body is not looked at)."""
        for st in stmts:
            if isinstance(st, ast.Raise):
                raise _Reject()
            if isinstance(st, (ast.Continue, ast.Break, ast.Return)):
                raise Decline(f'`{pf.nsrc(st)}` in the job loop: a job may be skipped without a row (line {st.lineno})')
            contains_site = any(n is self.row_site for n in ast.walk(st))
            if isinstance(st, ast.If):
                if self._relevant(st, aliases) or contains_site:
                    branch = st.body if self.beval(self._sub(st.test, env), val) else st.orelse
                    if self._exec(branch, env, val, out, aliases, False):
                        return True
                    continue
                for n in self._names_stored(st):
                    if n in self.multi:
                        env[n] = AMBIG
                continue
            if isinstance(st, (ast.For, ast.AsyncFor, ast.While, ast.Try, ast.With, ast.AsyncWith)):
                if contains_site or self._relevant(st, aliases):
                    if isinstance(st, (ast.With, ast.AsyncWith)):
                        if self._exec(st.body, env, val, out, aliases, False):
                            return True
                        continue
                    raise Decline(f'the job row / a tally is produced inside `{type(st).__name__.lower()}` (line {st.lineno}): not a straight-line effect per job')
                for n in self._names_stored(st):
                    if n in self.multi:
                        env[n] = AMBIG
                continue
            if contains_site:
                for col, x in self.row.items():
                    xs = self._sub(x, env)
                    out.exprs[col] = xs
                out.values['state'] = self.sval(out.exprs['state'], val) if 'state' in out.exprs else UNKNOWN
                if self.count_col in out.exprs:
                    out.count = self.length_form(out.exprs[self.count_col], val)
                return True
            # simple statements
            tgt_val: List[Tuple[ast.expr, Optional[ast.expr]]] = []
            if isinstance(st, ast.Assign):
                tgt_val = [(t, st.value) for t in st.targets]
            elif isinstance(st, ast.AnnAssign) and st.value is not None:
                tgt_val = [(st.target, st.value)]
            if isinstance(st, ast.AugAssign):
                tt = self._tally_target(st.target, env)
                if tt is not None:
                    op = {ast.Add: '+', ast.Sub: '-'}.get(type(st.op), '?')
                    out.tallies.append(Tally(tt[0], tt[1], op, self._sub(st.value, env), st))
                    continue
                if isinstance(st.target, ast.Name) and st.target.id in self.multi:
                    env[st.target.id] = AMBIG
                elif self._relevant(st, aliases):
                    raise Decline(f'`{pf.nsrc(st)[:70]}` updates the tally mapping in a way that is not `D[key][column] += amount`')
                continue
            handled = False
            for t, v in tgt_val:
                tt = self._tally_target(t, env)
                if tt is not None:
                    handled = True
                    # x = x + w
                    if isinstance(v, ast.BinOp) and isinstance(v.op, (ast.Add, ast.Sub)):
                        same_l = pf.nsrc(v.left) == pf.nsrc(t)
                        same_r = pf.nsrc(v.right) == pf.nsrc(t)
                        if same_l and not same_r:
                            out.tallies.append(Tally(tt[0], tt[1], '+' if isinstance(v.op, ast.Add) else '-', self._sub(v.right, env), st))
                            continue
                        if same_r and not same_l and isinstance(v.op, ast.Add):
                            out.tallies.append(Tally(tt[0], tt[1], '+', self._sub(v.left, env), st))
                            continue
                    raise Decline(f'`{pf.nsrc(st)[:70]}` overwrites a tally instead of incrementing it')
                if isinstance(t, ast.Name):
                    handled = True
                    if t.id in self.multi or t.id in aliases:
                        env[t.id] = self._sub(v, env) if not isinstance(v, (ast.Await, ast.Yield, ast.YieldFrom)) else AMBIG
                else:
                    for x in ast.walk(t):
                        if isinstance(x, ast.Name) and isinstance(x.ctx, ast.Store):
                            handled = True
                            if x.id in self.multi:
                                env[x.id] = AMBIG
            if not handled and self._relevant(st, aliases):
                raise Decline(f'`{pf.nsrc(st)[:70]}` uses the tally mapping in a way that is not analysed')
        return False

    def _sub(self, e: ast.expr, env: Dict[str, Any]) -> ast.expr:
        carried = {n for n in self.assigned if n in self.multi and n not in env}
        return _Subst(env, carried).visit(copy.deepcopy(e))

    # -- driver ---------------------------------------------------------------------------
    def run(self) -> List[Outcome]:
        aliases = self._aliases()
        state = self.row.get('state')
        if isinstance(state, ast.Name):
            self.needed.add(state.id)
        for _round in range(8):
            self.outcomes = []
            self.opaque = {}
            try:
                self._explore({}, aliases)
                break
            except _NeedName as nn:
                if nn.name in self.needed:
                    raise Decline(f'the value of `{nn.name}` on which the job row / the tallies depend is assigned in a shape that is not analysed')
                self.needed.add(nn.name)
        else:
            raise Decline('the per-job effect depends on too many branch-assigned locals')
        return self.outcomes

    def _explore(self, val: Dict[str, bool], aliases: Set[str]) -> None:
        if len(val) > self.MAX_ATOMS:
            raise Decline('the per-job effect depends on more conditions than the truth table covers')
        out = Outcome()
        out.val = dict(val)
        try:
            done = self._exec(self.loop.body, {}, val, out, aliases, True)
            if not done:
                raise Decline('the statement appending the job row is not reached on a straight path through the loop body')
        except _Reject:
            out.rejected = True
        except _NeedAtom as na:
            for b in (True, False):
                self._explore(dict(val, **{na.key: b}), aliases)
            return
        self.outcomes.append(out)

    # -- length expressions as linear forms over the request's lists -------------------------------
    def length_form(self, e: ast.expr, val: Dict[str, bool]) -> Optional[Lin]:
        """Integer expression built from len(<parent-id list>) and constants as a linear form over n[key] (length of a request list) and
        d[..] >= 0 (elements removed by a duplicate removal); None when e is not of that shape.  Conditional expressions are decided by val."""
        e = self._resolve(e)
        if isinstance(e, ast.Constant) and isinstance(e.value, int) and not isinstance(e.value, bool):
            return Lin({}, e.value)
        if isinstance(e, ast.Name) and e.id.startswith('__ambig__'):
            raise _NeedName(e.id[len('__ambig__'):])
        if isinstance(e, ast.IfExp):
            return self.length_form(e.body if self.beval(e.test, val) else e.orelse, val)
        if isinstance(e, ast.BinOp) and isinstance(e.op, (ast.Add, ast.Sub)):
            a, b = self.length_form(e.left, val), self.length_form(e.right, val)
            if a is None or b is None:
                return None
            return a + b if isinstance(e.op, ast.Add) else a - b
        if isinstance(e, ast.Call) and pf.dotted(e.func) == 'len' and len(e.args) == 1 and not e.keywords:
            return self.list_length(e.args[0])
        return None

    def list_length(self, e: ast.expr) -> Optional[Lin]:
        s = self.list_summary(e)
        if s is None:
            return None
        L = Lin({}, 0)
        for k, _sh in s.terms:
            L = L + Lin({f'n[{k}]': 1}, 0)
        for kind, _msg, node in s.losses:
            if not kind.startswith('dedup'):
                return None
            L = L - Lin({f'd[{pf.nsrc(node)[:50] if node is not None else kind}]': 1}, 0)
        return L


    # -- verdicts over the table -----------------------------------------------------------
    def known_atoms(self) -> List[str]:
        ks: Set[str] = set()
        for o in self.outcomes:
            ks |= {k for k in o.val if not k.startswith('? ')}
        return sorted(ks)

    def judge(self, violation, extra_atoms: Sequence[str] = ()) -> Tuple[Optional[Tuple[Outcome, str]], Optional[Tuple[Outcome, str]]]:
        """violation(outcome, kv) -> message | None, kv = a full valuation of the known atoms consistent with the outcome.  Returns (definite, possible): `definite` = a valuation of the KNOWN atoms under which the
        violation occurs whatever the opaque atoms are (first such outcome and its message); `possible` = a violation that needs a particular
        value of an opaque atom (the caller declines)."""
        groups: Dict[Tuple[Tuple[str, bool], ...], List[Tuple[Outcome, Optional[str]]]] = {}
        known = sorted(set(self.known_atoms()) | set(extra_atoms))
        # outcomes are cubes: expand the known part so that every full valuation of the known atoms has its list of cubes
        import itertools
        for bits in itertools.product((True, False), repeat=len(known)):
            kv = dict(zip(known, bits))
            hits = [o for o in self.outcomes if all(kv[k] == v for k, v in o.val.items() if not k.startswith('? '))]
            if hits:
                groups[tuple(sorted(kv.items()))] = [(o, None if o.rejected else violation(o, kv)) for o in hits]
        definite = possible = None
        for kv, hs in sorted(groups.items(), key=lambda x: str(x[0])):
            bad = [(o, msg) for o, msg in hs if msg]
            if not bad:
                continue
            if len(bad) == len(hs):
                definite = definite or bad[0]
            else:
                possible = possible or bad[0]
        return definite, possible


def _loop_level_exits(st: ast.AST):
    """continue / break that belong to the loop st sits in (not to a loop nested in st), and every return."""
    stack: List[Tuple[ast.AST, bool]] = [(st, False)]
    while stack:
        n, inner = stack.pop()
        if isinstance(n, (ast.FunctionDef, ast.AsyncFunctionDef, ast.ClassDef, ast.Lambda)) and n is not st:
            continue
        if isinstance(n, ast.Return) or (isinstance(n, (ast.Continue, ast.Break)) and not inner):
            yield n
        for c in ast.iter_child_nodes(n):
            stack.append((c, inner or isinstance(n, (ast.For, ast.AsyncFor, ast.While))))


def describe(val: Dict[str, bool]) -> str:
    if not val:
        return 'every job'
    return ', '.join(f'{k.lstrip("? ")}: {"yes" if v else "no"}' for k, v in sorted(val.items()))


# ======================================================================================
# count vs rows
# ======================================================================================
def compare_lengths(count: Lin, rows: Lin) -> Tuple[str, str]:
    """('same' | 'differs' | 'unknown', explanation) for count vs number of rows, n[..] ranging over all naturals independently, d[..] >= 0."""
    diff = count - rows
    if not diff.coef and diff.const == 0:
        return 'same', ''
    ncoef = {k: v for k, v in diff.coef.items() if k.startswith('n[')}
    dcoef = {k: v for k, v in diff.coef.items() if k.startswith('d[')}
    if ncoef:
        k = sorted(ncoef)[0]
        return 'differs', f'the count is {count!r} while {rows!r} rows are written: they differ as soon as the request names parents in {k[2:-1]!r}'
    if diff.const != 0 and all((v > 0) == (diff.const > 0) for v in dcoef.values()):
        return 'differs', f'the count is {count!r} while {rows!r} rows are written: off by {diff.const} for every job'
    return 'unknown', f'count {count!r} vs rows {rows!r}'


# ======================================================================================
# the submission function as a whole
# ======================================================================================
class Submission:
    """Everything C05-R1 / C01-R5 need to know about `_create_jobs`, computed once."""

    def __init__(self, rel: str = 'batch/batch/front_end/front_end.py', fname: str = '_create_jobs'):
        self.m0 = pf.load(rel)
        self.m0.func(fname)
        self.m, self.fn, self.inliner = prepare(self.m0, fname)
        self.fname = fname
        self.inserts: Dict[str, Tuple[sf.Embedded, Any]] = {}
        dup: Set[str] = set()
        for e in embedded(self.m):
            if e.fn is None or not (e.fn is self.fn or any(f is self.fn for f in cf.enclosing_funcs(self.m, e.fn))):
                continue
            if e.sql_text is None:
                continue
            for st in e.stmts():
                if st.kind == 'insert':
                    t = st.table.lower().strip('`')
                    if t in self.inserts:
                        dup.add(t)
                    self.inserts[t] = (e, st)
        self.duplicated = dup
        self._rows: Dict[str, Rows] = {}
        self._jl: Optional[JobLoop] = None

    def need_insert(self, table: str) -> Tuple[sf.Embedded, Any]:
        if table not in self.inserts:
            raise AnalysisError(f'{self.fname}: no INSERT INTO {table} found among its execute-style calls')
        if table in self.duplicated:
            raise AnalysisError(f'{self.fname}: several INSERTs INTO {table}')
        return self.inserts[table]

    def rows(self, table: str) -> Rows:
        if table not in self._rows:
            e, _ = self.need_insert(table)
            self._rows[table] = rows_of(self.m, e.fn, cf.args_node(e.call))
        return self._rows[table]

    def colmap(self, table: str) -> Dict[str, ast.expr]:
        """column -> python expression bound to it, for an INSERT .. VALUES (%s, ..) fed by rows(table)."""
        e, st = self.need_insert(table)
        r = self.rows(table)
        if r.problem:
            raise AnalysisError(f'{self.fname}: rows of the {table} insert: {r.problem}')
        if st.cols is None or st.select is not None or len(st.rows) != 1 or len(st.cols) != len(st.rows[0]):
            raise AnalysisError(f'{self.fname}: the {table} insert is not INSERT (columns) VALUES (one row)')
        params = sr.params_in_order(st)
        if len(params) != len(r.elts):
            raise AnalysisError(f'{self.fname}: the {table} insert has {len(params)} parameters but its rows have {len(r.elts)} elements')
        bind = {id(p): x for p, x in zip(params, r.elts)}
        out: Dict[str, ast.expr] = {}
        for c, v in zip(st.cols, st.rows[0]):
            if v.kind == 'param':
                out[c.lower().strip('`')] = bind[id(v)]
        return out

    def tally_mapping(self) -> Optional[str]:
        """The mapping D whose `.items()` feed the counter inserts (every INSERT .. SELECT of the function whose rows come from such a loop must
        name the same D), or None."""
        names: Set[str] = set()
        for t, (e, st) in self.inserts.items():
            if t in self.duplicated or st.select is None:
                continue
            src = items_source(self.rows(t))
            if src is not None:
                names.add(src[0])
        if len(names) == 1:
            D = sorted(names)[0]
            if binding_scope(self.m, self.rows([t for t in self.inserts if self.inserts[t][1].select is not None][0]).holder, D) is self.fn:
                return D
        return None

    def job_loop(self) -> JobLoop:
        if self._jl is None:
            r = self.rows('jobs')
            row = self.colmap('jobs')
            loops = [b for b in r.binders if isinstance(b[2], (ast.For, ast.AsyncFor))]
            if len(r.binders) != 1 or len(loops) != 1 or r.holder is not self.fn:
                raise AnalysisError(f'{self.fname}: the rows of the jobs insert are not appended once per iteration of one loop over the job specs')
            if any(k not in ('raise',) for _, _, k in r.conds):
                raise AnalysisError(f'{self.fname}: the jobs row is appended conditionally ({[pf.nsrc(t)[:40] for t, _, _ in r.conds][:2]})')
            jl = JobLoop(self.m, self.fn, loops[0][2], row, r.site, self.tally_mapping())
            jl.run()
            self._jl = jl
        return self._jl


def items_source(r: Rows) -> Optional[Tuple[str, str, str, str]]:
    """(D, K1, K2, V) when the rows are produced by exactly one `for (K1, K2), V in D.items()` loop / generator."""
    if r.problem or len(r.binders) != 1:
        return None
    tgt, it, _ = r.binders[0]
    if not (isinstance(it, ast.Call) and isinstance(it.func, ast.Attribute) and it.func.attr == 'items' and isinstance(it.func.value, ast.Name) and not it.args and not it.keywords):
        return None
    if not (isinstance(tgt, ast.Tuple) and len(tgt.elts) == 2 and isinstance(tgt.elts[0], ast.Tuple) and len(tgt.elts[0].elts) == 2
            and all(isinstance(x, ast.Name) for x in tgt.elts[0].elts) and isinstance(tgt.elts[1], ast.Name)):
        return None
    return it.func.value.id, tgt.elts[0].elts[0].id, tgt.elts[0].elts[1].id, tgt.elts[1].id
