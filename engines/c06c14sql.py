"""c06c14sql - see through the ways a maintainer can move the text of an embedded SQL statement out of the execute call
(properties C06 and C14; nothing here imports or runs repository code).

engines/sqlfront.embedded_in resolves a statement text that is a literal, an f-string or a single-definition LOCAL bound to one.
Behaviour-preserving refactors also produce

    _GET_BATCH_SQL = 'SELECT ...'                  (module-level constant, possibly annotated / parenthesised)
    _GET_BATCH_SQL = head + _SHARED_JOIN_SQL + tail (concatenation of literals and other constants)
    sql = _INSERT_JOBS_SQL; await tx.execute_many(sql, ...)   (local bound to a module constant)
    f'... {_SHARED_JOIN_SQL} ...'                  (constant spliced into an f-string)

`upgrade_embedded(module)` re-resolves, with these idioms, every Embedded object sqlfront had to leave opaque (or left with a hole
that is such a constant) and updates it IN PLACE (the objects are cached per process by sqlfront, so every later consumer in this
check - rule modules and engines alike - sees the resolved text).  A name is only followed when it has exactly one binding in its
scope (one module-level assignment that is never re-bound / augmented, or one local definition); anything else stays opaque.
"""
from __future__ import annotations

import ast
from typing import Dict, List, Optional, Tuple

from . import pyfacts as pf
from . import sqlfront as sf

_glob_cache: Dict[str, Dict[str, Optional[ast.expr]]] = {}


def module_constants(m: pf.Module) -> Dict[str, Optional[ast.expr]]:
    """module-level name -> its value expression when the name is bound exactly once at module level (Assign / AnnAssign to a plain
    name) and never re-bound by `global` + assignment anywhere; None for names bound more than once."""
    if m.path in _glob_cache:
        return _glob_cache[m.path]
    out: Dict[str, Optional[ast.expr]] = {}

    def bind(name: str, v: Optional[ast.expr]) -> None:
        out[name] = v if name not in out else None
    for st in m.tree.body:
        if isinstance(st, ast.Assign):
            for t in st.targets:
                if isinstance(t, ast.Name):
                    bind(t.id, st.value if len(st.targets) == 1 else None)
                else:
                    for x in ast.walk(t):
                        if isinstance(x, ast.Name):
                            bind(x.id, None)
        elif isinstance(st, ast.AnnAssign) and isinstance(st.target, ast.Name):
            bind(st.target.id, st.value)
        elif isinstance(st, ast.AugAssign) and isinstance(st.target, ast.Name):
            bind(st.target.id, None)
        elif isinstance(st, (ast.FunctionDef, ast.AsyncFunctionDef, ast.ClassDef)):
            bind(st.name, None)
        elif isinstance(st, (ast.If, ast.Try, ast.With, ast.For, ast.While)):
            for x in ast.walk(st):
                if isinstance(x, ast.Name) and isinstance(x.ctx, ast.Store):
                    bind(x.id, None)
                    out[x.id] = None
    for n in ast.walk(m.tree):
        if isinstance(n, ast.Global):
            for name in n.names:
                out[name] = None
    _glob_cache[m.path] = out
    return out


def _is_local(fn: Optional[pf.FuncDef], m: pf.Module, name: str) -> bool:
    cur = fn
    while cur is not None:
        if name in pf.assignments(cur):
            return True
        cur = m.enclosing_func(cur)
    return False


def sql_of_expr(m: pf.Module, fn: Optional[pf.FuncDef], e: ast.expr, depth: int = 0) -> Tuple[Optional[str], List[ast.expr]]:
    """(text with holes ⟦i⟧, hole expressions) or (None, []) when the expression is not a resolvable string."""
    if depth > 6:
        return None, []
    s = pf.const_str(e)
    if s is not None:
        return s, []
    if isinstance(e, ast.BinOp) and isinstance(e.op, ast.Add):
        a, ha = sql_of_expr(m, fn, e.left, depth + 1)
        b, hb = sql_of_expr(m, fn, e.right, depth + 1)
        if a is None or b is None:
            return None, []
        return a + _renumber(b, len(ha), len(hb)), ha + hb
    if isinstance(e, ast.JoinedStr):
        parts: List[str] = []
        holes: List[ast.expr] = []
        for v in e.values:
            if isinstance(v, ast.Constant) and isinstance(v.value, str):
                parts.append(v.value)
            elif isinstance(v, ast.FormattedValue):
                sub, hs = (None, [])
                if v.format_spec is None and v.conversion == -1 and isinstance(v.value, ast.Name):
                    sub, hs = sql_of_expr(m, fn, v.value, depth + 1)
                if sub is not None:
                    parts.append(_renumber(sub, len(holes), len(hs)))
                    holes += hs
                else:
                    holes.append(v.value)
                    parts.append(f' ⟦{len(holes) - 1}⟧ ')
            else:
                return None, []
        return ''.join(parts), holes
    if isinstance(e, ast.Name):
        cur = fn
        while cur is not None:
            if e.id in pf.assignments(cur):
                d = pf.single_def(cur, e.id)
                if isinstance(d, ast.expr) and not isinstance(d, (ast.Await, ast.Yield, ast.YieldFrom)):
                    return sql_of_expr(m, cur, d, depth + 1)
                return None, []
            cur = m.enclosing_func(cur)
        g = module_constants(m).get(e.id)
        if g is not None:
            return sql_of_expr(m, None, g, depth + 1)
    return None, []


def _renumber(text_: str, offset: int, n: int) -> str:
    if offset == 0 or n == 0:
        return text_
    for i in range(n - 1, -1, -1):
        text_ = text_.replace(f'⟦{i}⟧', f'⟦{i + offset}⟧')
    return text_


_done: Dict[str, int] = {}


def upgrade_embedded(m: pf.Module) -> int:
    """Resolve the statement text of the execute-style calls sqlfront left opaque.  Returns the number of calls upgraded."""
    if m.path in _done:
        return _done[m.path]
    n = 0
    for e in sf.embedded_in(m):
        if not e.call.args:
            continue
        need = e.sql_text is None
        if not need and e.how == 'fstring':
            need = any(isinstance(h, ast.Name) and not _is_local(e.fn, m, h.id) and module_constants(m).get(h.id) is not None for h in e.holes)
        if not need:
            continue
        t, holes = sql_of_expr(m, e.fn, e.call.args[0])
        if t is None:
            continue
        e.sql_text = t
        e.holes = holes
        e.how = 'variable' if not holes else 'fstring'
        e._stmts = None
        e.parse_error = None
        n += 1
    _done[m.path] = n
    return n
