"""c07facts: name-independent facts for the C07 rules (cancellation stops work in the cancelled subtree only).

Nothing here executes repository code.  Everything is resolution of syntax: which stored function is "the group-cancelled question",
which expression a SQL local / user variable holds where it is tested, which SQL text an execute-style Python call issues (through a
local, a closure variable, a module constant, a conditional expression or an if/else assignment), which conditions guard a Python
call site (enclosing ifs and guard clauses), and a source-level view of a function with its module-level helpers inlined.

SQL side
    consts_of(routine)                       parameters + DECLAREd locals (they shadow column names)
    walk_shape(select, consts)               'ancestors' walk {batch, group} | 'own-group' join (ancestors ignored) | None
    marks_only(select, fns)                  the select reads job_groups_cancelled and nothing in it looks at ancestors: {batch, group}
    group_cancel_functions(prog)             stored functions F(..) == EXISTS(ancestor walk keyed by two of F's parameters)
    root_cancel_functions(prog)              stored functions F(b) == EXISTS(mark of the root group of b)
    cancel_atoms(expr, fns, roots)           the sub-expressions of a condition that ask "is (batch, group) cancelled"
    Definitions(body)                        reaching-definition view of SQL locals / user variables; .resolve(expr, consumer)
Python side
    sql_variants(module, fn, expr)           [(sql text, ((test, polarity), ..))] alternatives an expression can denote
    query_sites(module, fn)                  execute-style calls in fn with their SQL alternatives
    guards_of(module, fn, node)              ((test, polarity), ..) under which node runs: enclosing ifs + guard clauses
    inlined(module, qualname)                copy of the module where the function has its module-level helpers inlined, also when
                                             the helper is called in an `if` test (`if await helper(..):`)
"""
from __future__ import annotations

import ast
import copy
from typing import Any, Dict, Iterator, List, Optional, Sequence, Set, Tuple

from . import pyfacts as pf
from . import sqlfront as sf
from . import sqlrules as sr
from .common import AnalysisError
from .inline import Inliner
from .sqlast import N, SqlParseError, parse_statements, text

ANC = 'job_group_self_and_ancestors'
MARKS = 'job_groups_cancelled'


# ------------------------------------------------------------------------------------------------------------------------------------
# SQL
# ------------------------------------------------------------------------------------------------------------------------------------

def params_of(a: N) -> List[str]:
    out = []
    for p in getattr(a, 'params', []) or []:
        if isinstance(p, (tuple, list)) and len(p) >= 2:
            out.append(str(p[1]).lower())
    return out


def consts_of(a: N) -> Set[str]:
    names = set(params_of(a))
    for st in sf.all_statements(a.body):
        if st.kind == 'declare':
            names.update(n.lower() for n in st.names)
    return names


def _tables(sel: N) -> List[N]:
    return [t for t in sf.from_tables(sel.frm)] if sel.frm is not None else []


def mentions_table(n: Any, name: str) -> bool:
    if isinstance(n, (list, tuple)):
        return any(mentions_table(x, name) for x in n)
    if not isinstance(n, N):
        return False
    return any(x.kind == 'table' and x.name.lower() == name for x in n.walk())


def walk_shape(sel: N) -> Optional[Dict[str, Any]]:
    """{'kind': 'ancestors', 'batch': X, 'group': Y}   the canonical self-and-ancestors walk (sqlrules.ancestor_walk)
       {'kind': 'own-group', ..}                       the same two tables, but the mark is joined on S.job_group_id instead of
                                                       S.ancestor_id: only the group's own mark is found, ancestors are ignored
       None                                            anything else."""
    w = sr.ancestor_walk(sel)
    if w is not None:
        return {'kind': 'ancestors', 'batch': w['batch'], 'group': w['group']}
    if sel is None or sel.kind != 'select' or sel.frm is None:
        return None
    tabs = _tables(sel)
    if len(tabs) != 2 or any(t.kind != 'table' for t in tabs):
        return None
    names = {(t.alias or t.name).lower(): t.name.lower() for t in tabs}
    if sorted(names.values()) != sorted([ANC, MARKS]) or len(names) != 2:
        return None
    if any(j.jtype != 'INNER' for j in sel.frm.joins):
        return None
    sa = [a for a, t in names.items() if t == ANC][0]
    ca = [a for a, t in names.items() if t == MARKS][0]
    conj = list(sf.conjuncts(sel.where))
    for j in sel.frm.joins:
        conj += sf.conjuncts(j.on)

    def side(e: N) -> Optional[str]:
        if e.kind == 'col' and len(e.parts) > 1:
            q = e.parts[-2].lower()
            return ('S.' if q == sa else 'C.' if q == ca else '?.') + e.parts[-1].lower()
        return None

    pairs = set()
    for c in conj:
        if c.kind == 'bin' and c.op == '=':
            l, r = side(c.left), side(c.right)
            if l and r and not l.startswith('?') and not r.startswith('?'):
                pairs.add(frozenset((l, r)))
    if frozenset(('S.batch_id', 'C.id')) in pairs and frozenset(('S.job_group_id', 'C.job_group_id')) in pairs \
            and frozenset(('S.ancestor_id', 'C.job_group_id')) not in pairs:
        return {'kind': 'own-group', 'batch': None, 'group': None}
    return None


def marks_only(sel: N, fns: Dict[str, Any]) -> Optional[Dict[str, Any]]:
    """The select reads job_groups_cancelled in its own FROM and nothing inside it refers to the ancestor table, to a column called
    ancestor_id or to a stored function that walks the ancestors: whatever it finds is the mark of ONE group.  Returns the expressions
    the mark's (id, job_group_id) are equated with (None when not found)."""
    if sel is None or sel.kind != 'select' or sel.frm is None:
        return None
    tabs = _tables(sel)
    marks = [t for t in tabs if t.kind == 'table' and t.name.lower() == MARKS]
    if len(marks) != 1:
        return None
    for n in sel.walk():
        if n.kind == 'table' and n.name.lower() == ANC:
            return None
        if n.kind == 'col' and n.parts[-1].lower() == 'ancestor_id':
            return None
        if n.kind == 'func' and n.name.lower() in fns:
            return None
    al = (marks[0].alias or marks[0].name).lower()
    only = len(tabs) == 1
    conj = list(sf.conjuncts(sel.where))
    for j in sel.frm.joins:
        conj += sf.conjuncts(j.on)
    b = g = None
    for c in conj:
        if c.kind == 'bin' and c.op == '=':
            for x, y in ((c.left, c.right), (c.right, c.left)):
                if x.kind == 'col' and ((len(x.parts) > 1 and x.parts[-2].lower() == al) or (len(x.parts) == 1 and only)):
                    if y.kind == 'col' and len(y.parts) > 1 and y.parts[-2].lower() == al:
                        continue
                    nm = x.parts[-1].lower()
                    if nm == 'id' and b is None:
                        b = y
                    elif nm == 'job_group_id' and g is None:
                        g = y
    return {'batch': b, 'group': g}


def _single_return(a: N) -> Optional[N]:
    body = [st for st in a.body if st.kind not in ('declare',)]
    if len(body) == 1 and body[0].kind == 'return':
        return body[0].value
    return None


def group_cancel_functions(prog: sf.SqlProgram) -> Dict[str, Tuple[int, int]]:
    """function name (lower) -> (index of the batch parameter, index of the group parameter) for every stored function whose body is
    RETURN EXISTS(<ancestor walk keyed by two of its parameters>).  Recognised by its body, not by its name."""
    out: Dict[str, Tuple[int, int]] = {}
    for name, r in prog.routines.items():
        if r.kind != 'function':
            continue
        try:
            a = r.ast
        except AnalysisError:
            continue
        v = _single_return(a)
        if v is None or v.kind != 'exists':
            continue
        w = walk_shape(v.select)
        if w is None or w['kind'] != 'ancestors':
            continue
        ps = params_of(a)
        b, g = w['batch'], w['group']
        if b.kind == 'col' and g.kind == 'col' and len(b.parts) == 1 and len(g.parts) == 1 and b.parts[0].lower() in ps and g.parts[0].lower() in ps \
                and b.parts[0].lower() != g.parts[0].lower():
            out[name.lower()] = (ps.index(b.parts[0].lower()), ps.index(g.parts[0].lower()))
    return out


def root_cancel_functions(prog: sf.SqlProgram) -> Dict[str, int]:
    """function name (lower) -> index of the batch parameter, for functions  RETURN EXISTS(SELECT .. FROM job_groups_cancelled WHERE id = p AND job_group_id = 0)."""
    out: Dict[str, int] = {}
    for name, r in prog.routines.items():
        if r.kind != 'function':
            continue
        try:
            a = r.ast
        except AnalysisError:
            continue
        v = _single_return(a)
        if v is None or v.kind != 'exists':
            continue
        m = marks_only(v.select, {})
        ps = params_of(a)
        if m and m['batch'] is not None and m['group'] is not None and m['group'].kind == 'lit' and m['group'].value == 0 \
                and m['batch'].kind == 'col' and len(m['batch'].parts) == 1 and m['batch'].parts[0].lower() in ps:
            out[name.lower()] = ps.index(m['batch'].parts[0].lower())
    return out


class Atom:
    """One sub-expression of a condition that asks whether a group is cancelled."""

    def __init__(self, node: N, kind: str, batch: Optional[N], group: Optional[N]):
        self.node, self.kind, self.batch, self.group = node, kind, batch, group   # kind: 'walk' | 'root' | 'own-group' | 'mark'

    def subject(self) -> Tuple[str, str]:
        return (text(self.batch).lower() if self.batch is not None else '?', text(self.group).lower() if self.group is not None else '?')


def cancel_atoms(e: Any, fns: Dict[str, Tuple[int, int]], roots: Dict[str, int]) -> List[Atom]:
    out: List[Atom] = []
    if isinstance(e, (list, tuple)):
        for x in e:
            out += cancel_atoms(x, fns, roots)
        return out
    if not isinstance(e, N):
        return out

    def rec(n: N) -> None:
        if n.kind == 'func' and n.name.lower() in fns:
            bi, gi = fns[n.name.lower()]
            if len(n.args) > max(bi, gi):
                out.append(Atom(n, 'walk', n.args[bi], n.args[gi]))
                return
        if n.kind == 'func' and n.name.lower() in roots:
            bi = roots[n.name.lower()]
            if len(n.args) > bi:
                out.append(Atom(n, 'root', n.args[bi], N('lit', value=0)))
                return
        if n.kind in ('exists', 'subq'):
            w = walk_shape(n.select)
            if w is not None:
                out.append(Atom(n, 'walk' if w['kind'] == 'ancestors' else 'own-group', w['batch'], w['group']))
                return
            m = marks_only(n.select, fns)
            if m is not None:
                root = m['group'] is not None and m['group'].kind == 'lit' and m['group'].value == 0
                out.append(Atom(n, 'root' if root else 'mark', m['batch'], m['group']))
                return
        for c in n.children():
            rec(c)
    rec(e)
    return out


def replace_nodes(e: N, mapping: Dict[int, N]) -> N:
    """Copy of e in which the nodes whose id() is a key of mapping are replaced (top-down, so an atom is replaced as a whole)."""
    def rec(v: Any) -> Any:
        if isinstance(v, list):
            return [rec(x) for x in v]
        if isinstance(v, tuple):
            return tuple(rec(x) for x in v)
        if not isinstance(v, N):
            return v
        if id(v) in mapping:
            return mapping[id(v)]
        new = N(v.kind, **{k: rec(x) for k, x in v.fields().items()})
        for k in ('pos', 'src'):
            if hasattr(v, k):
                setattr(new, k, getattr(v, k))
        return new
    return rec(e)


def select_as_value(st: N, j: int) -> N:
    """`SELECT .., e_j, .. INTO .., v_j, .. FROM ..`  gives v_j the value of the scalar sub-query `(SELECT e_j FROM ..)`."""
    sel = N('select', **{k: v for k, v in st.fields().items()})
    sel.cols = [st.cols[j]]
    sel.into = None
    return N('subq', select=sel)


def flag_columns(sel: N, fns: Dict[str, Tuple[int, int]]) -> Dict[str, Tuple[str, bool, Optional[N], Optional[N]]]:
    """Result columns of a SELECT that say whether a joined cancellation lookup found something:
        <alias of a derived table / of job_groups_cancelled joined in this FROM>.<col> IS [NOT] NULL  AS name
    -> name: (kind of the lookup 'walk'|'own-group'|'root'|'mark', True when "true means cancelled", batch expr, group expr)."""
    out: Dict[str, Tuple[str, bool, Optional[N], Optional[N]]] = {}
    if sel is None or sel.kind != 'select' or sel.frm is None:
        return out
    look: Dict[str, Tuple[str, Optional[N], Optional[N]]] = {}
    for t in sf.from_tables(sel.frm):
        if t.kind == 'derived' and t.alias:
            w = walk_shape(t.select)
            if w is not None:
                look[t.alias.lower()] = ('walk' if w['kind'] == 'ancestors' else 'own-group', w['batch'], w['group'])
                continue
            m = marks_only(t.select, fns)
            if m is not None:
                root = m['group'] is not None and m['group'].kind == 'lit' and m['group'].value == 0
                look[t.alias.lower()] = ('root' if root else 'mark', m['batch'], m['group'])
    for c in sel.cols:
        e, al = c if isinstance(c, tuple) else (c, None)
        if not isinstance(e, N) or e.kind != 'isnull' or e.arg.kind != 'col' or len(e.arg.parts) < 2:
            continue
        q = e.arg.parts[-2].lower()
        if q in look:
            name = (al or '').lower()
            if name:
                k, b, g = look[q]
                out[name] = (k, bool(e.negated), b, g)
    return out


class SqlPath:
    def __init__(self, stmts: List[N], decisions: Tuple[Tuple[str, bool], ...], end: str):
        self.stmts, self.decisions, self.end = stmts, decisions, end   # end: 'fall' | 'leave' | 'return' | 'error'

    def feasible(self) -> bool:
        seen: Dict[str, bool] = {}
        for c, p in self.decisions:
            if seen.setdefault(c, p) != p:
                return False
        return True


def enumerate_paths(body: Sequence[N], cap: int = 4000) -> List[SqlPath]:
    """Every acyclic path through a routine body (IF / ELSEIF / ELSE, labelled blocks with LEAVE, RETURN, SIGNAL); a loop body is taken
    zero times or once.  Raises AnalysisError beyond `cap` paths."""
    def run(stmts: Sequence[N], pre: List[Tuple[List[N], Tuple[Tuple[str, bool], ...]]]) -> Tuple[List[Tuple[List[N], Tuple[Tuple[str, bool], ...]]], List[Tuple[str, str, List[N], Tuple[Tuple[str, bool], ...]]]]:
        cur = pre
        done: List[Tuple[str, str, List[N], Tuple[Tuple[str, bool], ...]]] = []
        for st in stmts:
            if not cur:
                break
            if len(cur) + len(done) > cap:
                raise AnalysisError('c07facts: too many paths through a routine body')
            if st.kind == 'if':
                nxt: List[Tuple[List[N], Tuple[Tuple[str, bool], ...]]] = []
                neg: Tuple[Tuple[str, bool], ...] = ()
                for c, b in st.branches:
                    f, d = run(b, [(p, dec + neg + ((text(c), True),)) for p, dec in cur])
                    nxt += f
                    done += d
                    neg = neg + ((text(c), False),)
                if st.orelse is not None:
                    f, d = run(st.orelse, [(p, dec + neg) for p, dec in cur])
                    nxt += f
                    done += d
                else:
                    nxt += [(p, dec + neg) for p, dec in cur]
                cur = nxt
            elif st.kind == 'block':
                f, d = run(st.body, cur)
                lab = (getattr(st, 'label', None) or '').lower()
                cur = f
                for how, l2, p, dec in d:
                    if how == 'leave' and lab and l2 == lab:
                        cur.append((p, dec))
                    else:
                        done.append((how, l2, p, dec))
            elif st.kind in ('loop', 'while', 'repeat'):
                f, d = run(st.body, cur)
                lab = (getattr(st, 'label', None) or '').lower()
                nxt = list(cur) + f
                for how, l2, p, dec in d:
                    if how in ('leave', 'iterate') and lab and l2 == lab:
                        nxt.append((p, dec))
                    else:
                        done.append((how, l2, p, dec))
                cur = nxt
            elif st.kind in ('leave', 'iterate'):
                done += [(st.kind, (st.label or '').lower(), p, dec) for p, dec in cur]
                cur = []
            elif st.kind == 'return':
                done += [('return', '', p + [st], dec) for p, dec in cur]
                cur = []
            elif st.kind in ('signal', 'resignal') or (st.kind == 'other' and str(getattr(st, 'text', '')).lstrip().upper().startswith(('SIGNAL', 'RESIGNAL'))):
                done += [('error', '', p + [st], dec) for p, dec in cur]
                cur = []
            else:
                cur = [(p + [st], dec) for p, dec in cur]
        return cur, done
    fall, done = run(body, [([], ())])
    out = [SqlPath(p, dec, 'fall') for p, dec in fall]
    for how, lab, p, dec in done:
        out.append(SqlPath(p, dec, 'error' if how == 'error' else 'return' if how == 'return' else 'leave'))
    return out


def vkey(n: N) -> Optional[str]:
    if n.kind == 'col' and len(n.parts) == 1:
        return n.parts[0].lower()
    if n.kind == 'uvar':
        return '@' + n.name.lower()
    return None


class Def:
    def __init__(self, order: int, stmt: N, guard: Tuple[Tuple[N, bool], ...], value: Optional[N], in_loop: bool):
        self.order, self.stmt, self.guard, self.value, self.in_loop = order, stmt, guard, value, in_loop


class Definitions:
    """Where the locals / user variables of one routine body get their values (SET, SELECT .. INTO, FETCH .. INTO, OUT arguments of
    CALL), in source order with the path condition of sqlfront.guarded_statements."""

    def __init__(self, body: Sequence[N], consts: Set[str]):
        self.consts = consts
        self.order: Dict[int, int] = {}
        self.guard: Dict[int, Tuple[Tuple[N, bool], ...]] = {}
        self.defs: Dict[str, List[Def]] = {}
        loops: Set[int] = set()
        for st in sf.all_statements(body):
            if st.kind in ('loop', 'while', 'repeat'):
                for x in sf.all_statements(st.body):
                    loops.add(id(x))
        for i, (st, g) in enumerate(sf.guarded_statements(body)):
            self.order[id(st)] = i
            self.guard[id(st)] = g
            il = id(st) in loops

            def add(k: Optional[str], v: Optional[N]) -> None:
                if k is not None and (k.startswith('@') or k in consts):
                    self.defs.setdefault(k, []).append(Def(i, st, g, v, il))
            if st.kind == 'set':
                for t, v in st.assigns:
                    add(vkey(t), v)
            elif st.kind == 'select' and st.into:
                for j, t in enumerate(st.into):
                    col = st.cols[j][0] if j < len(st.cols) else None
                    add(vkey(t), None if col is None else (col if st.frm is None else select_as_value(st, j)))
            elif st.kind == 'fetch':
                for t in st.into:
                    add(vkey(t), None)
            elif st.kind == 'call':
                for x in st.args:
                    if isinstance(x, N):
                        add(vkey(x), None)
            # (@v := e) inside any statement
            for n in st.walk() if st.kind not in ('if', 'loop', 'while', 'repeat', 'block') else []:
                if n.kind == 'bin' and n.op == ':=' and n.left.kind == 'uvar':
                    add('@' + n.left.name.lower(), None)

    @staticmethod
    def _implies(consumer_guard: Tuple[Tuple[N, bool], ...], def_guard: Tuple[Tuple[N, bool], ...]) -> bool:
        return all(any(c is c2 and p == p2 for c2, p2 in consumer_guard) for c, p in def_guard)

    def reaching(self, key: str, consumer: N) -> Tuple[str, Optional[Def]]:
        """('value', d)        exactly one definition, before the consumer, executed on every path that reaches the consumer, not in a loop
           ('conditional', d)  the (last) valued definition before the consumer is not executed on every path to the consumer, or there are several
           ('opaque', None)    defined from a table / cursor / OUT argument, or not defined at all (a parameter)."""
        ds = self.defs.get(key, [])
        if not ds:
            return 'opaque', None
        co = self.order.get(id(consumer))
        cg = self.guard.get(id(consumer), ())
        if co is None:
            return 'opaque', None
        before = [d for d in ds if d.order < co]
        if len(ds) == 1 and before and not ds[0].in_loop and ds[0].value is not None and self._implies(cg, ds[0].guard):
            return 'value', ds[0]
        valued = [d for d in before if d.value is not None]
        if valued:
            return 'conditional', valued[-1]
        return 'opaque', None

    def resolve(self, e: N, consumer: N, depth: int = 4) -> Tuple[N, List[Tuple[str, Def]]]:
        """e with every local / user variable that has a unique unconditional definition replaced by its value; also the variables
        that have a valued definition which does NOT reach on every path (evidence for "tested only sometimes")."""
        conditional: List[Tuple[str, Def]] = []

        def rec(x: N, d: int) -> N:
            def repl(n: N) -> Optional[N]:
                k = vkey(n)
                if k is None or d <= 0:
                    return None
                how, df = self.reaching(k, consumer)
                if how == 'value' and df is not None and df.value is not None:
                    return rec(df.value, d - 1)
                if how == 'conditional' and df is not None:
                    conditional.append((k, df))
                return None
            return sf.subst(x, repl)
        return rec(e, depth), conditional


# ------------------------------------------------------------------------------------------------------------------------------------
# Python
# ------------------------------------------------------------------------------------------------------------------------------------

Guard = Tuple[Tuple[ast.expr, bool], ...]


def enclosing_funcs(m: pf.Module, fn: Optional[pf.FuncDef]) -> List[pf.FuncDef]:
    out = []
    cur: Optional[ast.AST] = fn
    par = m.parents()
    while cur is not None:
        if isinstance(cur, (ast.FunctionDef, ast.AsyncFunctionDef)):
            out.append(cur)
        cur = par.get(cur)
    return out


def _module_assign(m: pf.Module, name: str) -> Optional[ast.expr]:
    vals = []
    for st in m.tree.body:
        if isinstance(st, ast.Assign) and len(st.targets) == 1 and isinstance(st.targets[0], ast.Name) and st.targets[0].id == name:
            vals.append(st.value)
        elif isinstance(st, ast.AnnAssign) and isinstance(st.target, ast.Name) and st.target.id == name and st.value is not None:
            vals.append(st.value)
    return vals[0] if len(vals) == 1 else None


def _assign_guards(m: pf.Module, fn: pf.FuncDef, value: ast.AST) -> Optional[Guard]:
    """The if-decisions (inside fn) under which the assignment statement holding `value` executes."""
    par = m.parents()
    st = par.get(value)
    if not isinstance(st, (ast.Assign, ast.AnnAssign)):
        return None
    return tuple((i.test, inb) for i, inb in reversed(sr.enclosing_ifs(m, st, stop=fn)))


def sql_variants(m: pf.Module, fn: Optional[pf.FuncDef], e: ast.expr, depth: int = 0) -> Optional[List[Tuple[str, Guard]]]:
    """The SQL texts `e` can denote, each with the decisions that select it.  None = not resolvable (opaque / f-string with holes)."""
    if depth > 4:
        return None
    s = pf.const_str(e)
    if s is not None:
        return [(s, ())]
    if isinstance(e, ast.IfExp):
        a = sql_variants(m, fn, e.body, depth + 1)
        b = sql_variants(m, fn, e.orelse, depth + 1)
        if a is None or b is None:
            return None
        return [(t, ((e.test, True),) + g) for t, g in a] + [(t, ((e.test, False),) + g) for t, g in b]
    if isinstance(e, ast.Name):
        for f in enclosing_funcs(m, fn):
            vals = pf.assignments(f).get(e.id, [])
            if not vals:
                continue
            if not all(isinstance(v, ast.expr) for v in vals):
                return None
            if len(vals) == 1:
                return sql_variants(m, f, vals[0], depth + 1)
            out: List[Tuple[str, Guard]] = []
            for v in vals:
                g = _assign_guards(m, f, v)
                sub = sql_variants(m, f, v, depth + 1)
                if g is None or sub is None or not g:
                    return None
                out += [(t, g + g2) for t, g2 in sub]
            return out
        d = _module_assign(m, e.id)
        if d is not None:
            return sql_variants(m, None, d, depth + 1)
    return None


class QVariant:
    def __init__(self, sql_text: str, guard: Guard):
        self.sql_text, self.guard = sql_text, guard
        self._stmts: Optional[List[N]] = None
        self.parse_error: Optional[str] = None

    def stmts(self) -> List[N]:
        if self._stmts is None:
            try:
                self._stmts = parse_statements(self.sql_text)
            except SqlParseError as ex:
                self._stmts = []
                self.parse_error = str(ex)
        return self._stmts


class QSite:
    """One execute-style call with every SQL text it can issue."""

    def __init__(self, m: pf.Module, fn: pf.FuncDef, call: ast.Call, variants: Optional[List[QVariant]]):
        self.module, self.fn, self.call, self.variants = m, fn, call, variants
        self.method = call.func.attr  # type: ignore[attr-defined]
        self.receiver = pf.dotted(call.func.value) or pf.nsrc(call.func.value)  # type: ignore[attr-defined]

    @property
    def lineno(self) -> int:
        return self.call.lineno

    def args_expr(self) -> Optional[ast.expr]:
        if len(self.call.args) > 1:
            return self.call.args[1]
        for k in self.call.keywords:
            if k.arg in ('args', 'params', 'parameters'):
                return k.value
        return None


def query_sites(m: pf.Module, fn: pf.FuncDef, into_nested_defs: bool = False) -> List[QSite]:
    out = []
    for node in pf.walk_shallow(fn, into_nested_defs=into_nested_defs):
        if isinstance(node, ast.Call) and isinstance(node.func, ast.Attribute) and node.func.attr in sf.EXEC_METHODS and (node.args or node.keywords):
            first = node.args[0] if node.args else next((k.value for k in node.keywords if k.arg in ('sql', 'query')), None)
            if first is None:
                continue
            inner = m.enclosing_func(node) or fn
            vs = sql_variants(m, inner, first)
            out.append(QSite(m, inner, node, [QVariant(t, g) for t, g in vs] if vs is not None else None))
    return sorted(out, key=lambda s: (s.call.lineno, s.call.col_offset))


def _always_exits(stmts: Sequence[ast.stmt]) -> bool:
    if not stmts:
        return False
    last = stmts[-1]
    if isinstance(last, (ast.Continue, ast.Break, ast.Return, ast.Raise)):
        return True
    if isinstance(last, ast.If):
        return bool(last.orelse) and _always_exits(last.body) and _always_exits(last.orelse)
    return False


def guards_of(m: pf.Module, fn: pf.FuncDef, node: ast.AST) -> Guard:
    """Decisions under which `node` executes inside fn: the tests of the enclosing ifs, and the negated tests of earlier sibling guard
    clauses  `if T: continue|return|raise|break`  in every enclosing statement list up to fn (a `continue`/`break` belongs to the loop
    that also encloses the later siblings, so it skips them)."""
    par = m.parents()
    out: List[Tuple[ast.expr, bool]] = []
    cur: ast.AST = node
    while cur is not fn:
        p = par.get(cur)
        if p is None:
            break
        for field in ('body', 'orelse', 'finalbody'):
            lst = getattr(p, field, None)
            if isinstance(lst, list) and any(cur is s for s in lst):
                if isinstance(p, ast.If):
                    out.append((p.test, field == 'body'))
                for s in lst:
                    if s is cur:
                        break
                    if isinstance(s, ast.If):
                        if _always_exits(s.body) and not s.orelse:
                            out.append((s.test, False))
                        elif s.orelse and _always_exits(s.orelse) and not _always_exits(s.body):
                            out.append((s.test, True))
                        elif s.orelse and _always_exits(s.body) and not _always_exits(s.orelse):
                            out.append((s.test, False))
        cur = p
    return tuple(reversed(out))


def flatten_guard(g: Guard) -> Guard:
    """(a and b, True) -> (a, True), (b, True);  (a or b, False) -> (a, False), (b, False);  `not` is pushed into the polarity."""
    out: List[Tuple[ast.expr, bool]] = []

    def rec(t: ast.expr, pol: bool) -> None:
        if isinstance(t, ast.UnaryOp) and isinstance(t.op, ast.Not):
            rec(t.operand, not pol)
        elif isinstance(t, ast.BoolOp) and ((isinstance(t.op, ast.And) and pol) or (isinstance(t.op, ast.Or) and not pol)):
            for v in t.values:
                rec(v, pol)
        else:
            out.append((t, pol))
    for t, pol in g:
        rec(t, pol)
    return tuple(out)


def norm_test(fn: Optional[pf.FuncDef], t: ast.expr, pol: bool) -> Tuple[ast.expr, bool]:
    """Strip `not`, bool(..), `== True/1`, `is True`, `!= 0` .. down to the tested value, expanding single-definition locals."""
    cur = t
    for _ in range(8):
        if isinstance(cur, ast.UnaryOp) and isinstance(cur.op, ast.Not):
            cur, pol = cur.operand, not pol
            continue
        if isinstance(cur, ast.Call) and isinstance(cur.func, ast.Name) and cur.func.id == 'bool' and len(cur.args) == 1 and not cur.keywords:
            cur = cur.args[0]
            continue
        if isinstance(cur, ast.Compare) and len(cur.ops) == 1 and isinstance(cur.comparators[0], ast.Constant):
            c = cur.comparators[0].value
            op = cur.ops[0]
            if isinstance(cur.left, ast.Call) and isinstance(cur.left.func, ast.Name) and cur.left.func.id == 'len' and len(cur.left.args) == 1 and not cur.left.keywords \
                    and isinstance(c, int) and not isinstance(c, bool):
                # len(x) > 0 / len(x) != 0 / len(x) >= 1  <=>  x is truthy (for sized containers);  len(x) == 0 / len(x) < 1  <=>  not x
                if (c == 0 and isinstance(op, (ast.Gt, ast.NotEq))) or (c == 1 and isinstance(op, ast.GtE)):
                    cur = cur.left.args[0]
                    continue
                if (c == 0 and isinstance(op, (ast.Eq, ast.LtE))) or (c == 1 and isinstance(op, ast.Lt)):
                    cur, pol = cur.left.args[0], not pol
                    continue
            if c in (True, 1) and c is not None and isinstance(op, (ast.Eq, ast.Is)):
                cur = cur.left
                continue
            if c in (False, 0) and c is not None and isinstance(op, (ast.Eq, ast.Is)):
                cur, pol = cur.left, not pol
                continue
            if c in (False, 0) and c is not None and isinstance(op, (ast.NotEq, ast.IsNot)):
                cur = cur.left
                continue
        if isinstance(cur, ast.Name) and fn is not None:
            d = pf.single_def(fn, cur.id)
            if isinstance(d, ast.expr) and not isinstance(d, (ast.Await, ast.Yield, ast.YieldFrom)):
                cur = d
                continue
        break
    return cur, pol


def record_field(e: ast.expr) -> Optional[Tuple[str, str]]:
    """`rec['k']` / `rec.get('k')`  ->  (rec, k)."""
    if isinstance(e, ast.Subscript) and isinstance(e.value, ast.Name) and isinstance(e.slice, ast.Constant) and isinstance(e.slice.value, str):
        return e.value.id, e.slice.value
    if isinstance(e, ast.Call) and isinstance(e.func, ast.Attribute) and e.func.attr == 'get' and isinstance(e.func.value, ast.Name) \
            and len(e.args) == 1 and isinstance(e.args[0], ast.Constant) and isinstance(e.args[0].value, str):
        return e.func.value.id, e.args[0].value
    return None


class _HoistTests(ast.NodeTransformer):
    """`if [not] [await] h(..): ..`  ->  `__c07_tN = [await] h(..)` + `if [not] __c07_tN: ..` for calls of the given helper names, so that
    the statement-level inliner can expand them (evaluation order is unchanged: the test is the first thing an `if` evaluates)."""

    def __init__(self, helpers: Set[str]):
        self.helpers = helpers
        self.n = 0

    def _call(self, e: ast.expr) -> Optional[ast.expr]:
        v = e.value if isinstance(e, ast.Await) else e
        if isinstance(v, ast.Call) and isinstance(v.func, ast.Name) and v.func.id in self.helpers:
            return e
        return None

    def _block(self, stmts: List[ast.stmt]) -> List[ast.stmt]:
        out: List[ast.stmt] = []
        for st in stmts:
            st = self.generic_visit_blocks(st)
            if isinstance(st, ast.If):
                t = st.test
                neg = isinstance(t, ast.UnaryOp) and isinstance(t.op, ast.Not)
                core = t.operand if neg else t
                c = self._call(core)
                if c is not None:
                    self.n += 1
                    nm = f'__c07_t{self.n}'
                    asg = ast.Assign(targets=[ast.Name(id=nm, ctx=ast.Store())], value=c, lineno=st.lineno, col_offset=st.col_offset)
                    ref: ast.expr = ast.Name(id=nm, ctx=ast.Load())
                    st.test = ast.UnaryOp(op=ast.Not(), operand=ref) if neg else ref
                    ast.fix_missing_locations(asg)
                    ast.copy_location(st.test, t)
                    ast.fix_missing_locations(st.test)
                    out.append(asg)
            out.append(st)
        return out

    def generic_visit_blocks(self, st: ast.stmt) -> ast.stmt:
        if isinstance(st, (ast.FunctionDef, ast.AsyncFunctionDef, ast.ClassDef)):
            return st
        for field in ('body', 'orelse', 'finalbody'):
            lst = getattr(st, field, None)
            if isinstance(lst, list) and lst and isinstance(lst[0], ast.stmt):
                setattr(st, field, self._block(lst))
        for h in getattr(st, 'handlers', []) or []:
            h.body = self._block(h.body)
        return st


def inlined(m: pf.Module, qual: str, max_depth: int = 3) -> Tuple[pf.Module, pf.FuncDef, List[str]]:
    """(module view, the function `qual` in it with calls of module-level helper functions inlined, names of the helpers inlined).
    When the function calls no module-level helper the original module and function are returned.  Otherwise the view is a new
    Module whose tree holds copies of the function's top-level definition and of the helpers it (transitively) calls, next to the
    original module-level assignments / imports (shared, never modified), so that constants and imports still resolve."""
    fn0 = m.func(qual)
    top = qual.split('.')[0]
    defs = {f.name: f for f in m.tree.body if isinstance(f, (ast.FunctionDef, ast.AsyncFunctionDef))}
    called: Set[str] = set()
    work = [fn0]
    while work:
        f = work.pop()
        for c in pf.calls_in(f, into_nested_defs=True):
            if isinstance(c.func, ast.Name) and c.func.id in defs and c.func.id != top and c.func.id not in called:
                called.add(c.func.id)
                work.append(defs[c.func.id])
    if not called:
        return m, fn0, []
    body: List[ast.stmt] = []
    for st in m.tree.body:
        if isinstance(st, (ast.FunctionDef, ast.AsyncFunctionDef)):
            if st.name == top or st.name in called:
                body.append(copy.deepcopy(st))
        elif isinstance(st, ast.ClassDef):
            if st.name == top:
                body.append(copy.deepcopy(st))
        else:
            body.append(st)
    tree = ast.Module(body=body, type_ignores=[])
    m2 = pf.Module(m.rel, m.path, m.src, tree)
    fn = m2.func(qual)
    helpers = {f.name: copy.deepcopy(f) for f in body if isinstance(f, (ast.FunctionDef, ast.AsyncFunctionDef)) and f.name in called}
    fn.body = _HoistTests(set(helpers))._block(fn.body)
    il = Inliner(helpers, None, max_depth)
    il.run(fn)
    ast.fix_missing_locations(tree)
    m2._parents = None
    return m2, fn, sorted({h for h, _ in il.inlined})


_IMPORT_ROOTS = ('', 'hail/python/', 'gear/', 'batch/', 'web_common/', 'ci/', 'auth/')


def py_const_int(m: pf.Module, fn: Optional[pf.FuncDef], e: Optional[ast.expr], depth: int = 0) -> Optional[int]:
    """Integer value of a Python expression that is a literal, a single-definition local, a module-level constant or a constant
    imported from another repository module (followed through the import table); None when it is not such a constant."""
    if e is None or depth > 4:
        return None
    if isinstance(e, ast.Constant) and isinstance(e.value, int) and not isinstance(e.value, bool):
        return e.value
    if not isinstance(e, ast.Name):
        return None
    for f in enclosing_funcs(m, fn):
        vals = pf.assignments(f).get(e.id, [])
        if vals:
            if len(vals) == 1 and isinstance(vals[0], ast.expr):
                return py_const_int(m, f, vals[0], depth + 1)
            return None
    d = _module_assign(m, e.id)
    if d is not None:
        return py_const_int(m, None, d, depth + 1)
    origin = m.imports().get(e.id)
    if origin and not origin.startswith('.'):
        mod, _, sym = origin.rpartition('.')
        for root in _IMPORT_ROOTS:
            rel = root + mod.replace('.', '/') + '.py'
            try:
                m2 = pf.load(rel)
            except (AnalysisError, OSError, SyntaxError):
                continue
            d2 = _module_assign(m2, sym)
            if d2 is not None:
                return py_const_int(m2, None, d2, depth + 1)
    return None
