"""Cardinality normal forms of list expressions (C08 R9: the number of pending parents stored with a job = the number of dependency edges stored for it).

`card(e)` maps a list-valued expression to a LINEAR FORM over the symbols

    |L|           the length of a base list L (a request field `spec['k']` / `spec.pop('k', [])`, or a name that is not defined in the loop)
    distinct(X)   the number of distinct elements of X (`set(X)`, `frozenset(X)`, `dict.fromkeys(X)`, `{p for p in X}`), X in canonical form

through the constructs that keep the number of elements (`list`, `tuple`, `sorted`, `reversed`, `X or []`, a comprehension without `if`, concatenation adds).
Single-definition locals of the loop body are followed.  `distinct(X) = |X| - dup(X)` with `dup(X) >= 0` relates the two kinds of symbols; nothing is
evaluated, the comparison is between normal forms.  Anything else (filters, unknown calls) raises AnalysisError: the caller declines.
"""
from __future__ import annotations

import ast
from typing import Dict, List, Optional, Tuple

from . import linform as lf
from . import pyfacts as pf
from .common import AnalysisError
from .linform import Lin

KEEP = ('list', 'tuple', 'sorted', 'reversed')
DEDUP = ('set', 'frozenset', 'dict.fromkeys', 'OrderedDict.fromkeys', 'collections.OrderedDict.fromkeys')


class Card:
    def __init__(self, scope: ast.AST, spec: Optional[str]):
        """scope: the loop whose body defines the locals; spec: name of the per-job dict."""
        self.spec = spec
        self.defs: Dict[str, List[ast.expr]] = {}
        for n in ast.walk(scope):
            if isinstance(n, ast.Assign):
                for t in n.targets:
                    if isinstance(t, ast.Name):
                        self.defs.setdefault(t.id, []).append(n.value)
                    else:
                        for x in ast.walk(t):
                            if isinstance(x, ast.Name) and isinstance(x.ctx, ast.Store):
                                self.defs.setdefault(x.id, []).append(ast.Constant(value=Ellipsis))
            elif isinstance(n, (ast.AugAssign, ast.AnnAssign)) and isinstance(n.target, ast.Name):
                self.defs.setdefault(n.target.id, []).append(n.value if isinstance(n, ast.AnnAssign) and n.value is not None else ast.Constant(value=Ellipsis))
            elif isinstance(n, (ast.For, ast.comprehension)) and n is not scope:
                for x in ast.walk(n.target):
                    if isinstance(x, ast.Name):
                        self.defs.setdefault(x.id, []).append(ast.Constant(value=Ellipsis))
        # lists that are changed in place are not what their definition says
        self.mutated = set()
        for n in ast.walk(scope):
            if isinstance(n, ast.Call) and isinstance(n.func, ast.Attribute) and isinstance(n.func.value, ast.Name) and \
                    n.func.attr in ('append', 'extend', 'insert', 'remove', 'pop', 'clear', 'sort', 'reverse', 'discard', 'add', 'update'):
                self.mutated.add(n.func.value.id)
        self.all_of: Dict[str, Lin] = {}       # canonical text X -> |X| as a linear form (for every distinct(X) symbol handed out)

    # -- names ------------------------------------------------------------------------------------------------------------------------
    def _def(self, name: str) -> Optional[ast.expr]:
        ds = self.defs.get(name, [])
        if not ds:
            return None
        if len(ds) > 1 or (isinstance(ds[0], ast.Constant) and ds[0].value is Ellipsis):
            raise AnalysisError(f'`{name}` has more than one definition in the loop')
        if name in self.mutated and name != self.spec:
            raise AnalysisError(f'`{name}` is changed in place')
        return ds[0]

    def _field(self, e: ast.AST) -> Optional[str]:
        if self.spec is None:
            return None
        if isinstance(e, ast.Subscript) and isinstance(e.value, ast.Name) and e.value.id == self.spec and pf.const_str(e.slice) is not None:
            return pf.const_str(e.slice)
        if isinstance(e, ast.Call) and isinstance(e.func, ast.Attribute) and e.func.attr in ('pop', 'get') and isinstance(e.func.value, ast.Name) and e.func.value.id == self.spec \
                and e.args and pf.const_str(e.args[0]) is not None:
            if len(e.args) == 1 or (isinstance(e.args[1], (ast.List, ast.Tuple)) and not e.args[1].elts) or (isinstance(e.args[1], ast.Constant) and e.args[1].value is None):
                return pf.const_str(e.args[0])
        return None

    # -- canonical text of the multiset an expression denotes --------------------------------------------------------------------------
    def canon(self, e: ast.AST, depth: int = 6) -> str:
        if depth <= 0:
            raise AnalysisError('definitions nested too deeply')
        f = self._field(e)
        if f is not None:
            return f'{self.spec}[{f!r}]'
        if isinstance(e, ast.Name):
            d = self._def(e.id)
            return e.id if d is None else self.canon(d, depth - 1)
        if isinstance(e, ast.BoolOp) and isinstance(e.op, ast.Or) and len(e.values) == 2 and isinstance(e.values[1], (ast.List, ast.Tuple)) and not e.values[1].elts:
            return self.canon(e.values[0], depth)
        if isinstance(e, ast.Call) and (pf.dotted(e.func) in KEEP or pf.dotted(e.func) in DEDUP) and len(e.args) == 1 and not e.keywords:
            inner = self.canon(e.args[0], depth)
            return inner if pf.dotted(e.func) in KEEP else f'distinct({inner})'
        if isinstance(e, ast.BinOp) and isinstance(e.op, ast.Add):
            return f'({self.canon(e.left, depth)} + {self.canon(e.right, depth)})'
        if isinstance(e, (ast.ListComp, ast.GeneratorExp, ast.SetComp)) and len(e.generators) == 1 and not e.generators[0].ifs:
            g = e.generators[0]
            if isinstance(e.elt, ast.Name) and isinstance(g.target, ast.Name) and e.elt.id == g.target.id:
                inner = self.canon(g.iter, depth)
                return f'distinct({inner})' if isinstance(e, ast.SetComp) else inner
            body = f'[{pf.nsrc(e.elt)} for {pf.nsrc(g.target)} in {self.canon(g.iter, depth)}]'
            return f'distinct({body})' if isinstance(e, ast.SetComp) else body
        return pf.nsrc(e)

    # -- number of elements -----------------------------------------------------------------------------------------------------------------
    def card(self, e: ast.AST, depth: int = 6) -> Lin:
        if depth <= 0:
            raise AnalysisError('definitions nested too deeply')
        f = self._field(e)
        if f is not None:
            return lf.sym(f'|{self.spec}[{f!r}]|')
        if isinstance(e, ast.Name):
            d = self._def(e.id)
            return lf.sym(f'|{e.id}|') if d is None else self.card(d, depth - 1)
        if isinstance(e, (ast.List, ast.Tuple)) and not any(isinstance(x, ast.Starred) for x in e.elts):
            return lf.const(len(e.elts))
        if isinstance(e, ast.BoolOp) and isinstance(e.op, ast.Or) and len(e.values) == 2 and isinstance(e.values[1], (ast.List, ast.Tuple)) and not e.values[1].elts:
            return self.card(e.values[0], depth)
        if isinstance(e, ast.Call) and len(e.args) == 1 and not e.keywords:
            fn = pf.dotted(e.func)
            if fn in KEEP:
                return self.card(e.args[0], depth)
            if fn in DEDUP:
                return self._distinct(e.args[0], depth)
        if isinstance(e, ast.BinOp) and isinstance(e.op, ast.Add):
            return self.card(e.left, depth) + self.card(e.right, depth)
        if isinstance(e, (ast.ListComp, ast.GeneratorExp)) and len(e.generators) == 1 and not e.generators[0].is_async:
            if e.generators[0].ifs:
                raise AnalysisError(f'`{pf.nsrc(e)[:80]}` filters its elements')
            return self.card(e.generators[0].iter, depth)
        if isinstance(e, ast.SetComp) and len(e.generators) == 1 and not e.generators[0].ifs:
            return self._distinct(e, depth, whole=True)
        raise AnalysisError(f'number of elements of `{pf.nsrc(e)[:80]}` not recognised')

    def _distinct(self, arg: ast.AST, depth: int, whole: bool = False) -> Lin:
        if whole:
            # a set comprehension: distinct values of the mapped elements
            key = self.canon(arg, depth)[len('distinct('):-1]
            g = arg.generators[0]  # type: ignore[attr-defined]
            self.all_of[key] = self.card(g.iter, depth)
        else:
            key = self.canon(arg, depth)
            if key.startswith('distinct('):
                return self._distinct_sym(key[len('distinct('):-1])
            self.all_of[key] = self.card(arg, depth)
        return self._distinct_sym(key)

    @staticmethod
    def _distinct_sym(key: str) -> Lin:
        return lf.sym(f'distinct({key})')

    # -- a count ------------------------------------------------------------------------------------------------------------------------------
    def count(self, e: ast.AST, depth: int = 6) -> Lin:
        if depth <= 0:
            raise AnalysisError('definitions nested too deeply')
        if isinstance(e, ast.Constant) and isinstance(e.value, int) and not isinstance(e.value, bool):
            return lf.const(e.value)
        if isinstance(e, ast.Call) and isinstance(e.func, ast.Name) and e.func.id == 'len' and len(e.args) == 1 and not e.keywords:
            return self.card(e.args[0], depth)
        if isinstance(e, ast.Call) and isinstance(e.func, ast.Name) and e.func.id == 'int' and len(e.args) == 1:
            return self.count(e.args[0], depth)
        if isinstance(e, ast.BinOp) and isinstance(e.op, (ast.Add, ast.Sub)):
            a, b = self.count(e.left, depth), self.count(e.right, depth)
            return a + b if isinstance(e.op, ast.Add) else a - b
        if isinstance(e, ast.Name):
            d = self._def(e.id)
            if d is None:
                raise AnalysisError(f'count `{e.id}` is not defined in the loop')
            return self.count(d, depth - 1)
        raise AnalysisError(f'count `{pf.nsrc(e)[:80]}` not recognised')


def compare(card: Card, count: Lin, rows: Lin, raw_rows: List[str]) -> Tuple[str, str]:
    """count vs number of rows, for every request that is ACCEPTED (rows that repeat a key are refused by the primary key, so the raw row lists are duplicate-free):
    ('equal' | 'more' | 'fewer' | 'unknown', explanation).  'more': the count can exceed the rows."""
    diff = count - rows
    if not diff.coef and diff.const == 0:
        return 'equal', 'identical normal forms'
    # distinct(X) = |X| - dup(X), dup(X) >= 0; dup(X) = 0 when X itself feeds the rows un-deduplicated
    out = lf.const(diff.const)
    dups: Dict[str, int] = {}
    for s, c in diff.coef.items():
        if s.startswith('distinct(') and s[len('distinct('):-1] in card.all_of:
            key = s[len('distinct('):-1]
            out = out + card.all_of[key].scale(c)
            if key not in raw_rows:
                dups[key] = dups.get(key, 0) - c
        else:
            out = out + lf.Lin({s: c}, 0)
    for k, c in dups.items():
        if c:
            out = out + lf.Lin({f'dup({k})': c}, 0)
    if not out.coef and out.const == 0:
        return 'equal', 'equal once duplicates are refused by the primary key of job_parents'
    if any(s.startswith('distinct(') for s in out.coef):
        return 'unknown', f'count - rows = {out}'
    pos = {s: c for s, c in out.coef.items() if c > 0}
    neg = {s: c for s, c in out.coef.items() if c < 0}
    if out.const >= 0 and pos and not neg:
        return 'more', f'count - rows = {out} (every symbol is a non-negative number)'
    if out.const > 0 and not neg:
        return 'more', f'count - rows = {out}'
    if out.const <= 0 and not pos:
        return 'fewer', f'count - rows = {out}'
    return 'unknown', f'count - rows = {out}'
