"""Abstract execution of the per-job loop of `_create_jobs` (and of the job-spec validator) over SYMBOLIC linear values.

What is computed (nothing is evaluated on sample inputs; the only arithmetic is on literal integer coefficients):

  * every name / `spec[...]` slot that holds an id is mapped, flow-sensitively, to a linear normal form over the base atoms
        rel_job_id      the job id as the client sent it            start_job_id, n_jobs      columns of the update's batch_updates row
        parent[absolute] / parent[in_update]                       one (universally quantified) element of the two parent-id lists
    (`int(..)` wrappers are transparent; anything that is not linear becomes an opaque atom of its own);
  * every request-rejecting test that every later statement of the loop body is dominated by contributes the NEGATION of its condition
    (negation normal form; `not`, chained comparisons, `or`, `any(..)` / `all(..)` over a parent list) as constraints  L <= 0;
  * the tuples appended to the jobs / job_parents argument lists give the linear forms of the ids that are STORED.

The rule module then decides, by comparing normal forms, whether the constraints imply   start <= stored job id <= start + n - 1   and
1 <= stored parent id <= stored job id - 1.  Atoms are independent unknowns with start_job_id >= 1 and n_jobs >= 0.
"""
from __future__ import annotations

import ast
import copy
from typing import Dict, List, Optional, Sequence, Set, Tuple

from . import linform as lf
from . import pyfacts as pf
from .common import AnalysisError
from .linform import Lin

REL = 'rel_job_id'
S = 'start_job_id'
NJ = 'n_jobs'
P_ABS = 'parent[absolute]'
P_REL = 'parent[in_update]'
ATOM_LB = {S: 1, NJ: 0}                      # known lower bounds of the independent unknowns (both unbounded above)
ABS_KEYS = ('absolute_parent_ids', 'parent_ids')
REL_KEYS = ('in_update_parent_ids',)
REJECTS = ('HTTPBadRequest', 'ValidationError', 'HTTPUnprocessableEntity')
BASE = frozenset((REL, S, NJ, P_ABS, P_REL))

Comp = Tuple[str, Lin]                      # (source 'abs' | 'rel', linear form of one element in terms of the source's atom)


class _StripInt(ast.NodeTransformer):
    def visit_Call(self, node: ast.Call):
        self.generic_visit(node)
        if isinstance(node.func, ast.Name) and node.func.id == 'int' and len(node.args) == 1 and not node.keywords:
            return node.args[0]
        return node


def strip_int(e: ast.AST) -> ast.AST:
    return _StripInt().visit(copy.deepcopy(e))


def slice_module(m: pf.Module, target: str) -> pf.Module:
    """A module holding only the module-level function `target` and the module-level functions it (transitively) names - what engines/inline.py needs,
    without deep-copying the whole file."""
    funcs = {f.name: f for f in m.tree.body if isinstance(f, (ast.FunctionDef, ast.AsyncFunctionDef))}
    if target not in funcs:
        raise AnalysisError(f'anchor vanished: {m.rel}::{target} (no definition named {target!r})')
    keep = [target]
    i = 0
    while i < len(keep):
        for n in ast.walk(funcs[keep[i]]):
            if isinstance(n, ast.Name) and n.id in funcs and n.id not in keep:
                keep.append(n.id)
        i += 1
    tree = ast.Module(body=[f for f in m.tree.body if isinstance(f, (ast.FunctionDef, ast.AsyncFunctionDef)) and f.name in keep], type_ignores=[])
    return pf.Module(m.rel, m.path, m.src, tree)


def resolve_module_sql(m: pf.Module) -> int:
    """engines/sqlfront.py resolves the SQL of an execute-style call through string literals, f-strings and single-definition LOCALS; a statement text moved to a
    module-level constant (`_INSERT_JOBS_SQL = '''...'''`) is left opaque.  Fill those in (module-level names with exactly one assignment to a string literal).
    Returns the number of calls resolved.  (Work-around kept outside the shared engine.)"""
    from . import sqlfront as sf
    consts: Dict[str, List[ast.expr]] = {}
    for st in m.tree.body:
        if isinstance(st, ast.Assign):
            for t in st.targets:
                if isinstance(t, ast.Name):
                    consts.setdefault(t.id, []).append(st.value)
        elif isinstance(st, ast.AnnAssign) and isinstance(st.target, ast.Name) and st.value is not None:
            consts.setdefault(st.target.id, []).append(st.value)
    n = 0
    for e in sf.embedded_in(m):
        if e.sql_text is not None or not e.call.args:
            continue
        a = e.call.args[0]
        if isinstance(a, ast.Name) and e.fn is not None:
            a = pf.resolve_expr(e.fn, a)
        if isinstance(a, ast.Name) and len(consts.get(a.id, [])) == 1 and concat_str(consts[a.id][0]) is not None:
            if e.fn is not None and any(isinstance(x, ast.Name) and x.id == a.id and isinstance(x.ctx, (ast.Store, ast.Del)) for x in ast.walk(e.fn)):
                continue
            e.sql_text = concat_str(consts[a.id][0])
            e.how = 'variable'
            e._stmts = None
            e.parse_error = None
            n += 1
    return n


def concat_str(e: ast.AST) -> Optional[str]:
    """a string literal, or string literals joined by `+` (literal folding only)."""
    t = pf.const_str(e)
    if t is not None:
        return t
    if isinstance(e, ast.BinOp) and isinstance(e.op, ast.Add):
        a, b = concat_str(e.left), concat_str(e.right)
        if a is not None and b is not None:
            return a + b
    return None


def sql_alternatives(m: pf.Module, e) -> Optional[List[str]]:
    """The SQL texts an execute-style call (an sqlfront.Embedded) may send when engines/sqlfront.py left it opaque: a conditional expression between texts, a
    name bound once in the function or in an enclosing function (closure) or at module level, literal concatenation.  None when some alternative is not a text."""
    if e.sql_text is not None:
        return [e.sql_text]
    par = m.parents()
    scopes: List[ast.AST] = []
    cur: Optional[ast.AST] = e.call
    while cur is not None:
        if isinstance(cur, (ast.FunctionDef, ast.AsyncFunctionDef)):
            scopes.append(cur)
        cur = par.get(cur)

    def lookup(name: str) -> Optional[ast.AST]:
        for sc in scopes:
            vals = pf.assignments(sc).get(name, [])   # type: ignore[arg-type]
            if vals:
                return vals[0] if len(vals) == 1 and isinstance(vals[0], ast.expr) else None
        vals = [st.value for st in m.tree.body if isinstance(st, ast.Assign) and any(isinstance(t, ast.Name) and t.id == name for t in st.targets)]
        return vals[0] if len(vals) == 1 else None

    def alts(x: ast.AST, depth: int) -> Optional[List[str]]:
        if depth <= 0:
            return None
        t = concat_str(x)
        if t is not None:
            return [t]
        if isinstance(x, ast.IfExp):
            a, b = alts(x.body, depth - 1), alts(x.orelse, depth - 1)
            return a + b if a is not None and b is not None else None
        if isinstance(x, ast.Name):
            d = lookup(x.id)
            return alts(d, depth - 1) if d is not None else None
        return None
    return alts(e.call.args[0], 4) if e.call.args else None


def module_int(m: pf.Module, e: ast.AST) -> Optional[int]:
    """integer literal, or a module-level name with exactly one assignment to an integer literal."""
    if isinstance(e, ast.Constant) and isinstance(e.value, int) and not isinstance(e.value, bool):
        return e.value
    if isinstance(e, ast.Name):
        vals = [st.value for st in m.tree.body if isinstance(st, ast.Assign) and any(isinstance(t, ast.Name) and t.id == e.id for t in st.targets)]
        if len(vals) == 1 and isinstance(vals[0], ast.Constant) and isinstance(vals[0].value, int) and not isinstance(vals[0].value, bool):
            return vals[0].value
    return None


def error_code_branch(m: pf.Module, handler: ast.ExceptHandler, code: int) -> Optional[List[ast.stmt]]:
    """The statements an `except <E> as err:` handler executes when `err.args[0] == code`: follows `if err.args[0] == code: ...` (body) and the guard-clause
    form `if err.args[0] != code: raise` (falls through) through the statement list; other tests on err.args[0] against other literals are followed on the
    side the code takes.  None when the handler does not test the code in a recognised way."""
    name = handler.name
    if not name:
        return None

    def is_code(e: ast.AST) -> bool:
        return isinstance(e, ast.Subscript) and isinstance(e.value, ast.Attribute) and e.value.attr == 'args' and isinstance(e.value.value, ast.Name) and e.value.value.id == name \
            and isinstance(e.slice, ast.Constant) and e.slice.value == 0

    def truth(t: ast.AST) -> Optional[bool]:
        """truth value of a test when err.args[0] == code (None: unknown)."""
        if isinstance(t, ast.Compare) and len(t.ops) == 1 and isinstance(t.ops[0], (ast.Eq, ast.NotEq)):
            for a, b in ((t.left, t.comparators[0]), (t.comparators[0], t.left)):
                if is_code(a):
                    k = module_int(m, b)
                    if k is None:
                        return None
                    return (k == code) if isinstance(t.ops[0], ast.Eq) else (k != code)
            return None
        if isinstance(t, ast.UnaryOp) and isinstance(t.op, ast.Not):
            v = truth(t.operand)
            return None if v is None else not v
        if isinstance(t, ast.BoolOp):
            vs = [truth(v) for v in t.values]
            if isinstance(t.op, ast.And):
                return False if any(v is False for v in vs) else (True if all(v is True for v in vs) else None)
            return True if any(v is True for v in vs) else (False if all(v is False for v in vs) else None)
        return None

    seen_test = [False]

    def follow(stmts: Sequence[ast.stmt]) -> Optional[List[ast.stmt]]:
        out: List[ast.stmt] = []
        for i, st in enumerate(stmts):
            if isinstance(st, ast.If):
                v = truth(st.test)
                if v is None:
                    if any(is_code(x) for x in ast.walk(st.test)):
                        return None
                    out.append(st)
                    continue
                seen_test[0] = True
                taken = follow(st.body if v else st.orelse)
                if taken is None:
                    return None
                out += taken
                if taken and isinstance(taken[-1], (ast.Raise, ast.Return, ast.Continue, ast.Break)):
                    return out
                continue
            out.append(st)
            if isinstance(st, (ast.Raise, ast.Return, ast.Continue, ast.Break)):
                return out
        return out

    res = follow(handler.body)
    return res if res is not None and seen_test[0] else None


# ---- negation normal form of a rejecting test -------------------------------------------------------------------------------------

_NEG = {ast.Lt: ast.GtE, ast.LtE: ast.Gt, ast.Gt: ast.LtE, ast.GtE: ast.Lt, ast.Eq: ast.NotEq, ast.NotEq: ast.Eq}


def nnf(e: ast.AST, neg: bool):
    """('and'|'or', kids) | ('cmp', left, opclass, right) | ('forall'|'exists', target, iter, sub) | ('opaque', expr)."""
    if isinstance(e, ast.BoolOp):
        is_and = isinstance(e.op, ast.And)
        return ('and' if is_and != neg else 'or', [nnf(v, neg) for v in e.values])
    if isinstance(e, ast.UnaryOp) and isinstance(e.op, ast.Not):
        return nnf(e.operand, not neg)
    if isinstance(e, ast.Compare):
        atoms = []
        left = e.left
        for op, right in zip(e.ops, e.comparators):
            oc = type(op)
            if oc not in _NEG:
                return ('opaque', e)
            atoms.append(('cmp', left, _NEG[oc] if neg else oc, right))
            left = right
        if len(atoms) == 1:
            return atoms[0]
        return ('or' if neg else 'and', atoms)
    if isinstance(e, ast.Call) and isinstance(e.func, ast.Name) and e.func.id in ('any', 'all') and len(e.args) == 1 and not e.keywords \
            and isinstance(e.args[0], (ast.GeneratorExp, ast.ListComp)) and len(e.args[0].generators) == 1:
        g = e.args[0].generators[0]
        if not g.ifs and not g.is_async:
            q = 'exists' if e.func.id == 'any' else 'forall'
            if neg:
                q = 'forall' if q == 'exists' else 'exists'
            return (q, g.target, g.iter, nnf(e.args[0].elt, neg))
    return ('opaque', e)


class Constraint:
    __slots__ = ('le0', 'text', 'line', 'file')

    def __init__(self, le0: Lin, text: str, line: int, file: str):
        self.le0, self.text, self.line, self.file = le0, text, line, file


class Sink:
    __slots__ = ('table', 'job', 'parent', 'source', 'line')

    def __init__(self, table: str, job: Lin, parent: Optional[Lin], source: Optional[str], line: int):
        self.table, self.job, self.parent, self.source, self.line = table, job, parent, source, line


def _always_rejects(body: Sequence[ast.stmt]) -> bool:
    if not body:
        return False
    last = body[-1]
    return isinstance(last, ast.Raise) and last.exc is not None and any(k in pf.nsrc(last.exc) for k in REJECTS)


def _contains_reject(st: ast.AST) -> bool:
    return any(isinstance(n, ast.Raise) and n.exc is not None and any(k in pf.nsrc(n.exc) for k in REJECTS) for n in ast.walk(st))


class IdFlow:
    """One pass over a statement list.  `spec` is the name of the per-job dict; `sinks` maps the name of an argument list
    (`jobs_args`) to (table, index of job_id in the appended tuple, index of parent_id or None)."""

    def __init__(self, rel: str, spec: str, env: Optional[Dict[str, Lin]] = None, sinks: Optional[Dict[str, Tuple[str, int, Optional[int]]]] = None):
        self.rel = rel
        self.spec = spec
        self.env: Dict[str, Lin] = dict(env or {})
        self.lists: Dict[str, List[Comp]] = {}
        self.cons: List[Constraint] = []
        self.undecided: List[Tuple[str, frozenset]] = []   # (message, base atoms concerned): rejecting tests that could not be turned into constraints
        self.neq: List[Tuple[str, frozenset]] = []         # accepted-path disequalities `a != b` (they carry no bound on their own, but can sharpen one)
        self.sinks_spec = sinks or {}
        self.sinks: List[Sink] = []
        self._fresh = 0
        self._quant: List[str] = []             # sources of the parent loops we are inside

    # -- values ---------------------------------------------------------------------------------------------------
    def opaque(self, what: str) -> Lin:
        self._fresh += 1
        return lf.sym(f'<{what}#{self._fresh}>')

    def lin(self, e: ast.AST) -> Lin:
        """linear form in base atoms; AnalysisError if not linear."""
        return lf.lin(strip_int(e), self.env)

    def lin_or_opaque(self, e: ast.AST) -> Lin:
        try:
            return self.lin(e)
        except AnalysisError:
            return self.opaque(pf.nsrc(e)[:40])

    def plist(self, e: ast.AST) -> Optional[List[Comp]]:
        if isinstance(e, ast.Name):
            return list(self.lists[e.id]) if e.id in self.lists else None
        if isinstance(e, ast.BoolOp) and isinstance(e.op, ast.Or) and len(e.values) == 2 and isinstance(e.values[1], (ast.List, ast.Tuple)) and not e.values[1].elts:
            return self.plist(e.values[0])
        if isinstance(e, ast.Call) and isinstance(e.func, ast.Name) and e.func.id in ('list', 'sorted', 'tuple', 'set', 'frozenset', 'reversed') and len(e.args) == 1:
            return self.plist(e.args[0])
        if isinstance(e, ast.Call) and pf.dotted(e.func) in ('dict.fromkeys', 'OrderedDict.fromkeys', 'collections.OrderedDict.fromkeys') and len(e.args) == 1 and not e.keywords:
            return self.plist(e.args[0])            # the keys of dict.fromkeys(X): the elements of X (each once; how many is R9's business, not a bound on their values)
        key = None
        if isinstance(e, ast.Call) and isinstance(e.func, ast.Attribute) and e.func.attr in ('pop', 'get') and isinstance(e.func.value, ast.Name) and e.func.value.id == self.spec and e.args:
            key = pf.const_str(e.args[0])
        if isinstance(e, ast.Subscript) and isinstance(e.value, ast.Name) and e.value.id == self.spec:
            key = pf.const_str(e.slice)
        if key is not None:
            slot = f'{self.spec}[{key!r}]'
            if slot in self.lists:
                return list(self.lists[slot])
            if key in ABS_KEYS:
                return [('abs', lf.sym(P_ABS))]
            if key in REL_KEYS:
                return [('rel', lf.sym(P_REL))]
            return None
        if isinstance(e, ast.BinOp) and isinstance(e.op, ast.Add):
            a, b = self.plist(e.left), self.plist(e.right)
            if a is not None and b is not None:
                return a + b
            return None
        if isinstance(e, (ast.ListComp, ast.GeneratorExp)) and len(e.generators) == 1 and not e.generators[0].ifs and isinstance(e.generators[0].target, ast.Name):
            src = self.plist(e.generators[0].iter)
            if src is None:
                return None
            out: List[Comp] = []
            v = e.generators[0].target.id
            saved = self.env.get(v)
            for source, el in src:
                self.env[v] = el
                out.append((source, self.lin_or_opaque(e.elt)))
            if saved is None:
                self.env.pop(v, None)
            else:
                self.env[v] = saved
            return out
        return None

    # -- constraints ------------------------------------------------------------------------------------------------
    def atoms(self, e: ast.AST) -> frozenset:
        """the base atoms (submitted job id, parent ids, range columns) the expression may depend on."""
        out: Set[str] = set()
        for n in ast.walk(e):
            if isinstance(n, ast.Name):
                if n.id in self.lists:
                    for _, el in self.lists[n.id]:
                        out |= set(el.symbols()) & BASE
                elif n.id in self.env:
                    out |= set(self.env[n.id].symbols()) & BASE
            key = None
            if isinstance(n, ast.Subscript) and isinstance(n.value, ast.Name) and n.value.id == self.spec:
                key = pf.const_str(n.slice)
            if isinstance(n, ast.Call) and isinstance(n.func, ast.Attribute) and isinstance(n.func.value, ast.Name) and n.func.value.id == self.spec and n.args:
                key = pf.const_str(n.args[0])
            if key is None:
                continue
            slot = f'{self.spec}[{key!r}]'
            if slot in self.lists:
                for _, el in self.lists[slot]:
                    out |= set(el.symbols()) & BASE
            elif slot in self.env:
                out |= set(self.env[slot].symbols()) & BASE
            elif key in ABS_KEYS:
                out.add(P_ABS)
            elif key in REL_KEYS:
                out.add(P_REL)
            elif key == 'job_id':
                out.add(self.rel)
        return frozenset(out)

    def _tracked(self, e: ast.AST) -> bool:
        """does the expression mention an id we reason about?"""
        return bool(self.atoms(e))

    def _und(self, msg: str, *exprs: ast.AST) -> None:
        a: Set[str] = set()
        for e in exprs:
            a |= self.atoms(e)
        if a:
            self.undecided.append((msg, frozenset(a)))

    def _bounding(self, l: ast.AST, r: ast.AST) -> bool:
        """can a comparison of l with r bound a base atom in terms of base atoms?  (linear with an unknown symbol: no; not linear: maybe)"""
        try:
            d = self.lin(l) - self.lin(r)
        except AnalysisError:
            return True
        return all(x in BASE for x in d.symbols())

    def _add_tree(self, t, where: ast.AST, file: str, conj: bool) -> None:
        kind = t[0]
        if kind == 'and':
            for k in t[1]:
                self._add_tree(k, where, file, conj)
        elif kind == 'or':
            if len(t[1]) == 1:
                self._add_tree(t[1][0], where, file, conj)
                return
            for k in t[1]:
                self._add_tree(k, where, file, False)
        elif kind == 'cmp':
            _, l, oc, r = t
            src = f'{pf.nsrc(l)} {_OPTXT[oc]} {pf.nsrc(r)}'
            if not conj:
                if oc is not ast.NotEq and self._bounding(l, r):
                    self._und(f'{file}:{getattr(where, "lineno", 0)}: `{src}` only holds as one alternative of a disjunction', l, r)
                return
            try:
                a, b = self.lin(l), self.lin(r)
            except AnalysisError:
                self._und(f'{file}:{getattr(where, "lineno", 0)}: `{src}` is not linear', l, r)
                return
            line = getattr(where, 'lineno', 0)
            if oc is ast.NotEq:
                at = self.atoms(l) | self.atoms(r)
                if at and all(x in BASE for x in (a - b).symbols()):
                    self.neq.append((f'{file}:{line}: `{src}`', at))
                return
            if oc is ast.LtE:
                self.cons.append(Constraint(a - b, src, line, file))
            elif oc is ast.Lt:
                self.cons.append(Constraint(a - b + lf.const(1), src, line, file))
            elif oc is ast.GtE:
                self.cons.append(Constraint(b - a, src, line, file))
            elif oc is ast.Gt:
                self.cons.append(Constraint(b - a + lf.const(1), src, line, file))
            elif oc is ast.Eq:
                self.cons.append(Constraint(a - b, src, line, file))
                self.cons.append(Constraint(b - a, src, line, file))
            # != carries no bound
        elif kind == 'forall':
            _, target, it, sub = t
            comps = self.plist(it)
            if comps is None or not isinstance(target, ast.Name):
                self._und(f'{file}:{getattr(where, "lineno", 0)}: quantifier over `{pf.nsrc(it)}` not recognised', it)
                return
            saved = self.env.get(target.id)
            for source, el in comps:
                self.env[target.id] = el
                self._add_tree(sub, where, file, conj)
            if saved is None:
                self.env.pop(target.id, None)
            else:
                self.env[target.id] = saved
        elif kind == 'exists':
            self._und(f'{file}:{getattr(where, "lineno", 0)}: the accepted case only needs SOME element of `{pf.nsrc(t[2])}` to pass', t[2])
        else:
            self._und(f'{file}:{getattr(where, "lineno", 0)}: condition `{pf.nsrc(t[1])[:80]}` not recognised', t[1])

    def accept_not(self, test: ast.AST, file: str) -> None:
        """the request goes on only when `test` is false."""
        self._add_tree(nnf(test, True), test, file, True)

    # -- havoc ------------------------------------------------------------------------------------------------------------
    def _havoc_stores(self, st: ast.AST) -> None:
        for n in ast.walk(st):
            if isinstance(n, ast.Name) and isinstance(n.ctx, (ast.Store, ast.Del)):
                if n.id in self.env:
                    self.env[n.id] = self.opaque(n.id)
                self.lists.pop(n.id, None)
            if isinstance(n, ast.Subscript) and isinstance(n.ctx, (ast.Store, ast.Del)) and isinstance(n.value, ast.Name) and n.value.id == self.spec:
                k = pf.const_str(n.slice)
                slot = f'{self.spec}[{k!r}]'
                self.env[slot] = self.opaque(slot)
                self.lists.pop(slot, None)

    def _havoc_escapes(self, st: ast.AST) -> None:
        """a call that receives the spec dict itself may rewrite its slots."""
        for c in ast.walk(st):
            if isinstance(c, ast.Call) and any(isinstance(a, ast.Name) and a.id == self.spec for a in list(c.args) + [k.value for k in c.keywords]):
                if isinstance(c.func, ast.Name) and c.func.id in ('len', 'id', 'type', 'isinstance', 'bool', 'str', 'repr'):
                    continue
                if isinstance(c.func, ast.Attribute) and c.func.attr in ('dumps', 'info', 'debug', 'warning', 'error', 'exception'):
                    continue
                if isinstance(c.func, ast.Attribute) and c.func.attr == 'validate' and isinstance(c.func.value, ast.Name) and c.func.value.id.endswith('_validator'):
                    continue            # hailtop.utils.validate: `<x>_validator.validate(name, obj)` checks obj against a schema, it does not rewrite it (trusted)
                for slot in [k for k in self.env if k.startswith(self.spec + '[')]:
                    self.env[slot] = self.opaque(slot)
                for slot in [k for k in self.lists if k.startswith(self.spec + '[')]:
                    self.lists.pop(slot)

    # -- statements ---------------------------------------------------------------------------------------------------------
    def run(self, stmts: Sequence[ast.stmt], file: str) -> None:
        for st in stmts:
            self.stmt(st, file)

    def _assign(self, tgt: ast.AST, value: ast.AST) -> None:
        pl = self.plist(value)
        if isinstance(tgt, ast.Name):
            if pl is not None:
                self.lists[tgt.id] = pl
                self.env.pop(tgt.id, None)
            else:
                self.lists.pop(tgt.id, None)
                self.env[tgt.id] = self.lin_or_opaque(value)
            return
        if isinstance(tgt, ast.Subscript) and isinstance(tgt.value, ast.Name) and tgt.value.id == self.spec and pf.const_str(tgt.slice) is not None:
            slot = f'{self.spec}[{pf.const_str(tgt.slice)!r}]'
            if pl is not None:
                self.lists[slot] = pl
                self.env.pop(slot, None)
            else:
                self.lists.pop(slot, None)
                self.env[slot] = self.lin_or_opaque(value)
            return
        self._havoc_stores(tgt)

    def _sink(self, st: ast.stmt) -> bool:
        if not (isinstance(st, ast.Expr) and isinstance(st.value, ast.Call) and isinstance(st.value.func, ast.Attribute) and st.value.func.attr == 'append'
                and isinstance(st.value.func.value, ast.Name) and st.value.func.value.id in self.sinks_spec and len(st.value.args) == 1):
            return False
        table, ji, pi = self.sinks_spec[st.value.func.value.id]
        tup = st.value.args[0]
        if not isinstance(tup, ast.Tuple) or len(tup.elts) <= max(ji, pi or 0):
            raise AnalysisError(f'{st.value.func.value.id}.append: argument is not a tuple literal of the expected width')
        job = self.lin_or_opaque(tup.elts[ji])
        parent = self.lin_or_opaque(tup.elts[pi]) if pi is not None else None
        self.sinks.append(Sink(table, job, parent, self._quant[-1] if self._quant else None, st.lineno))
        return True

    def _sink_extend(self, st: ast.stmt) -> bool:
        """`rows.extend([(.., p) for p in <parent list>])` = `for p in <parent list>: rows.append((.., p))`."""
        if not (isinstance(st, ast.Expr) and isinstance(st.value, ast.Call) and isinstance(st.value.func, ast.Attribute) and st.value.func.attr == 'extend'
                and isinstance(st.value.func.value, ast.Name) and st.value.func.value.id in self.sinks_spec and len(st.value.args) == 1 and not st.value.keywords):
            return False
        a = st.value.args[0]
        if not (isinstance(a, (ast.ListComp, ast.GeneratorExp)) and len(a.generators) == 1 and not a.generators[0].ifs and not a.generators[0].is_async
                and isinstance(a.generators[0].target, ast.Name) and isinstance(a.elt, ast.Tuple)):
            raise AnalysisError(f'{st.value.func.value.id}.extend: argument is not a comprehension of tuple literals over one list without a filter')
        comps = self.plist(a.generators[0].iter)
        if comps is None:
            raise AnalysisError(f'{st.value.func.value.id}.extend: the list `{pf.nsrc(a.generators[0].iter)[:60]}` the rows are built from is not a recognised parent-id list')
        v = a.generators[0].target.id
        saved = self.env.get(v)
        row = ast.copy_location(ast.Expr(value=ast.Call(func=ast.Attribute(value=ast.Name(id=st.value.func.value.id, ctx=ast.Load()), attr='append', ctx=ast.Load()), args=[a.elt], keywords=[])), st)
        ast.fix_missing_locations(row)
        for source, el in comps:
            self.env[v] = el
            self._quant.append(source)
            self._sink(row)
            self._quant.pop()
        if saved is None:
            self.env.pop(v, None)
        else:
            self.env[v] = saved
        return True

    def stmt(self, st: ast.stmt, file: str) -> None:
        if self._sink_extend(st):
            return
        if isinstance(st, ast.Assign) and len(st.targets) == 1:
            self._havoc_escapes(st.value)
            self._assign(st.targets[0], st.value)
            return
        if isinstance(st, ast.AnnAssign) and st.value is not None:
            self._havoc_escapes(st.value)
            self._assign(st.target, st.value)
            return
        if isinstance(st, ast.AugAssign) and isinstance(st.target, ast.Name) and isinstance(st.op, (ast.Add, ast.Sub)) and st.target.id in self.env:
            try:
                d = self.lin(st.value)
                self.env[st.target.id] = self.env[st.target.id] + (d if isinstance(st.op, ast.Add) else -d)
            except AnalysisError:
                self.env[st.target.id] = self.opaque(st.target.id)
            return
        if self._sink(st):
            return
        if isinstance(st, ast.If):
            if _always_rejects(st.body) and not any(isinstance(n, (ast.Assign, ast.AugAssign)) for b in st.body for n in ast.walk(b)):
                self.accept_not(st.test, file)
                if st.orelse:
                    self.run(st.orelse, file)
                return
            # `if parent_ids:` / `if len(parent_ids) > 0:` around the checks: an empty list satisfies every universally quantified bound
            t = st.test
            if isinstance(t, ast.Compare) and len(t.ops) == 1 and isinstance(t.ops[0], (ast.Gt, ast.NotEq)) and isinstance(t.comparators[0], ast.Constant) and t.comparators[0].value == 0 \
                    and isinstance(t.left, ast.Call) and isinstance(t.left.func, ast.Name) and t.left.func.id == 'len' and len(t.left.args) == 1:
                t = t.left.args[0]
            if not st.orelse and self.plist(t) is not None and all(isinstance(x, (ast.For, ast.If)) for x in st.body) and \
                    not any(isinstance(n, (ast.Assign, ast.AugAssign, ast.Return, ast.Continue, ast.Break)) for b in st.body for n in ast.walk(b)):
                self.run(st.body, file)
                return
            self._conditional(st, file)
            return
        if isinstance(st, ast.For) and isinstance(st.target, ast.Name) and not st.orelse:
            comps = self.plist(st.iter)
            if comps is not None:
                if any(isinstance(n, (ast.Continue, ast.Break, ast.Return)) for b in st.body for n in ast.walk(b)):
                    self._conditional(st, file)
                    return
                saved = self.env.get(st.target.id)
                for source, el in comps:
                    self.env[st.target.id] = el
                    self._quant.append(source)
                    self.run(st.body, file)
                    self._quant.pop()
                if saved is None:
                    self.env.pop(st.target.id, None)
                else:
                    self.env[st.target.id] = saved
                return
        if isinstance(st, (ast.Expr, ast.Assert, ast.Pass, ast.Import, ast.ImportFrom, ast.Global, ast.Nonlocal, ast.Delete, ast.Return, ast.Raise)):
            self._havoc_escapes(st)
            # a call whose value is thrown away and that receives an id may be a check that rejects (a helper that was not inlined: nested def, method,
            # coroutine): "no rejecting test bounds the id" cannot be concluded for the ids it sees
            if isinstance(st, ast.Expr):
                c = st.value.value if isinstance(st.value, ast.Await) else st.value
                if isinstance(c, ast.Call) and not (isinstance(c.func, ast.Attribute) and c.func.attr in ('append', 'extend', 'add', 'insert', 'update', 'setdefault', 'info', 'debug', 'warning',
                                                                                                           'error', 'exception', 'write', 'put')):
                    at = self.atoms(c)
                    if at:
                        self.undecided.append((f'{file}:{st.lineno}: `{pf.nsrc(c.func)}(..)` receives the id and is not analysed (it may reject)', at))
            if isinstance(st, ast.Delete):
                self._havoc_stores(st)
            return
        if isinstance(st, (ast.FunctionDef, ast.AsyncFunctionDef, ast.ClassDef)):
            return
        self._conditional(st, file)

    def _test_atoms(self, t) -> frozenset:
        """base atoms that the accepted side of a test (in negation normal form) could bound."""
        kind = t[0]
        out: Set[str] = set()
        if kind in ('and', 'or'):
            for k in t[1]:
                out |= self._test_atoms(k)
        elif kind == 'cmp':
            _, l, oc, r = t
            if oc is not ast.NotEq and self._bounding(l, r):
                out |= self.atoms(l) | self.atoms(r)
        elif kind in ('forall', 'exists'):
            out |= self.atoms(t[2]) | self.atoms(t[3][1] if t[3][0] == 'opaque' else t[2])
            out |= self._test_atoms(t[3]) if t[3][0] != 'opaque' else set()
        else:
            out |= self.atoms(t[1])
        return frozenset(out)

    def _conditional(self, st: ast.stmt, file: str) -> None:
        """a compound statement we do not execute abstractly: forget what it may assign; remember rejecting tests inside it that we did not use."""
        for n in ast.walk(st):
            if isinstance(n, ast.If) and _contains_reject(n) and self._tracked(n.test):
                at = self._test_atoms(nnf(n.test, True))
                if at:
                    self.undecided.append((f'{file}:{n.lineno}: rejecting test `{pf.nsrc(n.test)[:80]}` is not executed on every path', at))
        if any(isinstance(n, ast.Expr) and isinstance(n.value, ast.Call) and isinstance(n.value.func, ast.Attribute) and n.value.func.attr in ('append', 'extend')
               and isinstance(n.value.func.value, ast.Name) and n.value.func.value.id in self.sinks_spec for n in ast.walk(st)):
            raise AnalysisError(f'{file}:{st.lineno}: rows are added to {sorted(self.sinks_spec)} inside a statement that is not analysed ({type(st).__name__})')
        self._havoc_stores(st)
        self._havoc_escapes(st)


_OPTXT = {ast.Lt: '<', ast.LtE: '<=', ast.Gt: '>', ast.GtE: '>=', ast.Eq: '==', ast.NotEq: '!='}


# ---- deciding implications between normal forms ------------------------------------------------------------------------------------

def always_le0(e: Lin) -> bool:
    """e <= 0 for every valuation of the independent atoms (using their known lower bounds)."""
    if e.is_const():
        return e.const <= 0
    mx = e.const
    for a, c in e.coef.items():
        if c > 0 or a not in ATOM_LB:
            return False
        mx += c * ATOM_LB[a]
    return mx <= 0


def can_be_pos(e: Lin) -> bool:
    """e > 0 for SOME valuation, established from the signs alone (atoms with a known domain, unbounded above)."""
    if e.is_const():
        return e.const > 0
    if all(a in ATOM_LB and c > 0 for a, c in e.coef.items()):
        return True
    return False


def decide(goal_le0: Lin, var: str, cons: Sequence[Constraint]):
    """Is `goal_le0 <= 0` implied by ONE of the constraints?  Returns ('ok', c, slack) | ('lenient', c, excess) | ('absent', None, None) |
    ('unknown', c, diff).  Candidates are the constraints in which `var` occurs with the sign it has in the goal."""
    gv = goal_le0.coef.get(var, 0)
    cands = []
    for c in cons:
        cv = c.le0.coef.get(var, 0)
        if cv == 0 or (cv > 0) != (gv > 0):
            continue
        if cv != gv:
            # scale to the same coefficient when that is exact
            if gv % cv == 0 and gv // cv > 0:
                cands.append((c, c.le0.scale(gv // cv)))
            continue
        cands.append((c, c.le0))
    if not cands:
        return 'absent', None, None
    lenient = []
    for c, d in cands:
        diff = goal_le0 - d            # goal = d + diff <= diff
        if always_le0(diff):
            return 'ok', c, diff
        if can_be_pos(diff):
            lenient.append((c, diff))
    if len(lenient) == len(cands):
        return 'lenient', lenient[0][0], lenient[0][1]
    c, d = next((c, d) for c, d in cands if not can_be_pos(goal_le0 - d))
    return 'unknown', c, goal_le0 - d
