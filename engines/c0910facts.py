"""Facts shared by rules/c09.py and rules/c10.py.

Part 1 (SQL, C10): transaction linearisation of the effective stored procedures (CALLed procedures without their own
START TRANSACTION are inlined with their parameters bound), and the lock discipline of the reads whose result decides
whether instances_free_cores_mcpu.free_cores_mcpu is adjusted.

  InnoDB / REPEATABLE READ model used (documented behaviour, nothing is executed):
    * a plain SELECT is a consistent read served from the transaction's read view; the view is created by the FIRST
      consistent read of the transaction and never refreshed;
    * a locking read (FOR UPDATE / FOR SHARE / LOCK IN SHARE MODE), UPDATE and DELETE read the latest committed row and keep
      it locked until COMMIT / ROLLBACK (START TRANSACTION commits implicitly);
    * outside START TRANSACTION .. COMMIT every statement is its own transaction (locks are gone when it returns).

Part 2 (Python, C09): typestate of client-side idempotency tokens (fresh / sent-and-open / sent-and-completed) over the
methods of hailtop.batch_client.aioclient.Batch, interprocedurally (method summaries over the CFG).
"""
from __future__ import annotations

import ast
from typing import Any, Dict, FrozenSet, Iterator, List, Optional, Sequence, Set, Tuple

from . import pyfacts as pf
from . import sqlfront as sf
from .common import AnalysisError
from .sqlast import N, text

# ======================================================================================================
# Part 1: SQL transactions
# ======================================================================================================

LOCKING = ('FOR UPDATE', 'FOR SHARE', 'LOCK IN SHARE MODE')


def is_locking(lock: Optional[str]) -> bool:
    return bool(lock) and any(lock.startswith(p) for p in LOCKING)


class Scope:
    """One activation of a routine inside a transaction (the entry procedure or an inlined CALL)."""

    def __init__(self, sid: int, routine: sf.Routine, parent: Optional['Scope'], bind: Dict[str, N], modes: Dict[str, str]):
        self.id = sid
        self.routine = routine
        self.parent = parent
        self.bind = bind  # callee parameter -> argument expression (in the parent scope)
        self.modes = modes  # parameter -> IN | OUT | INOUT
        self.params = {p[1].lower() for p in routine.ast.params}
        self.locals: Set[str] = set(self.params)
        for st in sf.all_statements(routine.ast.body):
            if st.kind == 'declare':
                self.locals |= {n.lower() for n in st.names}

    @property
    def name(self) -> str:
        return self.routine.name

    def chain(self) -> str:
        return self.name if self.parent is None else f'{self.parent.chain()} > {self.name}'


class Ev:
    """A statement occurrence in the linearised transaction."""

    def __init__(self, idx: int, st: N, guard: tuple, scope: Scope, in_loop: bool, kind: str):
        self.idx = idx
        self.st = st
        self.guard = guard  # ((cond N, polarity, scope id), ...)
        self.scope = scope
        self.in_loop = in_loop
        self.kind = kind  # 'stmt' | 'ifcond' | 'call'
        self.callee: Optional[Scope] = None

    def gset(self) -> FrozenSet[Tuple[int, bool, int]]:
        return frozenset((id(c), p, s) for c, p, s in self.guard)

    def line(self) -> int:
        return self.scope.routine.line_of(self.st)

    def where(self) -> str:
        return f'{self.scope.routine.file}:{self.line()}'


def _subset(a: Ev, b: Ev) -> bool:
    """a executes on every path on which b executes (a's path condition is part of b's)."""
    return a.gset() <= b.gset()


def _exclusive(a: Ev, b: Ev) -> bool:
    gb = b.gset()
    return any((c, not p, s) in gb for c, p, s in a.gset())


class Txn:
    def __init__(self, prog: sf.SqlProgram, entry: sf.Routine, max_depth: int = 4):
        self.prog = prog
        self.entry = entry
        self.events: List[Ev] = []
        self.scopes: List[Scope] = []
        self.max_depth = max_depth
        root = self._scope(entry, None, {}, {p[1].lower(): p[0] for p in entry.ast.params})
        self._walk(entry.ast.body, (), root, False, (entry.name,))

    def _scope(self, r: sf.Routine, parent: Optional[Scope], bind: Dict[str, N], modes: Dict[str, str]) -> Scope:
        s = Scope(len(self.scopes), r, parent, bind, modes)
        self.scopes.append(s)
        return s

    def _emit(self, st: N, guard: tuple, scope: Scope, in_loop: bool, kind: str = 'stmt') -> Ev:
        e = Ev(len(self.events), st, guard, scope, in_loop, kind)
        self.events.append(e)
        return e

    def _walk(self, body: Sequence[N], guard: tuple, scope: Scope, in_loop: bool, stack: Tuple[str, ...]) -> None:
        for st in body:
            if st.kind == 'if':
                neg: tuple = ()
                for c, b in st.branches:
                    self._emit(c, guard + neg, scope, in_loop, 'ifcond')
                    self._walk(b, guard + neg + ((c, True, scope.id),), scope, in_loop, stack)
                    neg = neg + ((c, False, scope.id),)
                if st.orelse is not None:
                    self._walk(st.orelse, guard + neg, scope, in_loop, stack)
                elif st.branches and all(sf._always_exits(b) for _, b in st.branches):
                    # guard clause: `IF c THEN ..; LEAVE l; END IF;` - the rest of this block runs only when c was false (same path conditions as the
                    # IF / ELSE spelling, cf. sf.guarded_statements)
                    guard = guard + neg
            elif st.kind in ('loop', 'while'):
                if st.kind == 'while':
                    self._emit(st.cond, guard, scope, True, 'ifcond')
                self._walk(st.body, guard, scope, True, stack)
            elif st.kind == 'block':
                self._walk(st.body, guard, scope, in_loop, stack)
            elif st.kind == 'declare_handler':
                continue  # runs on SQL conditions only; normal completion is analysed
            elif st.kind == 'call':
                e = self._emit(st, guard, scope, in_loop, 'call')
                callee = self.prog.routines.get(st.name) or next((r for n, r in self.prog.routines.items() if n.lower() == st.name.lower()), None)
                if callee is None:
                    raise AnalysisError(f'{scope.routine.file}::{scope.name}: CALL of unknown routine {st.name}')
                if callee.name in stack or len(stack) >= self.max_depth:
                    raise AnalysisError(f'{scope.routine.file}::{scope.name}: CALL {st.name} is recursive or nested deeper than {self.max_depth}')
                ps = callee.ast.params
                if len(ps) != len(st.args):
                    raise AnalysisError(f'{scope.routine.file}::{scope.name}: CALL {st.name} passes {len(st.args)} argument(s), the routine takes {len(ps)}')
                bind = {p[1].lower(): a for p, a in zip(ps, st.args)}
                modes = {p[1].lower(): p[0] for p in ps}
                cs = self._scope(callee, scope, bind, modes)
                e.callee = cs
                self._walk(callee.ast.body, guard, cs, in_loop, stack + (callee.name,))
            else:
                self._emit(st, guard, scope, in_loop)

    # ---- canonical forms -----------------------------------------------------------------------------
    def canon_tree(self, e: N, scope: Scope) -> N:
        def repl(n: N) -> Optional[N]:
            if n.kind == 'col':
                nm = n.parts[-1].lower()
                if len(n.parts) == 1 and nm in scope.locals:
                    if nm in scope.params:
                        if scope.parent is None:
                            return N('col', parts=[nm])
                        if scope.modes.get(nm, 'IN') == 'IN' and nm in scope.bind:
                            return self.canon_tree(scope.bind[nm], scope.parent)
                    return N('col', parts=[f'{nm}@{scope.id}'])
                return N('col', parts=[nm])
            return None

        return sf.subst(e, repl)

    def canon(self, e: N, scope: Scope) -> str:
        """Expression text with callee parameters replaced by their (canonical) arguments, locals tagged by scope and
        table qualifiers dropped: equal strings denote the same value / the same row predicate anywhere in the transaction."""
        return text(self.canon_tree(e, scope)).lower()

    def row_pred(self, where: Optional[N], scope: Scope) -> FrozenSet[str]:
        out = set()
        for c in sf.conjuncts(where):
            if c.kind == 'bin' and c.op == '=':
                a, b = sorted([self.canon(c.left, scope), self.canon(c.right, scope)])
                out.add(f'{a} = {b}')
            else:
                out.add(self.canon(c, scope))
        return frozenset(out)

    # ---- transaction structure -----------------------------------------------------------------------
    def boundaries(self) -> List[Ev]:
        return [e for e in self.events if e.kind == 'stmt' and e.st.kind == 'txn']

    def txn_start_for(self, ev: Ev) -> Tuple[Optional[Ev], str]:
        """(START TRANSACTION event governing ev, status) with status in 'in' | 'out' | 'unknown'."""
        last: Optional[Ev] = None
        maybe = False
        for b in self.boundaries():
            if b.idx >= ev.idx:
                break
            if _exclusive(b, ev):
                continue
            if _subset(b, ev):
                last = b
                maybe = False
            else:
                maybe = True
        if maybe:
            return last, 'unknown'
        if last is None or last.st.what != 'START TRANSACTION':
            return last, 'out'
        return last, 'in'

    def boundary_between(self, a: Ev, b: Ev) -> Tuple[Optional[Ev], str]:
        """A transaction boundary executed between a and b on the way to b: ('definite' | 'maybe' | 'none')."""
        res: Tuple[Optional[Ev], str] = (None, 'none')
        for x in self.boundaries():
            if not (a.idx < x.idx < b.idx) or _exclusive(x, b):
                continue
            if _subset(x, b):
                return x, 'definite'
            res = (x, 'maybe')
        return res

    # ---- snapshot (read view) ------------------------------------------------------------------------
    def _own_nodes(self, ev: Ev) -> Iterator[N]:
        if ev.kind == 'call':
            for a in ev.st.args:
                yield from a.walk()
        else:
            yield from ev.st.walk()

    def _fn_reads(self, name: str, seen: Tuple[str, ...] = ()) -> Optional[bool]:
        """Does stored function `name` perform a consistent (non-locking) table read?  None = not a stored function."""
        r = self.prog.routines.get(name) or next((x for n, x in self.prog.routines.items() if n.lower() == name.lower()), None)
        if r is None or r.kind != 'function':
            return None
        if name in seen:
            return True
        for st in sf.all_statements(r.ast.body):
            for n in st.walk():
                if n.kind == 'select' and n.frm is not None and sf.from_tables(n.frm) and not is_locking(n.lock):
                    return True
                if n.kind == 'func' and self._fn_reads(n.name, seen + (name,)):
                    return True
        return False

    def snapshot_kind(self, ev: Ev) -> Optional[str]:
        """'read' when the statement itself performs a consistent read of a table (creating the read view if none exists yet),
        'function' when it invokes a stored function that does, else None."""
        if ev.kind == 'stmt' and ev.st.kind not in ('select', 'set', 'return'):
            # INSERT..SELECT / UPDATE / DELETE read with locks; other statements do not read tables
            nodes = [n for n in self._own_nodes(ev) if n.kind == 'func']
        else:
            nodes = list(self._own_nodes(ev))
        kind = None
        for n in nodes:
            if n.kind == 'select' and n.frm is not None and sf.from_tables(n.frm) and not is_locking(n.lock):
                return 'read'
            if n.kind == 'func' and self._fn_reads(n.name):
                kind = 'function'
        return kind

    def snapshots_before(self, ev: Ev, start: Optional[Ev]) -> List[Tuple[Ev, str, str]]:
        """Consistent reads executed after `start` and before ev: (event, 'read'|'function', 'definite'|'maybe')."""
        out = []
        for x in self.events:
            if x.idx >= ev.idx or (start is not None and x.idx <= start.idx) or _exclusive(x, ev):
                continue
            k = self.snapshot_kind(x)
            if k:
                out.append((x, k, 'definite' if _subset(x, ev) else 'maybe'))
        return out

    # ---- def-use of routine variables ----------------------------------------------------------------
    def vars_in(self, e: N, scope: Scope) -> Set[Tuple[int, str]]:
        out = set()
        for n in e.walk():
            if n.kind == 'col' and len(n.parts) == 1 and n.parts[0].lower() in scope.locals:
                out.add((scope.id, n.parts[0].lower()))
        return out

    def guard_reads(self, w: Ev) -> Tuple[List[Tuple[Ev, str, str]], List[str]]:
        """Table reads whose result flows into the path condition of w:  [(read event, variable, column text)], and the list
        of shapes that could not be followed (the caller must decline when it is not empty)."""
        reads: List[Tuple[Ev, str, str]] = []
        unknown: List[str] = []
        seen: Set[Tuple[int, str]] = set()
        work: List[Tuple[int, str]] = []
        for c, _, sid in w.guard:
            work += list(self.vars_in(c, self.scopes[sid]))
        while work:
            sid, v = work.pop()
            if (sid, v) in seen:
                continue
            seen.add((sid, v))
            scope = self.scopes[sid]
            if v in scope.params and scope.parent is not None and scope.modes.get(v, 'IN') in ('IN', 'INOUT'):
                work += list(self.vars_in(scope.bind[v], scope.parent))
            for e in self.events:
                if e.idx >= w.idx or _exclusive(e, w):
                    continue
                st = e.st
                if e.kind == 'call' and e.callee is not None:
                    # OUT / INOUT arguments naming v
                    if e.scope.id == sid:
                        for p, a in e.callee.bind.items():
                            if e.callee.modes.get(p, 'IN') != 'IN' and a.kind == 'col' and len(a.parts) == 1 and a.parts[0].lower() == v:
                                work.append((e.callee.id, p))
                    continue
                if e.scope.id != sid or e.kind != 'stmt':
                    continue
                if st.kind == 'select' and st.into:
                    for (c, _al), tv in zip(st.cols, st.into):
                        if tv.kind == 'col' and len(tv.parts) == 1 and tv.parts[0].lower() == v:
                            if st.frm is not None and sf.from_tables(st.frm):
                                reads.append((e, v, text(c)))
                            else:
                                if any(n.kind in ('func',) and self._fn_reads(n.name) is not None for n in c.walk()) or any(n.kind in ('subq', 'exists') for n in c.walk()):
                                    unknown.append(f'{scope.name}: {v} is computed by `{text(st)[:80]}` (stored function / subquery)')
                                work += list(self.vars_in(c, scope))
                    if len(st.into) != len(st.cols) and any(tv.kind == 'col' and tv.parts[-1].lower() == v for tv in st.into):
                        unknown.append(f'{scope.name}: SELECT .. INTO with a different number of columns and variables')
                elif st.kind == 'set':
                    for t, val in st.assigns:
                        if t.kind == 'col' and len(t.parts) == 1 and t.parts[0].lower() == v:
                            if any(n.kind in ('subq', 'exists', 'select') for n in val.walk()) or any(n.kind == 'func' and self._fn_reads(n.name) is not None for n in val.walk()):
                                unknown.append(f'{scope.name}: {v} is SET from a subquery / stored function')
                            work += list(self.vars_in(val, scope))
                elif st.kind == 'fetch':
                    if any(tv.kind == 'col' and tv.parts[-1].lower() == v for tv in (st.into or [])):
                        unknown.append(f'{scope.name}: {v} is FETCHed from a cursor')
        # de-duplicate
        uniq = []
        for r in reads:
            if not any(r[0] is q[0] and r[1] == q[1] for q in uniq):
                uniq.append(r)
        return uniq, unknown

    # ---- lock discipline of one guard read ---------------------------------------------------------------
    def row_locked_before(self, p: Ev, start: Ev) -> Tuple[Optional[Ev], str]:
        """An earlier statement of the same transaction that executes whenever p does and leaves (a superset of) the rows p reads locked.
        status: 'locked' | 'none' | 'unknown'."""
        tabs = sf.from_tables(p.st.frm)
        if len(tabs) != 1 or tabs[0].kind != 'table':
            return None, 'none'
        tname = tabs[0].name.lower()
        want = self.row_pred(p.st.where, p.scope)
        for x in self.events:
            if x.idx <= start.idx or x.idx >= p.idx or x.kind != 'stmt' or not _subset(x, p):
                continue
            st = x.st
            if st.kind == 'select' and is_locking(st.lock) and 'SKIP LOCKED' not in st.lock:
                t2 = sf.from_tables(st.frm) if st.frm is not None else []
            elif st.kind in ('update', 'delete'):
                t2 = sf.from_tables(st.frm)
            else:
                continue
            if len(t2) != 1 or t2[0].kind != 'table' or t2[0].name.lower() != tname:
                continue
            have = self.row_pred(st.where, x.scope)
            if have <= want:
                b, how = self.boundary_between(x, p)
                if how == 'none':
                    return x, 'locked'
                if how == 'maybe':
                    return x, 'unknown'
        return None, 'none'


def free_core_writes(txn: Txn, table: str, col: str) -> List[Tuple[Ev, str, N]]:
    """(event, '+' | '-' | 'other', value) for every UPDATE of table.col in the linearised transaction."""
    out = []
    for e in txn.events:
        st = e.st
        if e.kind != 'stmt' or st.kind != 'update':
            continue
        names = [t.lower() for t in sf.table_names(st.frm)]
        if table not in names:
            continue
        for c, v in st.sets:
            if c.kind == 'col' and c.parts[-1].lower() == col:
                sign = 'other'
                if v.kind == 'bin' and v.op in ('+', '-') and v.left.kind == 'col' and v.left.parts[-1].lower() == col:
                    sign = v.op
                elif any(n.kind == 'col' and n.parts[-1].lower() == col for n in v.walk()):
                    sign = 'relative'
                out.append((e, sign, v))
    return out


def entry_procedures(prog: sf.SqlProgram) -> Tuple[List[sf.Routine], Set[str]]:
    """Procedures that begin their own transaction or are not CALLed from SQL (their statements are analysed in their own
    linearisation); second result: procedures only ever reached through CALL."""
    called: Set[str] = set()
    for r in prog.routines.values():
        for st in sf.all_statements(r.ast.body):
            if st.kind == 'call':
                called.add(st.name.lower())
    entries = []
    for n, r in sorted(prog.routines.items()):
        if r.kind != 'procedure':
            continue
        has_start = any(st.kind == 'txn' and st.what == 'START TRANSACTION' for st in sf.all_statements(r.ast.body))
        if has_start or n.lower() not in called:
            entries.append(r)
    return entries, called


# ======================================================================================================
# Part 2: client-side idempotency tokens (Python)
# ======================================================================================================

FRESH_GENERATORS = {'secrets.token_urlsafe', 'secrets.token_hex', 'secrets.token_bytes', 'secret_alnum_string', 'uuid.uuid4', 'uuid4',
                    'token_urlsafe', 'token_hex', 'os.urandom', 'random.randbytes'}
CACHE_DECORATORS = {'functools.cache', 'functools.lru_cache', 'cache', 'lru_cache', 'cached_property', 'functools.cached_property'}

# endpoint kinds: (suffix pattern on the URL template with holes rendered as {}) -> kind
#   opens+completes: the server finishes the logical request inside this call
ENDPOINTS = [
    ('/batches/create-fast', 'create-fast'),
    ('/batches/create', 'batch-create'),
    ('/update-fast', 'update-fast'),
    ('/updates/create', 'update-create'),
    ('/updates/{}/commit', 'commit'),
]


def calls_in_eval_order(node: ast.AST) -> List[ast.Call]:
    """Calls of an expression / simple statement in evaluation order (arguments before the call; nested defs and lambdas skipped)."""
    out: List[ast.Call] = []

    def rec(n: ast.AST) -> None:
        if isinstance(n, (ast.FunctionDef, ast.AsyncFunctionDef, ast.Lambda, ast.ClassDef)):
            return
        for c in ast.iter_child_nodes(n):
            rec(c)
        if isinstance(n, ast.Call):
            out.append(n)

    rec(node)
    return out


class Site:
    def __init__(self, method: str, call: ast.Call, kind: str, url: str):
        self.method = method
        self.call = call
        self.kind = kind
        self.url = url


class TokenFacts:
    """Facts about class `cls_name` of module m (the asynchronous batch client)."""

    def __init__(self, m: pf.Module, cls_name: str):
        self.m = m
        self.cls = m.cls(cls_name)
        self.cls_name = cls_name
        self.methods: Dict[str, pf.FuncDef] = {f.name: f for f in self.cls.body if isinstance(f, (ast.FunctionDef, ast.AsyncFunctionDef))}
        self.sites: List[Site] = []
        for name, fn in self.methods.items():
            for c in ast.walk(fn):
                if isinstance(c, ast.Call) and isinstance(c.func, ast.Attribute) and c.func.attr in ('_post', '_patch', 'post', 'patch', '_put', 'put') and c.args:
                    url = pf.fstring_template(pf.expand_locals(fn, c.args[0]), lambda x: '{}')
                    if url is None:
                        continue
                    for suffix, kind in ENDPOINTS:
                        if url.endswith(suffix):
                            self.sites.append(Site(name, c, kind, url))
                            break

    # ---- deferred evaluation: code inside lambdas / nested defs of a method ---------------------------------------------------------------
    #
    # A request or a token draw written inside `lambda: ...` / `async def send(): ...` is not evaluated where it stands but wherever the
    # callable ends up being invoked - possibly more than once (retry helpers).  The facts below say where such a region goes.

    def _par(self) -> Dict[ast.AST, ast.AST]:
        return self.m.parents()

    def regions_of(self, fn: pf.FuncDef, node: ast.AST) -> List[ast.AST]:
        """lambdas / nested defs of fn that enclose node, innermost first."""
        par = self._par()
        out: List[ast.AST] = []
        cur = par.get(node)
        while cur is not None and cur is not fn:
            if isinstance(cur, (ast.Lambda, ast.FunctionDef, ast.AsyncFunctionDef)):
                out.append(cur)
            cur = par.get(cur)
        return out

    def in_loop(self, node: ast.AST, stop: ast.AST) -> bool:
        """is node inside a loop / comprehension of `stop` (not looking out of an enclosing lambda / nested def)?"""
        par = self._par()
        cur = par.get(node)
        while cur is not None and cur is not stop:
            if isinstance(cur, (ast.For, ast.AsyncFor, ast.While, ast.ListComp, ast.GeneratorExp, ast.SetComp, ast.DictComp)):
                return True
            if isinstance(cur, (ast.Lambda, ast.FunctionDef, ast.AsyncFunctionDef)):
                return False
            cur = par.get(cur)
        return False

    def region_uses(self, fn: pf.FuncDef, region: ast.AST) -> List[Tuple[str, Optional[ast.Call], Optional[ast.AST]]]:
        """How the callable defined by `region` is used inside fn: ('arg', receiving call, the argument node) | ('called', call, None) | ('other', None, node)."""
        par = self._par()
        out: List[Tuple[str, Optional[ast.Call], Optional[ast.AST]]] = []

        def classify(ref: ast.AST) -> None:
            p_ = par.get(ref)
            if isinstance(p_, ast.keyword):
                kw = p_
                p_ = par.get(p_)
                if isinstance(p_, ast.Call):
                    out.append(('arg', p_, kw))
                    return
            if isinstance(p_, ast.Call):
                if p_.func is ref:
                    out.append(('called', p_, None))
                elif any(a is ref for a in p_.args):
                    out.append(('arg', p_, ref))
                else:
                    out.append(('other', None, ref))
                return
            out.append(('other', None, ref))

        if isinstance(region, ast.Lambda):
            classify(region)
        else:
            for n in ast.walk(fn):
                if isinstance(n, ast.Name) and n.id == region.name and isinstance(n.ctx, ast.Load) and not any(x is region for x in self.regions_of(fn, n)):  # type: ignore[union-attr]
                    classify(n)
        return out

    def callee_of(self, call: ast.Call) -> Tuple[str, Optional[str], Optional[pf.FuncDef]]:
        """('retry', dotted, None) | ('method', name, def) | ('func', name, def) | ('unknown', text, None)."""
        d = pf.dotted(call.func) or ''
        if 'retry' in d.lower():
            return 'retry', d, None
        f = call.func
        if isinstance(f, ast.Attribute) and isinstance(f.value, ast.Name) and f.value.id in ('self', 'cls', self.cls_name) and f.attr in self.methods:
            return 'method', f.attr, self.methods[f.attr]
        if isinstance(f, ast.Name):
            for st in self.m.tree.body:
                if isinstance(st, (ast.FunctionDef, ast.AsyncFunctionDef)) and st.name == f.id:
                    return 'func', f.id, st
        return 'unknown', d or pf.nsrc(f), None

    @staticmethod
    def _params(kind: str, fn: pf.FuncDef) -> List[str]:
        ps = [a.arg for a in fn.args.posonlyargs + fn.args.args]
        if kind == 'method' and not any((pf.dotted(d) or '') == 'staticmethod' for d in fn.decorator_list) and ps:
            ps = ps[1:]
        return ps

    def param_for(self, kind: str, fn: pf.FuncDef, call: ast.Call, arg: ast.AST) -> Optional[str]:
        """the parameter of fn that receives `arg` (a positional argument node or an ast.keyword) of the call."""
        if isinstance(arg, ast.keyword):
            names = self._params(kind, fn) + [a.arg for a in fn.args.kwonlyargs]
            return arg.arg if arg.arg in names else None
        ps = self._params(kind, fn)
        for i, a in enumerate(call.args):
            if isinstance(a, ast.Starred):
                return None
            if a is arg:
                return ps[i] if i < len(ps) else None
        return None

    def multi_params(self) -> Dict[Tuple[str, str], Set[str]]:
        """(kind, function name) -> parameters that hold a callable the function may invoke MORE THAN ONCE: called (or handed on) inside a loop, handed
        to a retry helper, handed to such a parameter of another function of this module, or used inside a nested def / lambda that is."""
        universe: List[Tuple[str, str, pf.FuncDef]] = [('method', n, f) for n, f in self.methods.items()]
        universe += [('func', st.name, st) for st in self.m.tree.body if isinstance(st, (ast.FunctionDef, ast.AsyncFunctionDef))]
        multi: Dict[Tuple[str, str], Set[str]] = {(k, n): set() for k, n, _ in universe}
        par = self._par()

        def handed_on(call: ast.Call, arg: ast.AST) -> bool:
            kind, name, g = self.callee_of(call)
            if kind == 'retry':
                return True
            if g is None:
                return False
            q = self.param_for(kind, g, call, arg)
            return q is not None and q in multi[(kind, name)]  # type: ignore[index]

        def region_multi(fn: pf.FuncDef, region: ast.AST) -> bool:
            for how, call, arg in self.region_uses(fn, region):
                if how == 'arg' and call is not None and arg is not None and handed_on(call, arg):
                    return True
                if how == 'called' and call is not None and self.in_loop(call, fn):
                    return True
            return False

        # parameters that are invoked at all (called, or handed to something that calls them)
        may_call: Dict[Tuple[str, str], Set[str]] = {(k, n): set() for k, n, _ in universe}
        changed = True
        while changed:
            changed = False
            for kind, name, fn in universe:
                for p_ in self._params(kind, fn) + [a.arg for a in fn.args.kwonlyargs]:
                    if p_ in may_call[(kind, name)]:
                        continue
                    for ref in ast.walk(fn):
                        if not (isinstance(ref, ast.Name) and ref.id == p_ and isinstance(ref.ctx, ast.Load)):
                            continue
                        up = par.get(ref)
                        kw = None
                        if isinstance(up, ast.keyword):
                            kw, up = up, par.get(up)
                        if not isinstance(up, ast.Call):
                            continue
                        ok = up.func is ref
                        if not ok and (kw is not None or any(a is ref for a in up.args)):
                            k2, n2, g2 = self.callee_of(up)
                            if k2 == 'retry':
                                ok = True
                            elif g2 is not None:
                                q = self.param_for(k2, g2, up, kw if kw is not None else ref)
                                ok = q is not None and q in may_call[(k2, n2)]  # type: ignore[index]
                        if ok:
                            may_call[(kind, name)].add(p_)
                            changed = True
                            break

        def handed_in_loop(call: ast.Call, arg: ast.AST) -> bool:
            k2, n2, g2 = self.callee_of(call)
            if g2 is None:
                return False
            q = self.param_for(k2, g2, call, arg)
            return q is not None and q in may_call[(k2, n2)]  # type: ignore[index]

        changed = True
        while changed:
            changed = False
            for kind, name, fn in universe:
                params = self._params(kind, fn) + [a.arg for a in fn.args.kwonlyargs]
                for p_ in params:
                    if p_ in multi[(kind, name)]:
                        continue
                    hit = False
                    for ref in ast.walk(fn):
                        if not (isinstance(ref, ast.Name) and ref.id == p_ and isinstance(ref.ctx, ast.Load)):
                            continue
                        up = par.get(ref)
                        kw = None
                        if isinstance(up, ast.keyword):
                            kw = up
                            up = par.get(up)
                        if not isinstance(up, ast.Call):
                            continue
                        regs = self.regions_of(fn, ref)
                        scope = regs[0] if regs else fn
                        if up.func is ref:
                            if self.in_loop(up, scope):
                                hit = True
                        elif kw is not None or any(a is ref for a in up.args):
                            a_ = kw if kw is not None else ref
                            if handed_on(up, a_) or (self.in_loop(up, scope) and handed_in_loop(up, a_)):
                                hit = True
                        if not hit and any(region_multi(fn, r) for r in regs):
                            hit = True
                        if hit:
                            break
                    if hit:
                        multi[(kind, name)].add(p_)
                        changed = True
        return multi

    # ---- spec producers ----------------------------------------------------------------------------------
    def producers(self) -> List[Tuple[str, ast.expr, Set[str]]]:
        """(method, token value expression, key set) for every method returning a dict that carries a 'token' key (a dict literal, possibly
        through one local that is extended by constant-key subscript stores)."""
        out = []
        for name, fn in self.methods.items():
            rets = [n for n in pf.walk_shallow(fn) if isinstance(n, ast.Return) and n.value is not None]
            for r in rets:
                v = r.value
                extra_keys: Set[str] = set()
                if isinstance(v, ast.Name):
                    d = pf.single_def(fn, v.id)
                    for n in pf.walk_shallow(fn):
                        if isinstance(n, ast.Assign) and isinstance(n.targets[0], ast.Subscript) and pf.nsrc(n.targets[0].value) == v.id:
                            k = pf.const_str(n.targets[0].slice)
                            if k is not None:
                                extra_keys.add(k)
                    v = d if isinstance(d, ast.expr) else v
                if isinstance(v, ast.Dict):
                    keys = {pf.const_str(k) for k in v.keys if k is not None}
                    if 'token' in keys:
                        tv = [val for k, val in zip(v.keys, v.values) if k is not None and pf.const_str(k) == 'token'][0]
                        out.append((name, tv, {k for k in keys if k} | extra_keys))
        return out

    def classify(self, fn: pf.FuncDef, e: ast.expr) -> Tuple[str, Any]:
        """('fresh', call) | ('attr', name) | ('deterministic', leaves) | ('unknown', why)."""
        x = pf.expand_locals(fn, e)
        if isinstance(x, ast.Attribute) and isinstance(x.value, ast.Name) and x.value.id == 'self':
            return 'attr', x.attr
        calls = [c for c in ast.walk(x) if isinstance(c, ast.Call)]
        fresh = [c for c in calls if pf.dotted(c.func) in FRESH_GENERATORS]
        if fresh:
            # every other leaf must be constant / formatting of the fresh value
            others = [c for c in calls if c not in fresh and not (pf.dotted(c.func) in ('str', 'format') or (isinstance(c.func, ast.Attribute) and c.func.attr in ('hex', 'decode', 'format', 'lower', 'upper')))]
            if others:
                return 'unknown', f'token mixes a fresh draw with other calls: {pf.nsrc(x)}'
            return 'fresh', fresh[0]
        unknown_calls = [c for c in calls if pf.dotted(c.func) not in ('len', 'str', 'int', 'hash', 'repr', 'format') and
                         not (isinstance(c.func, ast.Attribute) and c.func.attr in ('format', 'encode', 'hexdigest', 'digest', 'join', 'lower', 'upper')) and
                         not (pf.dotted(c.func) or '').startswith('hashlib.')]
        if unknown_calls:
            return 'unknown', f'token is computed by `{pf.nsrc(x)}`'
        return 'deterministic', pf.nsrc(x)

    # ---- typestate of a token stored on the object ---------------------------------------------------------
    def attr_assignments(self, attr: str) -> List[Tuple[str, ast.AST, str]]:
        out = []
        for name, fn in self.methods.items():
            for n in pf.walk_shallow(fn):
                tgts = []
                if isinstance(n, ast.Assign):
                    tgts = n.targets
                elif isinstance(n, (ast.AnnAssign, ast.AugAssign)):
                    tgts = [n.target]
                for t in tgts:
                    if isinstance(t, ast.Attribute) and t.attr == attr and isinstance(t.value, ast.Name) and t.value.id == 'self':
                        out.append((name, n, self._value_kind(fn, getattr(n, 'value', None))))
        return out

    def _value_kind(self, fn: pf.FuncDef, v: Optional[ast.AST]) -> str:
        if v is None:
            return 'U'
        if isinstance(v, ast.Constant) and v.value is None:
            return 'N'
        x = pf.expand_locals(fn, v)
        if isinstance(x, ast.Call) and pf.dotted(x.func) in FRESH_GENERATORS:
            return 'F'
        return 'U'

    def effectful(self, attr: str) -> Set[str]:
        """Methods that (transitively, through self.method() calls) assign the attribute or perform a token-relevant request."""
        eff = {name for name, n, k in self.attr_assignments(attr)} | {s.method for s in self.sites}
        changed = True
        while changed:
            changed = False
            for name, fn in self.methods.items():
                if name in eff:
                    continue
                for c in ast.walk(fn):
                    if isinstance(c, ast.Call) and isinstance(c.func, ast.Attribute) and isinstance(c.func.value, ast.Name) and c.func.value.id == 'self' and c.func.attr in eff:
                        eff.add(name)
                        changed = True
                        break
        return eff

    def escaping_references(self, eff: Set[str]) -> List[Tuple[str, str, int]]:
        """self.<effectful method> used other than as the callee of a direct call (passed to gather / partial / retry helpers ...)."""
        out = []
        for name, fn in self.methods.items():
            callee_ids = {id(c.func) for c in ast.walk(fn) if isinstance(c, ast.Call)}
            for n in ast.walk(fn):
                if isinstance(n, ast.Attribute) and isinstance(n.value, ast.Name) and n.value.id == 'self' and n.attr in eff and id(n) not in callee_ids \
                        and isinstance(n.ctx, ast.Load) and isinstance(self.methods[n.attr], (ast.FunctionDef, ast.AsyncFunctionDef)) \
                        and not any(pf.dotted(d) in ('property',) for d in self.methods[n.attr].decorator_list):
                    out.append((name, n.attr, n.lineno))
        return out

    def run_typestate(self, attr: str, entry: str, opening_kinds: Dict[str, str]) -> Tuple[List[dict], Set[Tuple[str, str]], List[str]]:
        """Abstract states of self.<attr>: ('N','') cleared | ('F','') fresh, unsent | ('O', where) sent, request still open |
        ('D', where) sent and the logical request completed at `where` | ('U', why) unknown.
        opening_kinds: endpoint kind -> 'O' (opens) | 'D' (opens and completes) | 'C' (completes the open one).
        Returns (violations, states at entry fixed point, declines)."""
        init = self.methods.get('__init__')
        declines: List[str] = []
        s0: Set[Tuple[str, str]] = set()
        for name, n, k in self.attr_assignments(attr):
            if name == '__init__':
                s0 = {(k, '' if k != 'U' else f'constructor assigns `{pf.nsrc(getattr(n, "value", n))}`')}
        if init is None or not s0:
            s0 = {('U', f'self.{attr} is not initialised in __init__')}
        site_by_call = {id(s.call): s for s in self.sites}
        violations: List[dict] = []
        seen_v: Set[Tuple[str, int, str]] = set()
        memo: Dict[Tuple[str, FrozenSet[Tuple[str, str]]], Set[Tuple[str, str]]] = {}
        active: Set[Tuple[str, FrozenSet[Tuple[str, str]]]] = set()

        def apply_calls(method: str, node_ast: ast.AST, st: Set[Tuple[str, str]]) -> Set[Tuple[str, str]]:
            for c in calls_in_eval_order(node_ast):
                s = site_by_call.get(id(c))
                if s is not None and s.kind in opening_kinds:
                    how = opening_kinds[s.kind]
                    if how in ('O', 'D'):
                        for a in sorted(st):
                            if a[0] == 'D':
                                key = (method, c.lineno, a[1])
                                if key not in seen_v:
                                    seen_v.add(key)
                                    violations.append({'method': method, 'line': c.lineno, 'url': s.url, 'kind': s.kind, 'completed_at': a[1]})
                            if a[0] == 'N':
                                declines.append(f'{self.cls_name}.{method}: request `{s.url}` may be sent while self.{attr} is None')
                        st = {(how, f'{method} ({s.url})')}
                    elif how == 'C':
                        st = {(('D', f'{method} ({s.url})') if a[0] == 'O' else a) for a in st}
                    continue
                f = c.func
                if isinstance(f, ast.Attribute) and isinstance(f.value, ast.Name) and f.value.id == 'self' and f.attr in self.methods and f.attr in eff:
                    st = eval_method(f.attr, st)
            return st

        def refine(test: ast.AST, st: Set[Tuple[str, str]], branch: bool) -> Set[Tuple[str, str]]:
            t = test
            neg = False
            while isinstance(t, ast.UnaryOp) and isinstance(t.op, ast.Not):
                neg = not neg
                t = t.operand
            is_attr = lambda x: isinstance(x, ast.Attribute) and x.attr == attr and isinstance(x.value, ast.Name) and x.value.id == 'self'  # noqa: E731
            none_when: Optional[bool] = None  # truth value of the (un-negated) test when the attribute is None
            if isinstance(t, ast.Compare) and len(t.ops) == 1 and is_attr(t.left) and isinstance(t.comparators[0], ast.Constant) and t.comparators[0].value is None:
                if isinstance(t.ops[0], (ast.Is, ast.Eq)):
                    none_when = True
                elif isinstance(t.ops[0], (ast.IsNot, ast.NotEq)):
                    none_when = False
            elif is_attr(t):
                none_when = False
            if none_when is None:
                return st
            if neg:
                none_when = not none_when
            if branch == none_when:
                return {a for a in st if a[0] in ('N', 'U')}
            return {a for a in st if a[0] != 'N'}

        def eval_method(name: str, st_in: Set[Tuple[str, str]]) -> Set[Tuple[str, str]]:
            key = (name, frozenset(st_in))
            if key in memo:
                return memo[key]
            if key in active:
                return set(st_in)  # recursion: assume no change (the fixed point at the entry absorbs it)
            active.add(key)
            fn = self.methods[name]
            g = pf.cfg(fn)
            state: Dict[int, Set[Tuple[str, str]]] = {g.entry.id: set(st_in)}
            work = [g.entry]
            out: Set[Tuple[str, str]] = set()
            while work:
                n = work.pop()
                st = set(state.get(n.id, set()))
                if n.ast is not None and n.kind != 'except':
                    hdr: List[ast.AST]
                    if n.kind in ('loop', 'with'):
                        hdr = pf.node_exprs(n)
                    else:
                        hdr = [n.ast]
                    for h in hdr:
                        st = apply_calls(name, h, st)
                    a = n.ast
                    tgts: List[ast.AST] = []
                    if isinstance(a, ast.Assign):
                        tgts = list(a.targets)
                    elif isinstance(a, (ast.AnnAssign, ast.AugAssign)):
                        tgts = [a.target]
                    for t in tgts:
                        if isinstance(t, ast.Attribute) and t.attr == attr and isinstance(t.value, ast.Name) and t.value.id == 'self':
                            k = self._value_kind(fn, getattr(a, 'value', None))
                            st = {(k, '' if k != 'U' else f'{name} assigns `{pf.nsrc(getattr(a, "value", a))}`')}
                if n is g.exit:
                    out |= st
                    continue
                for m_, lab in n.succ:
                    if lab == 'exc' or m_ is g.raise_exit:
                        continue
                    s2 = st
                    if n.kind == 'test' and lab in ('T', 'F') and n.ast is not None:
                        s2 = refine(n.ast, st, lab == 'T')
                        if not s2:
                            continue
                    old = state.get(m_.id)
                    new = (old or set()) | s2
                    if old is None or new != old:
                        state[m_.id] = new
                        work.append(m_)
            active.discard(key)
            memo[key] = out
            return out

        eff = self.effectful(attr)
        if entry not in self.methods:
            return [], s0, [f'{self.cls_name}.{entry} not found']
        esc = self.escaping_references(eff)
        for where, ref, line in esc:
            declines.append(f'{self.cls_name}.{where}: self.{ref} (which touches self.{attr} or sends a token-bearing request) is passed as a value (line {line}); call order not decided')
        cur = set(s0)
        for _ in range(8):
            memo.clear()
            out = eval_method(entry, cur)
            new = cur | out
            if new == cur:
                break
            cur = new
        for a in cur:
            if a[0] == 'U':
                declines.append(f'self.{attr}: {a[1]}')
        return violations, cur, declines


# ======================================================================================================
# Part 3: absolute id arithmetic  (C09 R5 / R6) - roles instead of names
# ======================================================================================================

def strip_int(e: ast.AST) -> ast.AST:
    import copy

    class _T(ast.NodeTransformer):
        def visit_Call(self, node: ast.Call):
            self.generic_visit(node)
            if isinstance(node.func, ast.Name) and node.func.id == 'int' and len(node.args) == 1 and not node.keywords:
                return node.args[0]
            return node
    return _T().visit(copy.deepcopy(e))


def inline_expr_helpers(m: pf.Module, e: ast.AST, depth: int = 3) -> ast.AST:
    """calls of module-level helpers whose body is one side-effect-free expression over their parameters (`return a + b - 1`) are replaced by that expression."""
    import copy
    from . import c41init as ci
    helpers = {f.name: f for f in m.tree.body if isinstance(f, ast.FunctionDef)}
    cache: Dict[str, Optional[ast.expr]] = {}

    class _T(ast.NodeTransformer):
        def __init__(self, d: int):
            self.d = d

        def visit_Call(self, node: ast.Call):
            self.generic_visit(node)
            if not (isinstance(node.func, ast.Name) and node.func.id in helpers and self.d > 0):
                return node
            h = helpers[node.func.id]
            if h.name not in cache:
                cache[h.name] = ci.helper_expr(h)
            hx = cache[h.name]
            if hx is None or not ci.is_pure(hx) or any(isinstance(x, ast.Starred) for x in node.args) or any(k.arg is None for k in node.keywords):
                return node
            a = h.args
            pos = [x.arg for x in a.args]
            params = pos + [x.arg for x in a.kwonlyargs]
            if len(node.args) > len(pos):
                return node
            bound: Dict[str, ast.expr] = dict(zip(pos, node.args))
            for k in node.keywords:
                if k.arg in bound or k.arg not in params:
                    return node
                bound[k.arg] = k.value  # type: ignore[index]
            defaults = dict(zip(pos[len(pos) - len(a.defaults):], a.defaults))
            defaults.update({x.arg: d_ for x, d_ in zip(a.kwonlyargs, a.kw_defaults) if d_ is not None})
            for p_ in params:
                if p_ not in bound:
                    if p_ not in defaults:
                        return node
                    bound[p_] = defaults[p_]
            if not all(isinstance(v, (ast.Name, ast.Constant, ast.Attribute, ast.Subscript)) for v in bound.values()):
                return node
            out = ci._subst_names(hx, bound)
            return _T(self.d - 1).visit(out)
    return _T(depth).visit(copy.deepcopy(e))


def expand_arith(fn: pf.FuncDef, e: ast.AST, depth: int = 4) -> ast.AST:
    """single-definition locals whose definition is arithmetic, a subscript, an alias or int(..) of those are replaced by it (a `spec.pop(..)` stays the name it is bound to)."""
    import copy
    params = {a.arg for a in fn.args.posonlyargs + fn.args.args + fn.args.kwonlyargs}

    class _S(ast.NodeTransformer):
        def __init__(self, d: int):
            self.d = d

        def visit_Name(self, node: ast.Name):
            if isinstance(node.ctx, ast.Load) and node.id not in params and self.d > 0:
                dd = pf.single_def(fn, node.id)
                if isinstance(dd, ast.expr):
                    core = strip_int(dd)
                    if isinstance(core, (ast.BinOp, ast.Subscript, ast.Name, ast.UnaryOp)):
                        return _S(self.d - 1).visit(copy.deepcopy(core))
            return node

        def visit_Lambda(self, node):
            return node
    return _S(depth).visit(strip_int(e))


def origin(fn: pf.FuncDef, e: ast.AST, comp_iters: Optional[Dict[str, ast.AST]] = None) -> Tuple[str, Any]:
    """What a leaf of an id expression IS, independent of how locals are called:
        ('key', K)       <x>['K'], or a name bound once to <x>.pop('K' ..) / <x>.get('K' ..) / <x>['K']
        ('param', i)     the i-th parameter of fn (0 = first after self)
        ('attr', a)      self.a
        ('elem', o)      an element of the list with origin o (comprehension / loop target)
        ('other', text)"""
    comp_iters = comp_iters or {}
    if isinstance(e, ast.Subscript) and pf.const_str(e.slice) is not None:
        return 'key', pf.const_str(e.slice)
    if isinstance(e, ast.Attribute) and isinstance(e.value, ast.Name) and e.value.id == 'self':
        return 'attr', e.attr
    if isinstance(e, ast.Name):
        if e.id in comp_iters:
            return 'elem', origin(fn, comp_iters[e.id], {k: v for k, v in comp_iters.items() if k != e.id})
        ps = [a.arg for a in fn.args.posonlyargs + fn.args.args]
        if ps and ps[0] in ('self', 'cls'):
            ps = ps[1:]
        if e.id in ps:
            return 'param', ps.index(e.id)
        d = pf.single_def(fn, e.id)
        if isinstance(d, ast.expr):
            core = strip_int(d)
            if isinstance(core, ast.Call) and isinstance(core.func, ast.Attribute) and core.func.attr in ('pop', 'get') and core.args and pf.const_str(core.args[0]) is not None:
                return 'key', pf.const_str(core.args[0])
            if isinstance(core, (ast.Subscript, ast.Name, ast.Attribute)):
                return origin(fn, core, comp_iters)
    return 'other', pf.nsrc(e)


def id_leaves(e: ast.AST) -> Dict[str, ast.AST]:
    """linform symbol key -> the syntax node it stands for (outermost Name / Attribute / Subscript nodes of an arithmetic expression)."""
    from .linform import _key
    out: Dict[str, ast.AST] = {}

    def rec(n: ast.AST) -> None:
        if isinstance(n, (ast.Name, ast.Attribute, ast.Subscript)):
            out[_key(n)] = n
            return
        if isinstance(n, ast.Call):
            out[_key(n)] = n
            return
        for c in ast.iter_child_nodes(n):
            rec(c)
    rec(e)
    return out
