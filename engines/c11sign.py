"""Sign / interval abstract interpretation of ONE Python function around a distinguished budget variable (serves C11 R9).

The function is interpreted abstractly, statement by statement, for an arbitrary nesting of `if` / `while` / `for` / `break` /
`continue` / `return` and local helper functions (inlined at their call sites).  Nothing is imported, run or sampled: every value
is an element of a small abstract domain and loops are iterated to a fixpoint with widening.

Abstract values
    Num     closed interval over Q + {-inf, +inf}  (itv), the interval  z  of the *shadow value* (the same expression with every
            read of the budget variable replaced by 0) and the interval  fc  of the *budget-derived part*  value - shadow.
            Reading the budget variable gives shadow 0 and part = the whole value; + - and * / by budget-independent operands
            are linear in the part; monotone 1-Lipschitz functions (int, round, floor, ceil, min, max) keep the sign of the part;
            in every case  part is within itv - z,  which is what makes a clamp visible:  max(0, min(ready, free))  has value and
            shadow 0, hence part 0.  `sure` marks parts computed from a read at which the budget was *definitely* negative
            (a verdict never rests on an interval that merely lost precision in a loop).  `is_int` sharpens strict comparisons.
    Cont    a container: emptiness in {E, N, EN}, a summary of its elements and of its keys; a container that may be aliased
            ("escaped": passed to an unknown call, stored in another object, bound to a second name) is EN for ever.
    NoneV, Func (local def), BoolT (a comparison bound to a local; branched on when its operands are unchanged), Top (unknown;
            carries a taint bit when it was computed from budget-derived operands).
Tests refine the operands they mention (names, len(name), truthiness), both sides of a comparison.  A state that a test
excludes is dropped, so a statement is *abstractly unreachable* exactly when every path to it passes a test that is false for
every value of the entry case.

Calls: a local `def` is interpreted at its call sites in the caller's scope (closure); a callee named by the caller's `resolve`
hook (module-level function, plain method of the same class) is interpreted in a fresh scope, containers passed by name are written
back, tuple returns are kept position-wise; every other call is opaque: its result is Top, tainted when an argument is.

The caller fixes the entry case (the interval of the budget on entry) and reads
    events   every reachable store  X[...]['field'] = v  (constant string key, not one of the local containers; also a dict display
             {'field': v} / dict(field=v) / .update(field=v) for the fields in `record_fields`) with the abstract value stored, per
             call chain; `neg` = the value on a visit where a negative part stems from a definitely negative budget read;
    origins  the statements at which the budget was read into another quantity, with the budget's interval there;
    opaque   budget-derived values handed to constructs that are not interpreted (the caller must decline).
"""
from __future__ import annotations

import ast
import math
from dataclasses import dataclass, replace
from fractions import Fraction
from typing import Dict, List, Optional, Sequence, Tuple

from . import pyfacts as pf
from .common import AnalysisError

INF = math.inf


# --------------------------------------------------------------------------------------
# intervals
# --------------------------------------------------------------------------------------

def _fin(x) -> bool:
    return x != INF and x != -INF


def _a(x, y, default):
    if (x == INF and y == -INF) or (x == -INF and y == INF):
        return default
    if not _fin(x):
        return x
    if not _fin(y):
        return y
    return x + y


def _m(x, y):
    if x == 0 or y == 0:
        return Fraction(0)
    if _fin(x) and _fin(y):
        return x * y
    return INF if (x > 0) == (y > 0) else -INF


@dataclass(frozen=True)
class Itv:
    lo: object
    hi: object

    def is_bot(self) -> bool:
        return self.lo > self.hi

    def __add__(self, o: 'Itv') -> 'Itv':
        return Itv(_a(self.lo, o.lo, -INF), _a(self.hi, o.hi, INF))

    def __neg__(self) -> 'Itv':
        return Itv(-self.hi, -self.lo)

    def __sub__(self, o: 'Itv') -> 'Itv':
        return self + (-o)

    def __mul__(self, o: 'Itv') -> 'Itv':
        c = [_m(x, y) for x in (self.lo, self.hi) for y in (o.lo, o.hi)]
        return Itv(min(c), max(c))

    def join(self, o: 'Itv') -> 'Itv':
        return Itv(min(self.lo, o.lo), max(self.hi, o.hi))

    def meet(self, o: 'Itv') -> 'Itv':
        return Itv(max(self.lo, o.lo), min(self.hi, o.hi))

    def widen(self, o: 'Itv') -> 'Itv':
        return Itv(self.lo if o.lo >= self.lo else -INF, self.hi if o.hi <= self.hi else INF)

    def is_zero(self) -> bool:
        return self.lo == 0 and self.hi == 0

    def single(self) -> bool:
        return self.lo == self.hi and _fin(self.lo)

    def has(self, x) -> bool:
        return self.lo <= x <= self.hi

    def __repr__(self) -> str:
        def b(x):
            if x == INF:
                return '+inf'
            if x == -INF:
                return '-inf'
            return str(x.numerator) if isinstance(x, Fraction) and x.denominator == 1 else str(float(x))
        return f'[{b(self.lo)}, {b(self.hi)}]'


TOPI = Itv(-INF, INF)
ZERO = Itv(Fraction(0), Fraction(0))
NONNEG = Itv(Fraction(0), INF)


def const_itv(c) -> Itv:
    return Itv(Fraction(c), Fraction(c))


def recip(b: Itv, is_int: bool) -> Optional[Itv]:
    """1 / b over the non-zero part of b (a division by zero raises: that execution stores nothing)."""
    parts = []
    one = Fraction(1)
    if b.hi > 0:
        lo = max(b.lo, one if is_int else Fraction(0))
        if lo <= b.hi:
            parts.append(Itv(Fraction(0) if b.hi == INF else one / b.hi, INF if lo == 0 else one / lo))
    if b.lo < 0:
        hi = min(b.hi, -one if is_int else Fraction(0))
        if b.lo <= hi:
            parts.append(Itv(-INF if hi == 0 else one / hi, Fraction(0) if b.lo == -INF else one / b.lo))
    if not parts:
        return None
    r = parts[0]
    for p in parts[1:]:
        r = r.join(p)
    return r


def _round_bound(x, how: str):
    if not _fin(x):
        return x
    if how == 'floor':
        return Fraction(math.floor(x))
    if how == 'ceil':
        return Fraction(math.ceil(x))
    return Fraction(math.trunc(x))


def round_itv(i: Itv, mode: str) -> Itv:
    if mode == 'round':      # nearest: within the integer hull
        return Itv(_round_bound(i.lo, 'floor'), _round_bound(i.hi, 'ceil'))
    return Itv(_round_bound(i.lo, mode), _round_bound(i.hi, mode))


def monotone_part(fc: Itv) -> Itv:
    """part of f(base + c) for a monotone f with |f(x) - x| < 1: the sign of c is kept (weakly), the size up to 1"""
    if fc.is_zero():
        return ZERO
    lo = Fraction(0) if fc.lo >= 0 else (fc.lo if not _fin(fc.lo) else Fraction(math.floor(fc.lo)) - 1)
    hi = Fraction(0) if fc.hi <= 0 else (fc.hi if not _fin(fc.hi) else Fraction(math.ceil(fc.hi)) + 1)
    return Itv(lo, hi)


def lipschitz_part(parts: Sequence[Itv]) -> Itv:
    """part of min/max over operands: between the most negative and the most positive operand part, 0 included"""
    lo, hi = Fraction(0), Fraction(0)
    for p in parts:
        lo, hi = min(lo, p.lo), max(hi, p.hi)
    return Itv(lo, hi)


# --------------------------------------------------------------------------------------
# abstract values
# --------------------------------------------------------------------------------------

@dataclass(frozen=True)
class Num:
    itv: Itv
    fc: Itv = ZERO
    is_int: bool = True
    may_none: bool = False
    bud: bool = False                  # this variable IS the budget (its whole value is budget-derived; tests refine both)
    origins: frozenset = frozenset()   # ids of the statements at which the budget entered this value
    z: object = None                   # shadow interval (None on construction: the value itself, i.e. budget-independent)
    sure: bool = False                 # the part stems from a read at which the budget was definitely negative

    def __post_init__(self):
        if self.z is None:
            object.__setattr__(self, 'z', self.itv)


def mk(itv: Itv, fc: Itv, z: Itv, is_int: bool, may_none: bool, origins: frozenset, sure: bool) -> Num:
    """a derived value: the part is also within itv - z"""
    m = fc.meet(itv - z)
    if not m.is_bot():
        fc = m
    if fc.is_zero():
        sure = False
    return Num(itv, fc, is_int, may_none, False, origins, z, sure)


@dataclass(frozen=True)
class Top:
    tainted: bool = False
    origins: frozenset = frozenset()


@dataclass(frozen=True)
class NoneV:
    pass


@dataclass(frozen=True)
class Cont:
    emp: frozenset                    # subset of {'E', 'N'}
    elem: object = None               # summary of the elements / values (None: nothing stored yet)
    keys: object = None               # summary of the keys of a mapping
    sticky: bool = False              # escaped: emptiness is not tracked
    ddict: bool = False
    mapping: bool = False             # iterating it yields its keys
    items: object = None              # a tuple display: the abstract value of every position


def iter_elem(c: 'Cont'):
    """what a loop over the container binds"""
    el = c.keys if c.mapping else c.elem
    return el if el is not None else Top()


@dataclass(frozen=True)
class Func:
    node: object

    def __eq__(self, o):
        return isinstance(o, Func) and o.node is self.node

    def __hash__(self):
        return id(self.node)


@dataclass(frozen=True)
class BoolT:
    test: object
    vers: tuple

    def __eq__(self, o):
        return isinstance(o, BoolT) and o.test is self.test and o.vers == self.vers

    def __hash__(self):
        return id(self.test)


NONE = NoneV()
E, N, EN = frozenset('E'), frozenset('N'), frozenset('EN')


def num(itv: Itv, **kw) -> Num:
    return Num(itv, **kw)


def tainted(v) -> bool:
    if isinstance(v, Num):
        return v.bud and not v.itv.is_zero() or not v.fc.is_zero()
    if isinstance(v, Top):
        return v.tainted
    if isinstance(v, Cont):
        return tainted(v.elem) or tainted(v.keys)
    return False


def origins_of(v) -> frozenset:
    if isinstance(v, (Num, Top)):
        return v.origins
    if isinstance(v, Cont):
        return origins_of(v.elem) | origins_of(v.keys)
    return frozenset()


def join_av(a, b, widen: bool = False):
    if a is None:
        return b
    if b is None:
        return a
    if a == b:
        return a
    if isinstance(a, NoneV) and isinstance(b, Num):
        return replace(b, may_none=True)
    if isinstance(b, NoneV) and isinstance(a, Num):
        return replace(a, may_none=True)
    if isinstance(a, Num) and isinstance(b, Num):
        j = (lambda x, y: x.widen(x.join(y))) if widen else (lambda x, y: x.join(y))
        return Num(j(a.itv, b.itv), j(a.fc, b.fc), a.is_int and b.is_int, a.may_none or b.may_none, a.bud or b.bud, a.origins | b.origins, j(a.z, b.z),
                   a.sure or b.sure)
    if isinstance(a, Cont) and isinstance(b, Cont):
        items = None
        if a.items is not None and b.items is not None and len(a.items) == len(b.items):
            items = tuple(join_av(x, y, widen) for x, y in zip(a.items, b.items))
        return Cont(a.emp | b.emp, join_av(a.elem, b.elem, widen), join_av(a.keys, b.keys, widen), a.sticky or b.sticky, a.ddict or b.ddict, a.mapping or b.mapping, items)
    return Top(tainted(a) or tainted(b), origins_of(a) | origins_of(b))


class State:
    def __init__(self):
        self.vars: Dict[str, object] = {}
        self.ver: Dict[str, object] = {}
        self.fields: Dict[str, object] = {}

    def copy(self) -> 'State':
        s = State()
        s.vars, s.ver, s.fields = dict(self.vars), dict(self.ver), dict(self.fields)
        return s

    def set(self, name: str, v, site) -> None:
        self.vars[name] = v
        self.ver[name] = id(site)

    def same(self, o: 'State') -> bool:
        return self.vars == o.vars and self.fields == o.fields and self.ver == o.ver

    def take(self, o: 'State') -> None:
        self.vars, self.ver, self.fields = o.vars, o.ver, o.fields


def join_state(a: Optional[State], b: Optional[State], widen: bool = False) -> Optional[State]:
    if a is None:
        return b.copy() if b is not None else None
    if b is None:
        return a.copy()
    s = State()
    for k in set(a.vars) | set(b.vars):
        s.vars[k] = join_av(a.vars.get(k), b.vars.get(k), widen)
    for k in set(a.ver) | set(b.ver):
        x, y = a.ver.get(k), b.ver.get(k)
        if x == y:
            s.ver[k] = x
        else:
            fx = x if isinstance(x, frozenset) else frozenset([x])
            fy = y if isinstance(y, frozenset) else frozenset([y])
            s.ver[k] = fx | fy
    for k in set(a.fields) | set(b.fields):
        s.fields[k] = join_av(a.fields.get(k), b.fields.get(k), widen)
    return s


class Flow:
    def __init__(self, fall: Optional[State] = None):
        self.fall, self.brk, self.cont, self.ret = fall, None, None, None
        self.retval = None

    def absorb(self, o: 'Flow') -> None:
        """control leaving a nested statement (everything but its fall-through)"""
        self.brk = join_state(self.brk, o.brk) if o.brk is not None else self.brk
        self.cont = join_state(self.cont, o.cont) if o.cont is not None else self.cont
        self.ret = join_state(self.ret, o.ret) if o.ret is not None else self.ret
        self.retval = join_av(self.retval, o.retval)


ROUNDERS = {'int': 'trunc', 'round': 'round', 'math.floor': 'floor', 'math.ceil': 'ceil', 'floor': 'floor', 'ceil': 'ceil', 'math.trunc': 'trunc'}
EMPTY_CTORS = {'dict', 'defaultdict', 'OrderedDict', 'Counter', 'SortedSet', 'SortedList', 'SortedDict', 'SortedKeyList', 'deque', 'set', 'list', 'frozenset', 'tuple'}
COPIERS = {'sorted', 'list', 'tuple', 'set', 'frozenset', 'iter', 'reversed', 'dict', 'SortedSet', 'SortedList', 'deque', 'OrderedDict'}
ADDERS = {'add', 'append', 'appendleft', 'insert', 'setdefault', 'push'}
MERGERS = {'update', 'extend', 'union_update'}
REMOVERS = {'remove', 'discard', 'pop', 'popitem', 'popleft', 'clear', 'difference_update', 'intersection_update'}
MAPPINGS = {'dict', 'defaultdict', 'OrderedDict', 'Counter', 'SortedDict'}
VIEWS = {'keys', 'values', 'items', 'copy', 'irange', 'islice', 'union', 'intersection', 'difference'}
SAFE_BUILTINS = {'len', 'sorted', 'list', 'set', 'tuple', 'dict', 'sum', 'min', 'max', 'any', 'all', 'bool', 'iter', 'enumerate', 'reversed', 'zip', 'frozenset',
                 'print', 'isinstance', 'str', 'repr', 'int', 'float', 'round', 'abs', 'id', 'type'}
NOOP_PREFIXES = ('log.', 'logging.', 'print', 'warnings.')
CMP = {ast.Lt: '<', ast.LtE: '<=', ast.Gt: '>', ast.GtE: '>=', ast.Eq: '==', ast.NotEq: '!='}
NEG = {'<': '>=', '<=': '>', '>': '<=', '>=': '<', '==': '!=', '!=': '=='}
FLIP = {'<': '>', '<=': '>=', '>': '<', '>=': '<=', '==': '==', '!=': '!='}


class Analyzer:
    def __init__(self, fn: ast.AST, where: str, free_param: Optional[str], free_call: Optional[str], entry: Itv, nonneg_fields: Sequence[str], resolve=None):
        self.fn, self.where = fn, where
        self.record_fields = set()             # fields of the returned records (set by the caller): a dict display / dict(field=...) with such a key is a store
        self.resolve = resolve                 # call node -> (FunctionDef, has_self) | None: module-level functions / same-class methods, interpreted at the call
        self.n_calls = 0
        self.free_param, self.free_call, self.entry = free_param, free_call, entry
        self.nonneg = set(nonneg_fields)
        self.events: Dict[tuple, dict] = {}
        self.origins: Dict[int, dict] = {}
        self.opaque: List[str] = []
        self.budget_bound = False
        self.stack: List[ast.AST] = []         # call sites of local helpers being interpreted
        self.cur: Optional[ast.stmt] = None
        self.n_loops = 0
        self.escaped = self._escaped_names(fn)
        self._esc_cache: Dict[int, set] = {}
        self._not_cache: Dict[int, ast.AST] = {}

    # ---- which names may be aliased -----------------------------------------------------
    @staticmethod
    def _escaped_names(fn: ast.AST) -> set:
        esc = set()
        parent: Dict[int, ast.AST] = {}
        for p in ast.walk(fn):
            for c in ast.iter_child_nodes(p):
                parent[id(c)] = p
        for n in ast.walk(fn):
            if not (isinstance(n, ast.Name) and isinstance(n.ctx, ast.Load)):
                continue
            p = parent.get(id(n))
            ok = False
            if isinstance(p, (ast.Attribute, ast.Subscript, ast.Compare, ast.BoolOp, ast.UnaryOp, ast.BinOp, ast.Return, ast.If, ast.While, ast.IfExp, ast.Assert,
                              ast.FormattedValue, ast.comprehension, ast.For, ast.AsyncFor, ast.Expr, ast.AugAssign, ast.Await)):
                ok = True
            elif isinstance(p, ast.Call):
                nm = pf.dotted(p.func) or ''
                ok = p.func is n or (nm.split('.')[-1] in SAFE_BUILTINS | COPIERS and n in p.args) or nm.startswith(NOOP_PREFIXES)
            if not ok:
                esc.add(n.id)
        return esc

    # ---- entry ----------------------------------------------------------------------------
    def budget(self) -> Num:
        self.budget_bound = True
        return Num(self.entry, self.entry, True, False, True, frozenset(), ZERO, self.entry.hi < 0)

    def run(self) -> None:
        s = State()
        for a in list(self.fn.args.posonlyargs) + list(self.fn.args.args) + list(self.fn.args.kwonlyargs):
            s.vars[a.arg] = self.budget() if a.arg == self.free_param else Top()
        body = list(self.fn.body)
        self.block(body, s)
        if not self.budget_bound:
            raise AnalysisError(f'{self.where}: the free amount ({self.free_param or self.free_call}) is never bound')

    # ---- expressions ------------------------------------------------------------------------
    def reads_budget(self, e: ast.AST, s: State) -> bool:
        for n in ast.walk(e):
            if isinstance(n, ast.Name) and isinstance(s.vars.get(n.id), Num) and s.vars[n.id].bud:
                return True
            if self.free_call and isinstance(n, ast.Call) and isinstance(n.func, ast.Attribute) and n.func.attr == self.free_call:
                return True
        return False

    def is_budget_expr(self, e: ast.AST, s: State) -> bool:
        if isinstance(e, ast.Await):
            e = e.value
        if isinstance(e, ast.Name):
            v = s.vars.get(e.id)
            return isinstance(v, Num) and v.bud
        return bool(self.free_call) and isinstance(e, ast.Call) and isinstance(e.func, ast.Attribute) and e.func.attr == self.free_call

    def ev(self, e: ast.AST, s: State):
        if isinstance(e, ast.Constant):
            if e.value is None:
                return NONE
            if isinstance(e.value, bool):
                return Num(const_itv(int(e.value)))
            if isinstance(e.value, int):
                return Num(const_itv(e.value))
            if isinstance(e.value, float) and math.isfinite(e.value):
                return Num(const_itv(Fraction(e.value)), is_int=float(e.value).is_integer())
            return Top()
        if isinstance(e, ast.Name):
            v = s.vars.get(e.id)
            if v is None:
                return Top()
            if isinstance(v, Num) and v.bud:
                return replace(v, fc=v.itv, z=ZERO, sure=v.itv.hi < 0)
            return v
        if isinstance(e, ast.Await):
            return self.ev(e.value, s)
        if isinstance(e, ast.NamedExpr):
            v = self.ev(e.value, s)
            self.assign(e.target, v, s, e.value)
            return v
        if isinstance(e, ast.UnaryOp):
            v = self.ev(e.operand, s)
            if isinstance(e.op, ast.Not):
                return BoolT(e, self.snapshot(e, s))
            if isinstance(v, Num) and isinstance(e.op, (ast.USub, ast.UAdd)):
                return v if isinstance(e.op, ast.UAdd) else replace(v, itv=-v.itv, fc=-v.fc, z=-v.z, bud=False)
            return Top(tainted(v), origins_of(v))
        if isinstance(e, ast.BinOp):
            return self.binop(e.op, self.ev(e.left, s), self.ev(e.right, s))
        if isinstance(e, ast.BoolOp):
            r = None
            vals = [self.ev(x, s) for x in e.values]
            if all(isinstance(x, (BoolT, Cont)) for x in vals):
                return BoolT(e, self.snapshot(e, s))      # a condition kept in a local: branched on later (while its operands are unchanged)
            for x in vals:
                r = join_av(r, x)
            return r
        if isinstance(e, ast.Compare):
            for x in [e.left] + list(e.comparators):
                self.ev(x, s)
            return BoolT(e, self.snapshot(e, s))
        if isinstance(e, ast.IfExp):
            t, f = self.branch(e.test, s)
            r = None
            if t is not None:
                r = join_av(r, self.ev(e.body, t))
            if f is not None:
                r = join_av(r, self.ev(e.orelse, f))
            return r if r is not None else Top()
        if isinstance(e, ast.Subscript):
            return self.subscript(e, s)
        if isinstance(e, ast.Attribute):
            v = self.ev(e.value, s)
            return Top(isinstance(v, Top) and v.tainted, origins_of(v))
        if isinstance(e, ast.Call):
            return self.call(e, s)
        if isinstance(e, (ast.List, ast.Tuple, ast.Set)):
            el = None
            vals = [self.ev(x, s) for x in e.elts]
            for x in vals:
                el = join_av(el, x)
            keep = isinstance(e, ast.Tuple) and not any(isinstance(x, ast.Starred) for x in e.elts)
            return Cont(N if e.elts else E, el, items=tuple(vals) if keep else None)
        if isinstance(e, ast.Dict):
            el = ks = None
            for k, v in zip(e.keys, e.values):
                xv = self.ev(v, s)
                el = join_av(el, xv)
                if k is not None:
                    ks = join_av(ks, self.ev(k, s))
                    if isinstance(k, ast.Constant) and k.value in self.record_fields and self.cur is not None:
                        self.store(self.cur, k.value, xv, v, s, v)       # {..., 'field': v}: a record is built with the field
            return Cont(N if e.keys else E, el, ks, mapping=True)
        if isinstance(e, (ast.ListComp, ast.SetComp, ast.GeneratorExp, ast.DictComp)):
            return self.comp(e, s)
        if isinstance(e, ast.JoinedStr):
            return Top()
        if isinstance(e, ast.Lambda):
            return Top()
        t = any(tainted(s.vars.get(n.id)) for n in ast.walk(e) if isinstance(n, ast.Name))
        if t:
            self.opaque.append(f'`{pf.nsrc(e)[:60]}` at line {getattr(e, "lineno", 0)}')
        return Top(t)

    def snapshot(self, e: ast.AST, s: State) -> tuple:
        return tuple(sorted((n.id, repr(s.ver.get(n.id))) for n in ast.walk(e) if isinstance(n, ast.Name)))

    def binop(self, op: ast.operator, a, b):
        if isinstance(a, Num) and isinstance(b, Top) and not b.tainted:
            b = Num(TOPI, is_int=False)
        elif isinstance(b, Num) and isinstance(a, Top) and not a.tainted:
            a = Num(TOPI, is_int=False)
        if isinstance(a, Num) and isinstance(b, Num):
            org = a.origins | b.origins
            mn = a.may_none or b.may_none
            ta, tb = not a.fc.is_zero(), not b.fc.is_zero()
            sure = (a.sure and ta) or (b.sure and tb)
            ints = a.is_int and b.is_int
            if isinstance(op, ast.Add):
                return mk(a.itv + b.itv, a.fc + b.fc, a.z + b.z, ints, mn, org, sure)
            if isinstance(op, ast.Sub):
                return mk(a.itv - b.itv, a.fc - b.fc, a.z - b.z, ints, mn, org, sure)
            if isinstance(op, ast.Mult):
                it = a.itv * b.itv
                fc = ZERO if not (ta or tb) else (a.fc * b.itv if not tb else (a.itv * b.fc if not ta else TOPI))
                return mk(it, fc, a.z * b.z, ints, mn, org, sure)
            if isinstance(op, (ast.Div, ast.FloorDiv)):
                r = recip(b.itv, b.is_int)
                rz = recip(b.z, b.is_int)
                if r is None:
                    return mk(TOPI, TOPI if (ta or tb) else ZERO, TOPI, False, mn, org, sure)   # always raises; keep going soundly
                it = a.itv * r
                z = a.z * rz if rz is not None else TOPI
                fc = ZERO if not (ta or tb) else (a.fc * r if not tb else TOPI)
                if isinstance(op, ast.FloorDiv):
                    return mk(round_itv(it, 'floor'), monotone_part(fc), round_itv(z, 'floor'), ints, mn, org, sure)
                return mk(it, fc, z, False, mn, org, sure)
            return mk(TOPI, TOPI if (ta or tb) else ZERO, TOPI, ints, mn, org, sure)
        if isinstance(a, Cont) and isinstance(b, Cont) and isinstance(op, (ast.BitOr, ast.Add)):
            emp = E if (a.emp == E and b.emp == E) else (N if (a.emp == N or b.emp == N) else EN)
            return Cont(emp, join_av(a.elem, b.elem), join_av(a.keys, b.keys), mapping=a.mapping and b.mapping)
        if isinstance(a, Cont) and isinstance(b, Cont):
            return Cont(E if a.emp == E else EN, a.elem, a.keys)
        return Top(tainted(a) or tainted(b), origins_of(a) | origins_of(b))

    def subscript(self, e: ast.Subscript, s: State):
        base = self.ev(e.value, s)
        key = e.slice
        kv = self.ev(key, s) if not isinstance(key, ast.Slice) else Top()
        if isinstance(base, Cont):
            if isinstance(e.value, ast.Name) and isinstance(s.vars.get(e.value.id), Cont):
                c = s.vars[e.value.id]
                # a successful read means the container is not empty (a defaultdict inserts the key)
                nc = replace(c, emp=c.emp if c.sticky else N, keys=join_av(c.keys, kv) if c.ddict else c.keys)
                if nc != c:
                    s.vars[e.value.id] = nc
            if isinstance(key, ast.Slice):
                return Cont(EN if base.emp != E else E, base.elem, base.keys)
            if base.items is not None and isinstance(key, ast.Constant) and isinstance(key.value, int) and -len(base.items) <= key.value < len(base.items):
                return base.items[key.value]
            return base.elem if base.elem is not None else Top()
        if isinstance(key, ast.Constant) and isinstance(key.value, str):
            if key.value in s.fields:
                return s.fields[key.value]
            if key.value in self.nonneg:
                return Num(NONNEG)
            return Top(tainted(base), origins_of(base))
        return Top(tainted(base) or tainted(kv), origins_of(base) | origins_of(kv))

    def comp(self, e: ast.AST, s: State):
        t = s.copy()
        emp = None
        for g in e.generators:
            it = self.ev(g.iter, t)
            ie = it.emp if isinstance(it, Cont) else EN
            el = iter_elem(it) if isinstance(it, Cont) else Top(tainted(it), origins_of(it))
            self.bind_target(g.target, el, t, g.iter)
            filt = False
            for c in g.ifs:
                tt, _ = self.branch(c, t)
                filt = True
                if tt is None:
                    ie = E
                    break
                t = tt
            ge = E if ie == E else (N if (ie == N and not filt) else EN)
            emp = ge if emp is None else (E if (emp == E or ge == E) else (N if (emp == N and ge == N) else EN))
        if isinstance(e, ast.DictComp):
            return Cont(emp, self.ev(e.value, t), self.ev(e.key, t), mapping=True)
        return Cont(emp, self.ev(e.elt, t))

    @staticmethod
    def _sum_of(el, emp) -> object:
        if isinstance(el, Num):
            def hull(i: Itv) -> Itv:
                return Itv(Fraction(0) if i.lo >= 0 else -INF, Fraction(0) if i.hi <= 0 else INF)
            return mk(hull(el.itv), hull(el.fc), hull(el.z), el.is_int, False, el.origins, el.sure)
        if el is None:
            return Num(ZERO)
        return Top(tainted(el), origins_of(el))

    def call(self, e: ast.Call, s: State):
        name = pf.dotted(e.func) or ''
        last = name.split('.')[-1]
        if (e.func.attr if isinstance(e.func, ast.Attribute) else last) in ('dict', 'update') and self.cur is not None:
            for k in e.keywords:
                if k.arg in self.record_fields:
                    self.store(self.cur, k.arg, self.ev(k.value, s), k.value, s, k.value)   # dict(record, field=v) / record.update(field=v)
        # local helper
        if isinstance(e.func, ast.Name) and isinstance(s.vars.get(e.func.id), Func):
            return self.call_helper(s.vars[e.func.id].node, e, s)
        if self.free_call and isinstance(e.func, ast.Attribute) and e.func.attr == self.free_call:
            for a in e.args:
                self.ev(a, s)
            return self.budget()
        if self.resolve is not None and not (isinstance(e.func, ast.Name) and e.func.id in s.vars):
            tgt = self.resolve(e)
            if tgt is not None:
                return self.call_external(tgt[0], tgt[1], e, s)
        plain = isinstance(e.func, ast.Name) or name.startswith(('math.', 'collections.', 'sortedcontainers.', 'builtins.'))
        if plain and last == 'len' and len(e.args) == 1:
            v = self.ev(e.args[0], s)
            if isinstance(v, Cont):
                return Num(ZERO if v.emp == E else (Itv(Fraction(1), INF) if v.emp == N else NONNEG))
            return Num(NONNEG)
        if plain and (name in ROUNDERS or last in ('floor', 'ceil', 'trunc')) and len(e.args) == 1 and not e.keywords:
            v = self.ev(e.args[0], s)
            mode = ROUNDERS.get(name) or ROUNDERS[last]
            if isinstance(v, Num):
                return mk(round_itv(v.itv, mode), monotone_part(v.fc), round_itv(v.z, mode), True, v.may_none, v.origins, v.sure)
            return Top(tainted(v), origins_of(v))
        if plain and last == 'float' and len(e.args) == 1:
            v = self.ev(e.args[0], s)
            return replace(v, is_int=False, bud=False) if isinstance(v, Num) else Top(tainted(v), origins_of(v))
        if plain and last == 'abs' and len(e.args) == 1:
            v = self.ev(e.args[0], s)
            if isinstance(v, Num):
                def ab(i: Itv) -> Itv:
                    return Itv(Fraction(0) if i.has(0) else min(abs(i.lo), abs(i.hi)), max(abs(i.lo), abs(i.hi)))
                m = max(abs(v.fc.lo), abs(v.fc.hi))
                return mk(ab(v.itv), Itv(-m, m), ab(v.z), v.is_int, v.may_none, v.origins, v.sure)
            return Top(tainted(v), origins_of(v))
        if plain and last in ('min', 'max') and not [k for k in e.keywords if k.arg != 'default']:
            return self.minmax(last, e, s)
        if plain and last == 'sum' and e.args:
            v = self.ev(e.args[0], s)
            if isinstance(v, Cont):
                return self._sum_of(v.keys if v.mapping else v.elem, v.emp)
            return Top(tainted(v), origins_of(v))
        if plain and last in ('bool', 'any', 'all', 'isinstance'):
            for a in e.args:
                self.ev(a, s)
            return Num(Itv(Fraction(0), Fraction(1)))
        if plain and last == 'defaultdict' and len(e.args) <= 1:
            return Cont(E, ddict=True, mapping=True)
        if plain and last in EMPTY_CTORS and not e.args:
            return Cont(E, mapping=last in MAPPINGS)
        if plain and last in COPIERS and len(e.args) == 1:
            v = self.ev(e.args[0], s)
            for k in e.keywords:
                if not isinstance(k.value, ast.Lambda):
                    self.ev(k.value, s)
            if isinstance(v, Cont):
                if last in MAPPINGS:
                    return Cont(v.emp, v.elem, v.keys, mapping=True) if v.mapping else Cont(v.emp, Top(tainted(v)), Top(tainted(v)), mapping=True)
                return Cont(v.emp, iter_elem(v))
            return Cont(EN, Top(tainted(v), origins_of(v)), mapping=last in MAPPINGS)
        if plain and last in ('enumerate', 'zip', 'range'):
            vs = [self.ev(a, s) for a in e.args]
            emp = EN
            if last != 'range' and vs and all(isinstance(v, Cont) for v in vs):
                emp = E if any(v.emp == E for v in vs) else (N if all(v.emp == N for v in vs) else EN)
            if last == 'range':
                return Cont(emp, Num(TOPI))
            its = tuple(iter_elem(v) if isinstance(v, Cont) else Top(tainted(v), origins_of(v)) for v in vs)
            if last == 'enumerate':
                its = (Num(NONNEG),) + its[:1]
            el = None
            for x in its:
                el = join_av(el, x)
            return Cont(emp, Cont(N, el, items=its))
        # methods
        if isinstance(e.func, ast.Attribute):
            recv = e.func.value
            m = e.func.attr
            rv = self.ev(recv, s)
            args = [self.ev(a, s) for a in e.args] + [self.ev(k.value, s) for k in e.keywords if not isinstance(k.value, ast.Lambda)]
            if isinstance(rv, Cont):
                return self.method(recv, rv, m, args, s, e)
            if isinstance(rv, Func):
                return Top()
            t = tainted(rv) or any(tainted(a) for a in args)
            if any(tainted(a) for a in args) and not name.startswith(NOOP_PREFIXES):
                self.opaque.append(f'`{pf.nsrc(e)[:70]}` at line {e.lineno}: a value derived from the free amount is passed to a call that is not interpreted')
            og = frozenset()
            for a in args:
                og |= origins_of(a)
            return Top(t, og)
        args = [self.ev(a, s) for a in e.args] + [self.ev(k.value, s) for k in e.keywords if not isinstance(k.value, ast.Lambda)]
        t = any(tainted(a) for a in args)
        if t and not name.startswith(NOOP_PREFIXES) and last not in ('str', 'repr', 'print', 'format'):
            self.opaque.append(f'`{pf.nsrc(e)[:70]}` at line {e.lineno}: a value derived from the free amount is passed to a call that is not interpreted')
        return Top(t)

    def minmax(self, which: str, e: ast.Call, s: State):
        cands: List[object] = []
        if len(e.args) == 1:
            a = e.args[0]
            if isinstance(a, (ast.List, ast.Tuple)):
                cands = [self.ev(x, s) for x in a.elts]
            elif isinstance(a, (ast.GeneratorExp, ast.ListComp)) and len(a.generators) == 1 and isinstance(a.generators[0].iter, (ast.List, ast.Tuple)) \
                    and isinstance(a.generators[0].target, ast.Name) and isinstance(a.elt, ast.Name) and a.elt.id == a.generators[0].target.id:
                cands = [self.ev(x, s) for x in a.generators[0].iter.elts]      # min(c for c in [x, y] if c is not None)
            else:
                v = self.ev(a, s)
                if isinstance(v, Cont) and isinstance(iter_elem(v), Num):
                    el = iter_elem(v)
                    return mk(el.itv, lipschitz_part([el.fc]) if not el.fc.is_zero() else ZERO, el.z, el.is_int, False, el.origins, el.sure)
                return Top(tainted(v), origins_of(v))
        else:
            cands = [self.ev(x, s) for x in e.args]
        for k in e.keywords:
            cands.append(self.ev(k.value, s))
        nums = [c for c in cands if isinstance(c, Num)]
        others = [c for c in cands if not isinstance(c, (Num, NoneV))]
        if others or not nums:
            return Top(any(tainted(c) for c in cands))
        pick = min if which == 'min' else max
        it = Itv(pick(c.itv.lo for c in nums), pick(c.itv.hi for c in nums))
        z = Itv(pick(c.z.lo for c in nums), pick(c.z.hi for c in nums))
        # a candidate that can never be selected contributes nothing
        live = [c for c in nums if (c.itv.lo <= it.hi if which == 'min' else c.itv.hi >= it.lo)]
        parts = [c.fc for c in live if not c.fc.is_zero()]
        fc = lipschitz_part(parts) if parts else ZERO
        og = frozenset()
        for c in live:
            og |= c.origins
        return mk(it, fc, z, all(c.is_int for c in nums), False, og, any(c.sure for c in live if not c.fc.is_zero()))

    def method(self, recv: ast.AST, c: Cont, m: str, args: list, s: State, e: ast.Call):
        def put(nc: Cont) -> None:
            if isinstance(recv, ast.Name) and isinstance(s.vars.get(recv.id), Cont):
                if s.vars[recv.id].sticky:
                    nc = replace(nc, emp=EN, sticky=True)
                s.set(recv.id, nc, e)
        if m in ADDERS:
            el, ks = c.elem, c.keys
            if m == 'setdefault' and args:
                ks = join_av(ks, args[0])
                el = join_av(el, args[1] if len(args) > 1 else NONE)
            elif m == 'insert' and len(args) > 1:
                el = join_av(el, args[1])
            elif args:
                el = join_av(el, args[0])
            put(replace(c, emp=N, elem=el, keys=ks))
            return c.elem if m == 'setdefault' and c.elem is not None else Top()
        if m in MERGERS:
            emp = c.emp
            el, ks = c.elem, c.keys
            for a in args:
                if isinstance(a, Cont):
                    emp = N if (a.emp == N or emp == N) else (emp if a.emp == E else EN)
                    el, ks = join_av(el, a.elem), join_av(ks, a.keys)
                else:
                    emp = N if emp == N else EN
                    el = join_av(el, Top(tainted(a), origins_of(a)))
            put(replace(c, emp=emp, elem=el, keys=ks))
            return NONE
        if m in REMOVERS:
            put(replace(c, emp=E if (c.emp == E or m == 'clear') else EN))
            if m in ('pop', 'popleft', 'popitem'):
                r = c.elem if c.elem is not None else Top()
                if m == 'pop' and len(args) > 1:
                    r = join_av(r, args[1])
                return r
            return NONE
        if m in VIEWS:
            if m == 'keys':
                return Cont(c.emp, c.keys)
            if m == 'items':
                k, v = (c.keys if c.keys is not None else Top()), (c.elem if c.elem is not None else Top())
                return Cont(c.emp, Cont(N, join_av(k, v), items=(k, v)))
            if m in ('union',):
                r = c
                for a in args:
                    r = self.binop(ast.BitOr(), r, a) if isinstance(a, Cont) else Cont(EN if r.emp != N else N, r.elem, r.keys)
                return r
            return Cont(c.emp if m in ('values', 'copy') else (E if c.emp == E else EN), c.elem, c.keys, mapping=c.mapping and m == 'copy')
        if m == 'get':
            return join_av(c.elem if c.elem is not None else Top(), args[1] if len(args) > 1 else NONE)
        if m in ('index', 'count', 'bisect_left', 'bisect_right', 'bisect'):
            return Num(NONNEG)
        put(replace(c, emp=EN))
        return Top(tainted(c) or any(tainted(a) for a in args))

    def call_helper(self, h: ast.AST, e: ast.Call, s: State):
        if len(self.stack) > 4 or any(x is e for x in self.stack):
            raise AnalysisError(f'{self.where}: recursive local helper `{h.name}` (not analysed)')
        if h.args.vararg or h.args.kwarg or h.args.kwonlyargs or any(isinstance(a, ast.Starred) for a in e.args) or any(k.arg is None for k in e.keywords):
            raise AnalysisError(f'{self.where}: call `{pf.nsrc(e)[:60]}` of local helper `{h.name}` uses */** arguments (not analysed)')
        params = [a.arg for a in h.args.args]
        bound: Dict[str, object] = {}
        vals = [self.tag(self.ev(a, s), a, s) for a in e.args]
        for p, v in zip(params, vals):
            bound[p] = v
        for k in e.keywords:
            bound[k.arg] = self.tag(self.ev(k.value, s), k.value, s)
        defaults = h.args.defaults
        for p, d in zip(params[len(params) - len(defaults):], defaults):
            if p not in bound:
                bound[p] = self.ev(d, s)
        if len(vals) > len(params) or any(p not in bound for p in params) or any(k not in params for k in bound):
            raise AnalysisError(f'{self.where}: call `{pf.nsrc(e)[:60]}` does not bind the parameters of local helper `{h.name}`')
        locs = set(params) | {n.id for st in h.body for n in ast.walk(st) if isinstance(n, ast.Name) and isinstance(n.ctx, ast.Store)}
        for st in h.body:
            for n in ast.walk(st):
                if isinstance(n, (ast.Nonlocal, ast.Global, ast.Yield, ast.YieldFrom)):
                    raise AnalysisError(f'{self.where}: local helper `{h.name}` uses nonlocal / global / yield (not analysed)')
        saved = {n: (s.vars.get(n), s.ver.get(n)) for n in locs}
        for p, v in bound.items():
            if isinstance(v, Num) and v.bud:
                v = replace(v, bud=False)
            s.set(p, v, e)
        self.stack.append(e)
        cur = self.cur
        try:
            fl = self.block(list(h.body), s.copy())
        finally:
            self.stack.pop()
            self.cur = cur
        out = join_state(fl.fall, fl.ret)
        if out is not None:
            s.take(out)
        for n, (v, ver) in saved.items():
            if v is None:
                s.vars.pop(n, None)
                s.ver.pop(n, None)
            else:
                s.vars[n], s.ver[n] = v, ver
        rv = fl.retval
        if fl.fall is not None:
            rv = join_av(rv, NONE)
        return rv if rv is not None else NONE

    def call_external(self, h: ast.AST, has_self: bool, e: ast.Call, s: State):
        """a module-level function or a method of the same class: interpreted in a fresh scope; containers passed by name are written back"""
        if len(self.stack) > 4 or any(getattr(x, '_callee', None) is h for x in self.stack):
            raise AnalysisError(f'{self.where}: recursive call of `{h.name}` (not analysed)')
        if h.args.vararg or h.args.kwarg or h.args.posonlyargs or any(isinstance(a, ast.Starred) for a in e.args) or any(k.arg is None for k in e.keywords):
            raise AnalysisError(f'{self.where}: call `{pf.nsrc(e)[:60]}` of `{h.name}` uses */** arguments (not analysed)')
        for n in ast.walk(h):
            if isinstance(n, (ast.Yield, ast.YieldFrom, ast.Global)):
                raise AnalysisError(f'{self.where}: `{h.name}` uses yield / global (not analysed)')
        params = [a.arg for a in h.args.args] + [a.arg for a in h.args.kwonlyargs]
        selfname = None
        if has_self:
            selfname, params = params[0], params[1:]
        npos = len(h.args.args) - (1 if has_self else 0)
        bound: Dict[str, object] = {}
        src: Dict[str, ast.AST] = {}
        if len(e.args) > npos:
            raise AnalysisError(f'{self.where}: call `{pf.nsrc(e)[:60]}` does not bind the parameters of `{h.name}`')
        for p, a in zip(params, e.args):
            bound[p], src[p] = self.tag(self.ev(a, s), a, s), a
        for k in e.keywords:
            bound[k.arg], src[k.arg] = self.tag(self.ev(k.value, s), k.value, s), k.value
        pos = [a.arg for a in h.args.args]
        for p, d in zip(pos[len(pos) - len(h.args.defaults):], h.args.defaults):
            if p not in bound:
                bound[p] = self.ev(d, s)
        for a, d in zip(h.args.kwonlyargs, h.args.kw_defaults):
            if a.arg not in bound and d is not None:
                bound[a.arg] = self.ev(d, s)
        if any(p not in bound for p in params) or any(k not in params for k in bound):
            raise AnalysisError(f'{self.where}: call `{pf.nsrc(e)[:60]}` does not bind the parameters of `{h.name}`')
        cs = State()
        cs.fields = dict(s.fields)
        if selfname:
            cs.vars[selfname] = Top()
        for p, v in bound.items():
            cs.set(p, v, e)
        e._callee = h                      # type: ignore[attr-defined]
        self.stack.append(e)
        self.n_calls += 1
        cur, esc = self.cur, self.escaped
        if id(h) not in self._esc_cache:
            self._esc_cache[id(h)] = self._escaped_names(h)
        self.escaped = self._esc_cache[id(h)]
        try:
            fl = self.block(list(h.body), cs)
        finally:
            self.stack.pop()
            self.cur, self.escaped = cur, esc
        out = join_state(fl.fall, fl.ret)
        if out is not None:
            s.fields = out.fields
            stored = {n.id for n in ast.walk(h) if isinstance(n, ast.Name) and isinstance(n.ctx, ast.Store)}
            for p, a in src.items():
                if isinstance(a, ast.Name) and isinstance(s.vars.get(a.id), Cont) and isinstance(out.vars.get(p), Cont) and p not in stored:
                    s.set(a.id, out.vars[p], e)
        rv = fl.retval
        if fl.fall is not None:
            rv = join_av(rv, NONE)
        return rv if rv is not None else NONE

    # ---- tests ----------------------------------------------------------------------------------
    def branch(self, t: ast.AST, s: State) -> Tuple[Optional[State], Optional[State]]:
        """(state when the test holds, state when it does not); None = excluded.  `s` is not modified."""
        if isinstance(t, ast.BoolOp):
            is_and = isinstance(t.op, ast.And)
            cur: Optional[State] = s.copy()
            other: Optional[State] = None
            for v in t.values:
                if cur is None:
                    break
                a, b = self.branch(v, cur)
                if is_and:
                    other = join_state(other, b) if b is not None else other
                    cur = a
                else:
                    other = join_state(other, a) if a is not None else other
                    cur = b
            return (cur, other) if is_and else (other, cur)
        if isinstance(t, ast.UnaryOp) and isinstance(t.op, ast.Not):
            a, b = self.branch(t.operand, s)
            return b, a
        if isinstance(t, ast.Constant):
            return (s.copy(), None) if t.value else (None, s.copy())
        if isinstance(t, ast.Compare):
            cur = s.copy()
            fal: Optional[State] = None
            left = t.left
            for op, right in zip(t.ops, t.comparators):
                if cur is None:
                    break
                a, b = self.compare(left, op, right, cur)
                fal = join_state(fal, b) if b is not None else fal
                cur = a
                left = right
            return cur, fal
        if isinstance(t, ast.NamedExpr):
            c = s.copy()
            self.ev(t, c)
            return self.branch(t.target, c)
        if isinstance(t, ast.Call) and (pf.dotted(t.func) in ('bool', 'len')) and len(t.args) == 1:
            if pf.dotted(t.func) == 'bool':
                return self.branch(t.args[0], s)
            return self.compare(t, ast.Gt(), ast.Constant(value=0), s.copy())
        c = s.copy()
        v = self.ev(t, c)
        if isinstance(v, BoolT) and isinstance(t, ast.Name):
            if v.vers == self.snapshot(v.test, c):
                return self.branch(v.test, c)
            return c, c.copy()
        if isinstance(v, NoneV):
            return None, c
        if isinstance(v, Cont):
            a = b = None
            if 'N' in v.emp:
                a = c.copy()
                self.refine_emp(t, a, N)
            if 'E' in v.emp:
                b = c.copy()
                self.refine_emp(t, b, E)
            return a, b
        if isinstance(v, Num):
            a = b = None
            it = v.itv
            if not it.is_zero():
                a = c.copy()
                nt = it
                if v.is_int and it.lo == 0:
                    nt = Itv(Fraction(1), it.hi)
                elif v.is_int and it.hi == 0:
                    nt = Itv(it.lo, Fraction(-1))
                self.refine_num(t, a, nt)
            if it.has(0) or v.may_none:
                b = c.copy()
                if it.has(0) and not v.may_none:
                    self.refine_num(t, b, ZERO)
            return a, b
        return c, c.copy()

    def refine_emp(self, e: ast.AST, s: State, emp: frozenset) -> None:
        if isinstance(e, ast.Name) and isinstance(s.vars.get(e.id), Cont) and not s.vars[e.id].sticky:
            s.vars[e.id] = replace(s.vars[e.id], emp=emp)

    def refine_num(self, e: ast.AST, s: State, it: Itv) -> None:
        if isinstance(e, ast.Name) and isinstance(s.vars.get(e.id), Num):
            v = s.vars[e.id]
            nt = v.itv.meet(it)
            if nt.is_bot():
                return
            if v.bud:
                s.vars[e.id] = replace(v, itv=nt, fc=nt, z=ZERO, may_none=False)
            elif v.fc.is_zero():
                s.vars[e.id] = replace(v, itv=nt, z=nt, may_none=False)
            else:
                fc = v.fc.meet(nt - v.z)
                s.vars[e.id] = replace(v, itv=nt, fc=v.fc if fc.is_bot() else fc, may_none=False)

    def compare(self, l: ast.AST, op: ast.cmpop, r: ast.AST, s: State) -> Tuple[Optional[State], Optional[State]]:
        """`s` is owned by the callee"""
        a, b = self.ev(l, s), self.ev(r, s)
        if isinstance(op, (ast.Is, ast.IsNot)):
            yes = no = True
            if isinstance(b, NoneV):
                if isinstance(a, NoneV):
                    no = False
                elif isinstance(a, Num) and not a.may_none:
                    yes = False
                elif isinstance(a, (Cont, Func)):
                    yes = False
            st_yes, st_no = (s.copy() if yes else None), (s.copy() if no else None)
            if st_no is not None and isinstance(a, Num) and isinstance(b, NoneV):
                self.refine_num(l, st_no, TOPI)       # drops may_none
            return (st_yes, st_no) if isinstance(op, ast.Is) else (st_no, st_yes)
        if type(op) not in CMP:
            return s, s.copy()
        o = CMP[type(op)]
        # len(name) against a number: emptiness
        for x, y, oo in ((l, b, o), (r, a, FLIP[o])):
            if isinstance(x, ast.Call) and pf.dotted(x.func) == 'len' and len(x.args) == 1 and isinstance(y, Num):
                tv = self.ev(x, s)
                res = []
                for want in (oo, NEG[oo]):
                    it = self.narrow(tv.itv, want, y.itv, True)
                    if it is None:
                        res.append(None)
                        continue
                    c = s.copy()
                    if it.hi < 1:
                        self.refine_emp(x.args[0], c, E)
                    elif it.lo >= 1:
                        self.refine_emp(x.args[0], c, N)
                    res.append(c)
                return res[0], res[1]
        if not (isinstance(a, Num) and isinstance(b, Num)):
            return s, s.copy()
        both_int = a.is_int and b.is_int
        out = []
        for want in (o, NEG[o]):
            la = self.narrow(a.itv, want, b.itv, both_int)
            lb = self.narrow(b.itv, FLIP[want], a.itv, both_int)
            if la is None or lb is None:
                out.append(None)
                continue
            c = s.copy()
            self.refine_num(l, c, la)
            self.refine_num(r, c, lb)
            out.append(c)
        return out[0], out[1]

    @staticmethod
    def narrow(x: Itv, op: str, y: Itv, ints: bool) -> Optional[Itv]:
        """the part of x for which `x op y'` holds for some y' in y; None when there is none"""
        one = Fraction(1) if ints else Fraction(0)
        if op == '<':
            r = x.meet(Itv(-INF, _a(y.hi, -one, INF)))
            return None if (r.is_bot() or not x.lo < y.hi) else r
        if op == '<=':
            r = x.meet(Itv(-INF, y.hi))
            return None if r.is_bot() else r
        if op == '>':
            r = x.meet(Itv(_a(y.lo, one, -INF), INF))
            return None if (r.is_bot() or not x.hi > y.lo) else r
        if op == '>=':
            r = x.meet(Itv(y.lo, INF))
            return None if r.is_bot() else r
        if op == '==':
            r = x.meet(y)
            return None if r.is_bot() else r
        if op == '!=':
            if x.single() and y.single() and x.lo == y.lo:
                return None
            if y.single() and ints:
                if x.lo == y.lo:
                    return Itv(x.lo + 1, x.hi)
                if x.hi == y.lo:
                    return Itv(x.lo, x.hi - 1)
            return x
        return x

    # ---- statements ---------------------------------------------------------------------------------
    def block(self, stmts: Sequence[ast.stmt], s: Optional[State]) -> Flow:
        fl = Flow(s)
        for st in stmts:
            if fl.fall is None:
                break
            r = self.stmt(st, fl.fall)
            fl.absorb(r)
            fl.fall = r.fall
        return fl

    def origin(self, stmt: ast.AST, s: State, value: ast.AST) -> frozenset:
        """the budget is read by `value` and consumed into another quantity at `stmt`"""
        it = None
        for n in ast.walk(value):
            if isinstance(n, ast.Name) and isinstance(s.vars.get(n.id), Num) and s.vars[n.id].bud:
                it = s.vars[n.id].itv if it is None else it.join(s.vars[n.id].itv)
        if it is None:
            it = self.entry
        o = self.origins.setdefault(id(stmt), {'node': stmt, 'itv': it, 'first': it, 'chain': tuple(self.stack)})
        o['itv'] = o['itv'].join(it)
        if it.hi < 0 and 'neg' not in o:
            o['neg'] = it
        return frozenset([id(stmt)])

    def tag(self, v, value: ast.AST, s: State):
        """a value handed on without being bound to a name (returned, passed as an argument): the budget may enter it right here"""
        if isinstance(v, Num) and not v.fc.is_zero() and not v.origins and self.cur is not None and not self.is_budget_expr(value, s) and self.reads_budget(value, s):
            return replace(v, origins=self.origin(self.cur, s, value))
        if isinstance(v, Cont) and v.items is not None and isinstance(value, ast.Tuple) and len(value.elts) == len(v.items):
            return replace(v, items=tuple(self.tag(x, xe, s) for x, xe in zip(v.items, value.elts)))
        return v

    def bind_target(self, tgt: ast.AST, v, s: State, site: ast.AST) -> None:
        if isinstance(tgt, ast.Name):
            if isinstance(v, Num) and v.bud:
                v = replace(v, bud=False)
            s.set(tgt.id, v, site)
        elif isinstance(tgt, (ast.Tuple, ast.List)):
            if isinstance(v, Cont) and v.items is not None and len(v.items) == len(tgt.elts) and not any(isinstance(x, ast.Starred) for x in tgt.elts):
                for x, xv in zip(tgt.elts, v.items):
                    self.bind_target(x, xv, s, site)
                return
            xv = iter_elem(v) if isinstance(v, Cont) else Top(tainted(v), origins_of(v))
            for x in tgt.elts:
                self.bind_target(x, xv, s, site)
        elif isinstance(tgt, ast.Starred):
            self.bind_target(tgt.value, Top(tainted(v), origins_of(v)), s, site)

    def assign(self, tgt: ast.AST, v, s: State, value: Optional[ast.AST]) -> None:
        stmt = self.cur
        if isinstance(tgt, ast.Name):
            cur = s.vars.get(tgt.id)
            was_bud = isinstance(cur, Num) and cur.bud
            if isinstance(v, Num):
                if was_bud or (value is not None and self.is_budget_expr(value, s)):
                    v = Num(v.itv, v.itv, v.is_int, v.may_none, True, frozenset(), ZERO, v.itv.hi < 0)
                else:
                    v = replace(v, bud=False)
                    if not v.fc.is_zero() and value is not None and self.reads_budget(value, s):
                        v = replace(v, origins=v.origins | self.origin(stmt, s, value))
            elif was_bud:
                v = Top(True, origins_of(v))
                self.opaque.append(f'`{pf.nsrc(stmt)[:70]}` at line {stmt.lineno}: the free amount is re-bound to a value that is not interpreted')
            if isinstance(v, Cont) and tgt.id in self.escaped:
                v = replace(v, emp=EN, sticky=True)
            if isinstance(v, Cont) and isinstance(value, ast.Name):
                v = replace(v, emp=EN, sticky=True)          # alias
                if isinstance(s.vars.get(value.id), Cont):
                    s.vars[value.id] = v
            s.set(tgt.id, v, stmt)
            return
        if isinstance(tgt, (ast.Tuple, ast.List)):
            if isinstance(value, (ast.Tuple, ast.List)) and len(value.elts) == len(tgt.elts):
                vals = [self.ev(x, s) for x in value.elts]
                for x, xv, xe in zip(tgt.elts, vals, value.elts):
                    self.assign(x, xv, s, xe)
            elif isinstance(v, Cont) and v.items is not None and len(v.items) == len(tgt.elts) and not any(isinstance(x, ast.Starred) for x in tgt.elts):
                for x, xv in zip(tgt.elts, v.items):
                    self.assign(x, xv, s, None)
            else:
                xv = iter_elem(v) if isinstance(v, Cont) else Top(tainted(v), origins_of(v))
                for x in tgt.elts:
                    self.assign(x, xv, s, None)
            return
        if isinstance(tgt, ast.Starred):
            self.assign(tgt.value, Top(tainted(v), origins_of(v)), s, None)
            return
        if isinstance(tgt, ast.Subscript):
            base = self.ev(tgt.value, s)
            key = tgt.slice
            kv = self.ev(key, s) if not isinstance(key, ast.Slice) else Top()
            if isinstance(tgt.value, ast.Name) and isinstance(s.vars.get(tgt.value.id), Cont):
                c = s.vars[tgt.value.id]                      # a local container: D[k] = v
                s.set(tgt.value.id, replace(c, emp=EN if c.sticky else N, elem=join_av(c.elem, v), keys=join_av(c.keys, kv)), stmt)
                return
            if isinstance(key, ast.Constant) and isinstance(key.value, str):
                self.store(stmt, key.value, v, value, s, tgt)
            return
        # attribute stores and the like: not part of the allocation state
        return

    def store(self, stmt: ast.AST, field: str, v, value: Optional[ast.AST], s: State, at: ast.AST) -> None:
        """a value is written into field `field` of a record"""
        if isinstance(v, Num) and not v.fc.is_zero() and value is not None and self.reads_budget(value, s):
            v = replace(v, origins=v.origins | self.origin(stmt, s, value))
        if isinstance(v, Num) and v.bud:
            v = replace(v, bud=False, fc=v.itv, z=ZERO, sure=v.itv.hi < 0)
        k = (id(stmt), id(at)) + tuple(id(x) for x in self.stack)
        ev = self.events.setdefault(k, {'node': stmt, 'field': field, 'val': None, 'chain': tuple(self.stack)})
        ev['val'] = join_av(ev['val'], v)
        if isinstance(v, Num) and v.sure and v.fc.lo < 0 and v.itv.lo < 0 and 'neg' not in ev:
            ev['neg'] = v
        s.fields[field] = join_av(s.fields.get(field), v)

    def stmt(self, st: ast.stmt, s: State) -> Flow:
        self.cur = st
        if isinstance(st, (ast.Pass, ast.Import, ast.ImportFrom)):
            return Flow(s)
        if isinstance(st, ast.Expr):
            self.ev(st.value, s)
            return Flow(s)
        if isinstance(st, ast.Assign):
            v = self.ev(st.value, s)
            for t in st.targets:
                self.assign(t, v, s, st.value)
            return Flow(s)
        if isinstance(st, ast.AnnAssign):
            if st.value is not None:
                self.assign(st.target, self.ev(st.value, s), s, st.value)
            return Flow(s)
        if isinstance(st, ast.AugAssign):
            load = ast.copy_location(ast.Name(id=st.target.id, ctx=ast.Load()), st.target) if isinstance(st.target, ast.Name) else st.target
            cur = self.ev(load, s) if isinstance(st.target, (ast.Name, ast.Subscript, ast.Attribute)) else Top()
            rhs = self.ev(st.value, s)
            if isinstance(cur, Cont) and isinstance(st.target, ast.Name):
                # |= / += on a container
                r = self.method(st.target, cur, 'update', [rhs], s, st)
                return Flow(s)
            v = self.binop(st.op, cur, rhs)
            fake = ast.BinOp(left=load, op=st.op, right=st.value)
            self.assign(st.target, v, s, fake)
            return Flow(s)
        if isinstance(st, ast.Delete):
            for t in st.targets:
                if isinstance(t, ast.Subscript) and isinstance(t.value, ast.Name) and isinstance(s.vars.get(t.value.id), Cont):
                    c = s.vars[t.value.id]
                    self.ev(t.slice, s)
                    s.set(t.value.id, replace(c, emp=E if c.emp == E else EN), st)
                elif isinstance(t, ast.Name):
                    s.vars.pop(t.id, None)
            return Flow(s)
        if isinstance(st, (ast.FunctionDef, ast.AsyncFunctionDef)):
            s.set(st.name, Func(st), st)
            return Flow(s)
        if isinstance(st, ast.Return):
            fl = Flow(None)
            fl.retval = self.tag(self.ev(st.value, s), st.value, s) if st.value is not None else NONE
            fl.ret = s
            return fl
        if isinstance(st, ast.Raise):
            return Flow(None)
        if isinstance(st, ast.Break):
            fl = Flow(None)
            fl.brk = s
            return fl
        if isinstance(st, ast.Continue):
            fl = Flow(None)
            fl.cont = s
            return fl
        if isinstance(st, ast.Assert):
            t, _ = self.branch(st.test, s)
            return Flow(t)
        if isinstance(st, ast.If):
            flag = self.flag_idiom(st, s)
            t, f = self.branch(st.test, s)
            if flag is not None and t is not None and f is not None:
                # if T: x = True  else: x = False   (or a default overridden in one branch): x is the condition T itself
                name, pos = flag
                test = st.test if pos else self._not_cache.setdefault(id(st), ast.UnaryOp(op=ast.Not(), operand=st.test))
                s.set(name, BoolT(test, self.snapshot(st.test, s)), st)
                return Flow(s)
            out = Flow(None)
            for sub, body in ((t, st.body), (f, st.orelse)):
                if sub is None:
                    continue
                r = self.block(body, sub)
                out.absorb(r)
                out.fall = join_state(out.fall, r.fall) if r.fall is not None else out.fall
            return out
        if isinstance(st, ast.While):
            return self.loop(st, s, None)
        if isinstance(st, (ast.For, ast.AsyncFor)):
            it = self.ev(st.iter, s)
            return self.loop(st, s, it)
        if isinstance(st, (ast.With, ast.AsyncWith)):
            for item in st.items:
                v = self.ev(item.context_expr, s)
                if item.optional_vars is not None:
                    self.bind_target(item.optional_vars, Top(tainted(v)), s, st)
            return self.block(st.body, s)
        raise AnalysisError(f'{self.where}: statement `{pf.nsrc(st)[:60]}` at line {st.lineno} is not interpreted by the sign analysis')

    @staticmethod
    def _const_assign(body: Sequence[ast.stmt]) -> Optional[Tuple[str, bool]]:
        if len(body) == 1 and isinstance(body[0], ast.Assign) and len(body[0].targets) == 1 and isinstance(body[0].targets[0], ast.Name) \
                and isinstance(body[0].value, ast.Constant) and isinstance(body[0].value.value, (bool, int)):
            return body[0].targets[0].id, bool(body[0].value.value)
        return None

    def flag_idiom(self, st: ast.If, s: State) -> Optional[Tuple[str, bool]]:
        a = self._const_assign(st.body)
        if a is None or any(isinstance(n, ast.NamedExpr) for n in ast.walk(st.test)) or a[0] in {n.id for n in ast.walk(st.test) if isinstance(n, ast.Name)}:
            return None
        if st.orelse:
            b = self._const_assign(st.orelse)
            return (a[0], a[1]) if (b is not None and b[0] == a[0] and b[1] != a[1]) else None
        cur = s.vars.get(a[0])
        if isinstance(cur, Num) and cur.itv.single() and cur.fc.is_zero() and bool(cur.itv.lo) != a[1]:
            return a[0], a[1]
        return None

    def loop(self, st: ast.stmt, s0: State, it) -> Flow:
        """while (it is None) / for loops: fixpoint over the loop head with widening"""
        self.n_loops += 1
        is_for = not isinstance(st, ast.While)
        out = Flow(None)
        if is_for:
            emp = it.emp if isinstance(it, Cont) else EN
            el = iter_elem(it) if isinstance(it, Cont) else Top(tainted(it), origins_of(it))
        head = s0.copy()
        exit_false: Optional[State] = None
        brk: Optional[State] = None
        for rnd in range(60):
            if is_for:
                t = head.copy() if 'N' in emp else None
                if t is not None:
                    self.cur = st
                    self.bind_target(st.target, el, t, st)
                f = head.copy()       # exhaustion (after >= 0 iterations)
            else:
                t, f = self.branch(st.test, head)
            exit_false = f
            back: Optional[State] = None
            if t is not None:
                r = self.block(st.body, t)
                back = join_state(r.fall, r.cont)
                brk = join_state(brk, r.brk) if r.brk is not None else brk
                out.ret = join_state(out.ret, r.ret) if r.ret is not None else out.ret
                out.retval = join_av(out.retval, r.retval)
            new = join_state(s0, back) if back is not None else s0.copy()
            if rnd >= 3:
                new = join_state(head, new, widen=True)
            else:
                new = join_state(head, new)
            if new.same(head):
                break
            head = new
        else:
            raise AnalysisError(f'{self.where}: the sign analysis of the loop at line {st.lineno} does not stabilise')
        if is_for and 'E' not in emp and exit_false is not None:
            # at least one iteration: the exit state is a state after the body
            exit_false = back if back is not None else None
        after = exit_false
        if st.orelse and after is not None:
            r = self.block(st.orelse, after)
            out.absorb(r)
            after = r.fall
        out.fall = join_state(after, brk) if (after is not None or brk is not None) else None
        return out
