"""C12 helper: path-wise SYMBOLIC execution of a small, loop-free function (abstract execution over symbolic values with explicit case splits).

Nothing is run and no concrete value is ever substituted.  Every path through the function body is followed once; locals are kept as EXPRESSIONS over the
original parameter values, `self.<attr>`, globals and un-interpreted calls (a re-assigned parameter `x = f(x)` becomes `f(x)` with `x` the caller's value),
and every branch taken is recorded as a fact (atom, polarity).  A path whose facts contradict each other syntactically - the same atom with both
polarities, `X == 'a'` and `X == 'b'` both true, `X is None` and `X is not None` - is dropped, so a boolean local (`is_gcp = self.cloud == 'gcp'`) tested
twice takes the same arm both times.

The result lets a rule look at CLOSED FORMS: what a returned tuple element is as a function of the request, independent of how many locals, renamings,
guard clauses or hoisted statements the author used.  Loops / try / with / unpacking of a call raise AnalysisError (the caller declines).
"""
from __future__ import annotations

import ast
import copy
from typing import Dict, List, Optional, Sequence, Tuple

from . import pyfacts as pf
from .common import AnalysisError, short

Fact = Tuple[ast.expr, bool]


class PathResult:
    def __init__(self, kind: str, value: Optional[ast.expr], env: Dict[str, ast.expr], facts: List[Fact], node: Optional[ast.stmt]):
        self.kind = kind          # return | raise | fall
        self.value = value        # closed form of the returned expression (None for a bare return / raise / fall)
        self.env = env
        self.facts = facts
        self.node = node

    @property
    def lineno(self) -> int:
        return getattr(self.node, 'lineno', 0)

    def conds(self) -> str:
        return ' and '.join((pf.nsrc(e) if pol else f'not ({pf.nsrc(e)})') for e, pol in self.facts) or 'always'


def subst(e: ast.AST, env: Dict[str, ast.expr]) -> ast.expr:
    """simultaneous substitution of the names in env (Load context); comprehension / lambda variables shadow"""
    class T(ast.NodeTransformer):
        def __init__(self, hidden: frozenset):
            self.hidden = hidden

        def visit_Name(self, node: ast.Name):
            if isinstance(node.ctx, ast.Load) and node.id in env and node.id not in self.hidden:
                return copy.deepcopy(env[node.id])
            return node

        def _comp(self, node):
            bound = {n.id for g in node.generators for n in ast.walk(g.target) if isinstance(n, ast.Name)}
            return T(self.hidden | frozenset(bound)).generic_visit(node)

        visit_ListComp = visit_SetComp = visit_DictComp = visit_GeneratorExp = _comp

        def visit_Lambda(self, node: ast.Lambda):
            bound = {a.arg for a in node.args.args + node.args.kwonlyargs + node.args.posonlyargs}
            return T(self.hidden | frozenset(bound)).generic_visit(node)
    return T(frozenset()).visit(copy.deepcopy(e))


def atoms(test: ast.AST, pol: bool) -> List[Fact]:
    """the atomic facts implied by `test` being `pol`; a disjunction (or a negated conjunction) is one opaque fact"""
    if isinstance(test, ast.UnaryOp) and isinstance(test.op, ast.Not):
        return atoms(test.operand, not pol)
    if isinstance(test, ast.BoolOp) and ((isinstance(test.op, ast.And) and pol) or (isinstance(test.op, ast.Or) and not pol)):
        return [f for v in test.values for f in atoms(v, pol)]
    if isinstance(test, ast.Compare) and len(test.ops) == 1:
        op = test.ops[0]
        flip = {ast.NotEq: ast.Eq, ast.IsNot: ast.Is, ast.NotIn: ast.In}
        if type(op) in flip:
            t2 = ast.copy_location(ast.Compare(left=test.left, ops=[flip[type(op)]()], comparators=test.comparators), test)
            return [(t2, not pol)]
    return [(test, pol)]  # type: ignore[list-item]


def _eq_const(e: ast.AST) -> Optional[Tuple[str, object]]:
    if isinstance(e, ast.Compare) and len(e.ops) == 1 and isinstance(e.ops[0], ast.Eq):
        a, b = e.left, e.comparators[0]
        if isinstance(b, ast.Constant) and not isinstance(a, ast.Constant):
            return pf.nsrc(a), b.value
        if isinstance(a, ast.Constant) and not isinstance(b, ast.Constant):
            return pf.nsrc(b), a.value
    return None


def consistent(facts: Sequence[Fact], new: Sequence[Fact]) -> bool:
    have = list(facts)
    for e, pol in new:
        k = pf.nsrc(e)
        for e0, p0 in have:
            if pf.nsrc(e0) == k and p0 != pol:
                return False
            if pol and p0:
                x, y = _eq_const(e), _eq_const(e0)
                if x is not None and y is not None and x[0] == y[0] and x[1] != y[1]:
                    return False
        if isinstance(e, ast.Constant) and bool(e.value) != pol:
            return False
        have.append((e, pol))
    return True


def exec_paths(fn: pf.FuncDef, max_paths: int = 64) -> List[PathResult]:
    """every syntactically feasible path through fn's body"""
    out: List[PathResult] = []

    def fail(st: ast.AST, why: str):
        raise AnalysisError(f'{fn.name}: `{short(pf.nsrc(st), 50)}` ({why}) is outside the symbolic-path fragment')

    def block(stmts: Sequence[ast.stmt], env: Dict[str, ast.expr], facts: List[Fact]) -> List[Tuple[Dict[str, ast.expr], List[Fact]]]:
        """runs stmts; returns the (env, facts) states that fall through; finished paths go to `out`"""
        states = [(env, facts)]
        for st in stmts:
            nxt: List[Tuple[Dict[str, ast.expr], List[Fact]]] = []
            for env1, facts1 in states:
                nxt += step(st, env1, facts1)
            states = nxt
            if len(states) + len(out) > max_paths:
                raise AnalysisError(f'{fn.name}: more than {max_paths} paths')
            if not states:
                break
        return states

    def step(st: ast.stmt, env: Dict[str, ast.expr], facts: List[Fact]) -> List[Tuple[Dict[str, ast.expr], List[Fact]]]:
        if isinstance(st, (ast.Pass, ast.Global, ast.Nonlocal, ast.Import, ast.ImportFrom)):
            return [(env, facts)]
        if isinstance(st, ast.Expr):
            if isinstance(st.value, (ast.Await, ast.Yield, ast.YieldFrom)):
                fail(st, 'suspension')
            return [(env, facts)]          # a call for its effect / a docstring: binds no local
        if isinstance(st, ast.Assign):
            v = subst(st.value, env)
            env2 = dict(env)
            for t in st.targets:
                if isinstance(t, ast.Name):
                    env2[t.id] = v
                elif isinstance(t, (ast.Tuple, ast.List)) and isinstance(v, (ast.Tuple, ast.List)) and len(t.elts) == len(v.elts) and all(isinstance(x, ast.Name) for x in t.elts):
                    for x, vv in zip(t.elts, v.elts):
                        env2[x.id] = vv  # type: ignore[attr-defined]
                elif isinstance(t, (ast.Attribute, ast.Subscript)):
                    continue              # a store into an object: binds no local
                else:
                    fail(st, 'unpacking')
            return [(env2, facts)]
        if isinstance(st, ast.AnnAssign):
            if st.value is None or not isinstance(st.target, ast.Name):
                return [(env, facts)]
            env2 = dict(env)
            env2[st.target.id] = subst(st.value, env)
            return [(env2, facts)]
        if isinstance(st, ast.AugAssign):
            if not isinstance(st.target, ast.Name):
                return [(env, facts)]
            env2 = dict(env)
            cur = env.get(st.target.id, ast.Name(id=st.target.id, ctx=ast.Load()))
            env2[st.target.id] = ast.fix_missing_locations(ast.copy_location(ast.BinOp(left=copy.deepcopy(cur), op=st.op, right=subst(st.value, env)), st))
            return [(env2, facts)]
        if isinstance(st, ast.Assert):
            new = atoms(subst(st.test, env), True)
            return [(env, facts + new)] if consistent(facts, new) else []
        if isinstance(st, ast.Return):
            out.append(PathResult('return', subst(st.value, env) if st.value is not None else None, env, facts, st))
            return []
        if isinstance(st, ast.Raise):
            out.append(PathResult('raise', None, env, facts, st))
            return []
        if isinstance(st, ast.If):
            test = subst(st.test, env)
            res: List[Tuple[Dict[str, ast.expr], List[Fact]]] = []
            for pol, body in ((True, st.body), (False, st.orelse)):
                new = atoms(test, pol)
                if consistent(facts, new):
                    res += block(body, env, facts + new)
            return res
        if isinstance(st, ast.Delete):
            return [(env, facts)]
        fail(st, type(st).__name__)
        return []
    for env, facts in block(fn.body, {}, []):
        out.append(PathResult('fall', None, env, facts, None))
    return out
