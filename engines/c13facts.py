"""C13 helpers: abstract evaluation of the dict-returning methods of the Resource hierarchy (to_quantified_resource, to_dict).

Nothing is run.  A method body is executed ABSTRACTLY, path by path (explicit case split on every test that the abstract values do
not decide), over symbolic values:
  * scalars are expressions over the method's parameters and `self.<attr>`;
  * dicts are abstract objects  (provenance, key -> value expression)  with real aliasing (two locals may name the same object):
      provenance 'fresh'  = built by this call (dict literal, dict(...), .copy(), {**d}, TypedDict constructor),
                 'memo'   = the object is (or may be) retained between calls: returned by a method decorated with lru_cache / cache,
                            or stored by the method into self.<attr> / a module-level container,
                 'state'  = read from self.<attr>[...] / a module-level container;
  * `super().m(...)`, `Base.m(self, ...)` and `self.helper(...)` are followed through the C3 linearisation of the concrete class.
The evaluation records EVENTS: an in-place update of an object whose provenance is not 'fresh' (the shared object is changed for
every later caller), and stores into `self.<attr>`.  Shapes outside the fragment raise AnalysisError (decline, never a verdict).
"""
from __future__ import annotations

import ast
import copy
from typing import Callable, Dict, List, Optional, Sequence, Set, Tuple

from . import pyfacts as pf
from .common import AnalysisError, short

MEMO_DECORATORS = ('functools.lru_cache', 'lru_cache', 'functools.cache', 'cache')
ABSTRACT_DECORATORS = ('abc.abstractmethod', 'abstractmethod')
NEUTRAL_DECORATORS = ('override', 'typing.override', 'typing_extensions.override')
_LOGGERS = ('log', 'logger', 'logging')
_MUTATORS = ('update', 'pop', 'popitem', 'clear', 'setdefault', '__setitem__', '__delitem__')

Classes = Dict[str, Tuple[pf.Module, ast.ClassDef]]


def methods(cls: ast.ClassDef) -> Dict[str, pf.FuncDef]:
    return {s.name: s for s in cls.body if isinstance(s, (ast.FunctionDef, ast.AsyncFunctionDef))}


def mro(cls_name: str, classes: Classes) -> List[str]:
    """C3 linearisation restricted to the analysed classes."""
    if cls_name not in classes:
        return []
    _, c = classes[cls_name]
    bases = [pf.dotted(b) for b in c.bases if pf.dotted(b) in classes]
    seqs = [mro(b, classes) for b in bases] + [list(bases)]  # type: ignore[arg-type]
    out = [cls_name]
    seqs = [s for s in seqs if s]
    while seqs:
        for s in seqs:
            head = s[0]
            if not any(head in t[1:] for t in seqs):
                break
        else:
            raise AnalysisError(f'inconsistent MRO for {cls_name}')
        out.append(head)
        seqs = [[x for x in s if x != head] for s in seqs]
        seqs = [s for s in seqs if s]
    return out


def decorator_kind(fn: pf.FuncDef) -> Tuple[str, Optional[str]]:
    """('abstract' | 'memo' | 'plain' | 'static' | 'unknown', decorator text)"""
    kind, text = 'plain', None
    for d in fn.decorator_list:
        name = pf.dotted(d.func) if isinstance(d, ast.Call) else pf.dotted(d)
        if name in ABSTRACT_DECORATORS:
            return 'abstract', name
        if name in MEMO_DECORATORS:
            kind, text = 'memo', pf.nsrc(d)
        elif name in ('staticmethod', 'classmethod'):
            kind, text = 'static', name
        elif name in NEUTRAL_DECORATORS:
            continue
        else:
            return 'unknown', pf.nsrc(d)
    return kind, text


class NoneVal:
    """The value None."""

    def __repr__(self) -> str:
        return 'None'


class Obj:
    """Abstract dict object."""
    _next = 0

    def __init__(self, prov: str, why: str, items: Optional[Dict[str, ast.expr]] = None, open_: bool = False):
        self.prov = prov        # fresh | memo | state
        self.why = why          # where the sharing comes from (text for messages)
        self.items: Dict[str, ast.expr] = dict(items or {})
        self.open = open_       # unknown further keys / unknown values
        self.container: Optional[str] = None   # for prov == 'state': the container it was read from and the key expression
        self.key: Optional[ast.expr] = None
        self.memo_atoms: Optional[List[str]] = None   # for prov == 'memo': what identifies the retained object (names / self.<attr> of the memo key; 'self' = the object)
        Obj._next += 1
        self.oid = Obj._next    # survives deepcopy (a fork of the state keeps object identities apart by oid)

    def clone_fresh(self) -> 'Obj':
        return Obj('fresh', '', {k: copy.deepcopy(v) for k, v in self.items.items()}, self.open)

    def show(self) -> str:
        return '{' + ', '.join(f'{k!r}: {short(pf.nsrc(v), 50)}' for k, v in self.items.items()) + (', ...' if self.open else '') + '}'


class State:
    def __init__(self) -> None:
        self.env: Dict[str, object] = {}      # name -> ast.expr | Obj | NoneVal
        self.events: List[dict] = []
        self.conds: List[str] = []
        self.sinks: List[Tuple[str, object]] = []   # (list name, appended value)
        self.stack: List[Dict[str, object]] = []    # environments of the callers (a callee runs on the same state, so aliasing and events carry over)

    def fork(self) -> 'State':
        return copy.deepcopy(self)


class Path:
    def __init__(self, result: object, st: State):
        self.result = result   # Obj | NoneVal | ast.expr
        self.state = st

    events = property(lambda self: self.state.events)
    conds = property(lambda self: self.state.conds)
    sinks = property(lambda self: self.state.sinks)
    env = property(lambda self: self.state.env)


class _Frame:
    def __init__(self, owner: str, fn: pf.FuncDef, m: pf.Module, depth: int):
        self.owner, self.fn, self.m, self.depth = owner, fn, m, depth
        self.finished: List[Path] = []

    @property
    def where(self) -> str:
        return f'{self.m.rel}::{self.owner}.{self.fn.name}'


def self_attr(e: ast.AST) -> Optional[str]:
    if isinstance(e, ast.Attribute) and isinstance(e.value, ast.Name) and e.value.id == 'self':
        return e.attr
    return None


def key_atoms(k: ast.AST) -> List[str]:
    """Names and self.<attr> chains a memo key is built from ('self' only when the object itself is part of the key)."""
    out: Set[str] = set()

    def go(n: ast.AST) -> None:
        if isinstance(n, ast.Attribute):
            base = n
            while isinstance(base, ast.Attribute):
                base = base.value
            if isinstance(base, ast.Name):
                out.add(pf.nsrc(n))
                if base.id == 'self' and isinstance(n.value, ast.Attribute):
                    out.add(f'self.{pf.nsrc(n).split(".")[1]}')
                return
        if isinstance(n, ast.Name):
            out.add(n.id)
            return
        for c in ast.iter_child_nodes(n):
            go(c)
    go(k)
    return sorted(out)


def state_read(e: ast.AST, local_names: Set[str]) -> Optional[str]:
    """`self.a`, `self.a[...]`, `self.a.get(...)`, `GLOBAL[...]`, `GLOBAL.get(...)`: a value read from state that outlives the call."""
    cur = e
    if isinstance(cur, ast.Call) and isinstance(cur.func, ast.Attribute) and cur.func.attr == 'get':
        cur = cur.func.value
        sub = True
    elif isinstance(cur, ast.Subscript):
        cur = cur.value
        sub = True
    else:
        sub = False
    while isinstance(cur, (ast.Subscript,)):
        cur = cur.value
    if self_attr(cur) is not None:
        return f'self.{cur.attr}'  # type: ignore[attr-defined]
    if sub and isinstance(cur, ast.Name) and cur.id not in local_names and cur.id != 'self':
        return cur.id
    return None


class DictEval:
    """Evaluate methods of one concrete class (resolution through its MRO)."""

    MAX_PATHS = 64

    def __init__(self, classes: Classes, cls_name: str, typed_dicts: Sequence[str] = (), max_depth: int = 4,
                 external_call: Optional[Callable[[ast.Call], Optional[Obj]]] = None):
        self.classes = classes
        self.cls_name = cls_name
        self.order = mro(cls_name, classes)
        self.typed_dicts = set(typed_dicts)
        self.max_depth = max_depth
        self.external_call = external_call
        self.self_reads: Set[str] = set()
        self.visited: List[str] = []
        self.visited_fns: List[Tuple[str, pf.FuncDef, pf.Module]] = []
        self.memoised: Dict[str, str] = {}
        self._fn_mod: Dict[int, pf.Module] = {}     # imported module-level helpers -> the module they are defined in

    # -- resolution -----------------------------------------------------------------
    def resolve(self, name: str, start_after: Optional[str] = None, start_at: Optional[str] = None) -> Optional[Tuple[str, pf.FuncDef, pf.Module]]:
        order = self.order
        if start_after is not None:
            if start_after not in order:
                raise AnalysisError(f'{start_after} is not in the MRO of {self.cls_name}')
            order = order[order.index(start_after) + 1:]
        if start_at is not None:
            if start_at not in order:
                raise AnalysisError(f'{start_at} is not in the MRO of {self.cls_name}')
            order = order[order.index(start_at):]
        for cn in order:
            m, c = self.classes[cn]
            fn = methods(c).get(name)
            if fn is None:
                continue
            kind, text = decorator_kind(fn)
            if kind == 'abstract':
                continue
            if kind == 'unknown':
                raise AnalysisError(f'{m.rel}::{cn}.{name}: decorator `{text}` is not understood')
            return cn, fn, m
        return None

    def class_level(self, attr: str) -> bool:
        """attr is bound in a class body of the MRO (shared by every instance) and never assigned through self in an __init__ of the MRO."""
        bound = False
        for cn in self.order:
            c = self.classes[cn][1]
            for st in c.body:
                tg = st.targets[0] if isinstance(st, ast.Assign) and len(st.targets) == 1 else (st.target if isinstance(st, ast.AnnAssign) and st.value is not None else None)
                if isinstance(tg, ast.Name) and tg.id == attr:
                    bound = True
            init = methods(c).get('__init__')
            if init is not None:
                for n in ast.walk(init):
                    if isinstance(n, ast.Attribute) and isinstance(n.ctx, ast.Store) and self_attr(n) == attr:
                        return False
        return bound

    # -- entry ----------------------------------------------------------------------
    def run(self, name: str) -> List[Path]:
        r = self.resolve(name)
        if r is None:
            raise AnalysisError(f'{self.cls_name}: no concrete {name} in its MRO')
        owner, fn, m = r
        params = [a.arg for a in fn.args.args]
        bound: Dict[str, object] = {p: ast.Name(id=p, ctx=ast.Load()) for p in params[1:]}
        return self._invoke(owner, fn, m, bound, State(), self.max_depth)

    def run_block(self, owner: str, fn: pf.FuncDef, m: pf.Module, stmts: Sequence[ast.stmt], env: Dict[str, object]) -> Tuple[List[State], List[Path]]:
        """Evaluate a statement list of fn (e.g. a loop body) from the given environment; returns (states falling off the end, returned paths)."""
        st = State()
        st.env = dict(env)
        fr = _Frame(owner, fn, m, self.max_depth)
        out = self._block(list(stmts), [st], fr)
        return out, fr.finished

    def _invoke(self, owner: str, fn: pf.FuncDef, m: pf.Module, bound: Dict[str, object], st: State, depth: int) -> List[Path]:
        """Run fn on `st` (consumed): the caller's environment is pushed on st.stack and is on top of the stack of every returned path's state."""
        if depth <= 0:
            raise AnalysisError(f'{m.rel}::{owner}.{fn.name}: call chain too deep')
        if isinstance(fn, ast.AsyncFunctionDef) or fn.args.vararg or fn.args.kwarg or fn.args.posonlyargs:
            raise AnalysisError(f'{m.rel}::{owner}.{fn.name}: coroutine / star parameters are not a recognised shape')
        if any(isinstance(x, (ast.Yield, ast.YieldFrom)) for x in pf.walk_shallow(fn)):
            raise AnalysisError(f'{m.rel}::{owner}.{fn.name}: generator')
        kind, text = decorator_kind(fn)
        tag = f'{owner}.{fn.name}'
        if tag not in self.visited:
            self.visited.append(tag)
            self.visited_fns.append((owner, fn, m))
        if kind == 'memo':
            self.memoised[tag] = text or ''
        self._note_self_reads(fn)
        st.stack.append(st.env)
        st.env = dict(bound)
        fr = _Frame(owner, fn, m, depth)
        fall = self._block(comprehend_loops(fn.body), [st], fr)
        for s in fall:
            fr.finished.append(Path(NoneVal(), s))
        if len(fr.finished) > self.MAX_PATHS:
            raise AnalysisError(f'{fr.where}: too many paths')
        if kind == 'memo':
            for p in fr.finished:
                if isinstance(p.result, Obj):
                    p.result.prov = 'memo'
                    p.result.memo_atoms = sorted({'self'} | {a for v in bound.values() if isinstance(v, ast.AST) for a in key_atoms(v)})
                    p.result.why = f'{owner}.{fn.name} is memoised with `@{text}`, so every call with the same arguments returns the same dict object'
        return fr.finished

    def _note_self_reads(self, fn: pf.FuncDef) -> None:
        funcs = {id(c.func) for c in ast.walk(fn) if isinstance(c, ast.Call)}
        for n in ast.walk(fn):
            a = self_attr(n)
            if a is not None and isinstance(n.ctx, ast.Load) and id(n) not in funcs:  # type: ignore[attr-defined]
                self.self_reads.add(a)

    # -- expressions ----------------------------------------------------------------
    def subst(self, e: ast.AST, st: State, fr: _Frame) -> ast.expr:
        ev = self

        class T(ast.NodeTransformer):
            def __init__(self, hidden: Set[str]):
                self.hidden = hidden

            def visit_Name(self, node: ast.Name):
                if isinstance(node.ctx, ast.Load) and node.id not in self.hidden:
                    v = st.env.get(node.id)
                    if isinstance(v, ast.AST):
                        return copy.deepcopy(v)
                    if isinstance(v, NoneVal):
                        return ast.Constant(value=None)
                return node

            def visit_Subscript(self, node: ast.Subscript):
                if isinstance(node.ctx, ast.Load) and isinstance(node.value, ast.Name) and node.value.id not in self.hidden:
                    v = st.env.get(node.value.id)
                    k = pf.const_str(node.slice)
                    if isinstance(v, Obj) and k is not None:
                        if k in v.items:
                            r = copy.deepcopy(v.items[k])
                            r._c13_src = (v.oid, k)   # type: ignore[attr-defined]  # this sub-expression is the value the dict held under k
                            return r
                        if not v.open:
                            raise AnalysisError(f"{fr.where}: `{pf.nsrc(node)}` reads a key the dict does not have ({v.show()})")
                        return node
                return self.generic_visit(node)

            def _comp(self, node):
                bound = {n.id for g in node.generators for n in ast.walk(g.target) if isinstance(n, ast.Name)}
                return T(self.hidden | bound).generic_visit(node)

            visit_ListComp = visit_SetComp = visit_DictComp = visit_GeneratorExp = _comp

            def visit_Lambda(self, node):
                return node

            def visit_Call(self, node: ast.Call):
                # a helper method / module function that computes a scalar on a single path: replaced by what it returns
                if not self.hidden:
                    mc = ev._method_call(node, fr)
                    if mc is not None and fr.depth > 1:
                        try:
                            n_ev = len(st.events)
                            paths = ev._call(mc, st, fr)
                            if len(paths) == 1 and isinstance(paths[0].result, ast.AST) and len(paths[0].events) == n_ev:
                                return paths[0].result
                        except AnalysisError:
                            pass
                return self.generic_visit(node)
        out = T(set()).visit(copy.deepcopy(e))
        return out

    def _obj_of(self, e: ast.AST, st: State) -> Optional[Obj]:
        if isinstance(e, ast.Name):
            v = st.env.get(e.id)
            if isinstance(v, Obj):
                return v
        return None

    def _locals(self, st: State, fr: _Frame) -> Set[str]:
        return set(st.env) | set(pf.assignments(fr.fn))

    def _as_dict(self, e: ast.AST, st: State, fr: _Frame, allow_state: bool = True) -> Optional[Obj]:
        """The abstract object `e` denotes when it is used as a dict (existing object, not a copy)."""
        o = self._obj_of(e, st)
        if o is not None:
            return o
        if isinstance(e, ast.Name) and isinstance(st.env.get(e.id), ast.AST):
            e = st.env[e.id]  # type: ignore[assignment]
        if allow_state:
            sr = state_read(e, self._locals(st, fr))
            if sr is not None:
                o = Obj('state', f'it is read from `{short(pf.nsrc(e), 50)}`, which outlives the call', {}, True)
                if isinstance(e, ast.Subscript):
                    o.container, o.key = pf.nsrc(e.value), self.subst(e.slice, st, fr)
                elif isinstance(e, ast.Call) and isinstance(e.func, ast.Attribute) and e.args:
                    o.container, o.key = pf.nsrc(e.func.value), self.subst(e.args[0], st, fr)
                else:
                    o.container = pf.nsrc(e)
                # what identifies the stored object: the instance (unless the attribute lives on the class) and the key it is looked up under
                ident: Set[str] = set()
                if sr.startswith('self.') and not self.class_level(sr[5:]):
                    ident.add('self')
                if o.key is not None:
                    ident |= set(key_atoms(o.key))
                o.memo_atoms = sorted(ident)
                if sr.startswith('self.') and self.class_level(sr[5:]):
                    o.why += f' ({sr} is a class attribute: one object for every instance)'
                return o
        return None

    def _dict_operand(self, e: ast.AST, st: State, fr: _Frame, allow_state: bool = True) -> Optional[Obj]:
        """The dict `e` denotes where it is only read ({**e}, dict(e), e | x): an object, a construction, or a call of a helper / super() method that returns one
        dict on its only path without side effects."""
        o = self._as_dict(e, st, fr, allow_state) or self.fresh(e, st, fr)
        if o is not None:
            return o
        mc = self._method_call(e, fr)
        if mc is not None:
            n_ev = len(st.events)
            paths = self._call(mc, st, fr)
            if len(paths) == 1 and isinstance(paths[0].result, Obj) and len(paths[0].events) == n_ev:
                return paths[0].result
            raise AnalysisError(f'{fr.where}: `{short(pf.nsrc(e), 50)}` does not return one dict on a single effect-free path (not a recognised shape)')
        return None

    def fresh(self, e: ast.AST, st: State, fr: _Frame) -> Optional[Obj]:
        """A newly built dict, or None if `e` is not a recognised dict construction."""
        if isinstance(e, ast.Dict):
            out = Obj('fresh', '')
            for k, v in zip(e.keys, e.values):
                if k is None:
                    src = self._dict_operand(v, st, fr)
                    if src is None:
                        raise AnalysisError(f'{fr.where}: `**{short(pf.nsrc(v), 40)}` is not a recognised dict')
                    out.items.update({kk: copy.deepcopy(vv) for kk, vv in src.items.items()})
                    out.open = out.open or src.open
                else:
                    ks = pf.const_str(k)
                    if ks is None:
                        raise AnalysisError(f'{fr.where}: computed key `{short(pf.nsrc(k), 40)}`')
                    out.items[ks] = self.subst(v, st, fr)
            return out
        if isinstance(e, ast.Call):
            name = pf.dotted(e.func)
            if name == 'dict' or (name in self.typed_dicts):
                out = Obj('fresh', '')
                if len(e.args) > 1 or (e.args and name != 'dict'):
                    return None
                if e.args:
                    src = self._dict_operand(e.args[0], st, fr)
                    if src is None:
                        return None
                    out = src.clone_fresh()
                for k in e.keywords:
                    if k.arg is None:
                        src = self._dict_operand(k.value, st, fr)
                        if src is None:
                            return None
                        out.items.update({kk: copy.deepcopy(vv) for kk, vv in src.items.items()})
                        out.open = out.open or src.open
                    else:
                        out.items[k.arg] = self.subst(k.value, st, fr)
                return out
            if name in ('copy.copy', 'copy.deepcopy', 'copy', 'deepcopy') and len(e.args) == 1:
                src = self._as_dict(e.args[0], st, fr)
                return src.clone_fresh() if src is not None else None
            if isinstance(e.func, ast.Attribute) and e.func.attr == 'copy' and not e.args and not e.keywords:
                src = self._as_dict(e.func.value, st, fr)
                return src.clone_fresh() if src is not None else None
        if isinstance(e, ast.BinOp) and isinstance(e.op, ast.BitOr):
            a = self._dict_operand(e.left, st, fr)
            b = self._dict_operand(e.right, st, fr)
            if a is None or b is None:
                return None
            out = a.clone_fresh()
            out.items.update({k: copy.deepcopy(v) for k, v in b.items.items()})
            out.open = a.open or b.open
            return out
        if isinstance(e, ast.DictComp) and len(e.generators) == 1 and not e.generators[0].ifs:
            g = e.generators[0]
            if isinstance(g.iter, ast.Call) and isinstance(g.iter.func, ast.Attribute) and g.iter.func.attr == 'items' and isinstance(g.target, ast.Tuple) \
                    and len(g.target.elts) == 2 and pf.nsrc(e.key) == pf.nsrc(g.target.elts[0]) and pf.nsrc(e.value) == pf.nsrc(g.target.elts[1]):
                src = self._as_dict(g.iter.func.value, st, fr)
                return src.clone_fresh() if src is not None else None
        return None

    def _method_call(self, e: ast.AST, fr: _Frame) -> Optional[Tuple[str, Optional[str], Optional[str], ast.Call, Optional[pf.FuncDef]]]:
        """(method, start_after, start_at, call, module function) for super().m(...), super(C, self).m(...), Base.m(self, ...), self.m(...), and f(...) for a
        plain function f of the module being evaluated"""
        if isinstance(e, ast.Call) and isinstance(e.func, ast.Name) and e.func.id not in self.typed_dicts and e.func.id not in self.classes:
            try:
                f = fr.m.func(e.func.id)
            except Exception:  # noqa: BLE001
                # a helper imported from another repository module (e.g. a constructor function of batch/batch/resources.py used by the cloud modules)
                r = resolve_imported(fr.m, e.func.id) if e.func.id in fr.m.imports() else None
                if r is None or not isinstance(r[1], ast.FunctionDef):
                    return None
                f = r[1]
                self._fn_mod[id(f)] = r[0]
            return e.func.id, None, None, e, f
        if not (isinstance(e, ast.Call) and isinstance(e.func, ast.Attribute)):
            return None
        recv = e.func.value
        if isinstance(recv, ast.Call) and pf.dotted(recv.func) == 'super':
            if not recv.args:
                return e.func.attr, fr.owner, None, e, None
            if len(recv.args) == 2 and isinstance(recv.args[0], ast.Name) and pf.nsrc(recv.args[1]) == 'self' and recv.args[0].id in self.classes:
                return e.func.attr, recv.args[0].id, None, e, None
            return None
        if isinstance(recv, ast.Name) and recv.id == 'self':
            if self.resolve(e.func.attr) is not None:
                return e.func.attr, None, None, e, None
            return None
        if isinstance(recv, ast.Name) and recv.id in self.order and e.args and pf.nsrc(e.args[0]) == 'self':
            return e.func.attr, None, recv.id, e, None
        return None

    def _call(self, mc: Tuple[str, Optional[str], Optional[str], ast.Call, Optional[pf.FuncDef]], st: State, fr: _Frame) -> List[Path]:
        """Evaluate the call on a fork of st; every returned path's state has the (forked) caller environment on top of its stack."""
        name, after, at, call, modfn = mc
        if modfn is not None:
            owner, fn, m = '<module>', modfn, self._fn_mod.get(id(modfn), fr.m)
            if decorator_kind(fn)[0] == 'unknown':
                raise AnalysisError(f'{fr.where}: `{name}` is decorated with something that is not understood')
            params = [a.arg for a in fn.args.args]
        else:
            r = self.resolve(name, start_after=after, start_at=at)
            if r is None:
                raise AnalysisError(f'{fr.where}: `{short(pf.nsrc(call), 50)}` resolves to no concrete method')
            owner, fn, m = r
            kind, _ = decorator_kind(fn)
            if kind == 'static':
                raise AnalysisError(f'{fr.where}: call of static method `{name}` is not a recognised shape')
            params = [a.arg for a in fn.args.args][1:]
        args = list(call.args)
        if at is not None:
            args = args[1:]  # explicit self
        if any(isinstance(a, ast.Starred) for a in args) or any(k.arg is None for k in call.keywords) or len(args) > len(params):
            raise AnalysisError(f'{fr.where}: `{short(pf.nsrc(call), 50)}` passes star arguments')
        sub = st.fork()

        def val(a: ast.AST) -> object:
            o = self._obj_of(a, sub)
            if o is not None:
                if decorator_kind(fn)[0] == 'memo':
                    raise AnalysisError(f'{fr.where}: a dict is passed to the memoised `{name}`')
                return o     # the callee's parameter names the caller's object
            return self.subst(a, sub, fr)
        bound: Dict[str, object] = {}
        for p, a in zip(params, args):
            bound[p] = val(a)
        for k in call.keywords:
            if k.arg in bound or k.arg not in params:
                raise AnalysisError(f'{fr.where}: keyword `{k.arg}` of `{name}` does not bind')
            bound[k.arg] = val(k.value)  # type: ignore[index]
        defaults = dict(zip(params[len(params) - len(fn.args.defaults):], fn.args.defaults))
        for p in params:
            if p not in bound:
                if p not in defaults:
                    raise AnalysisError(f'{fr.where}: parameter `{p}` of `{name}` is unbound')
                if isinstance(defaults[p], (ast.Dict, ast.List, ast.Set)):
                    raise AnalysisError(f'{fr.where}: mutable default of `{p}` in `{name}` (retained between calls; not a recognised shape)')
                bound[p] = copy.deepcopy(defaults[p])
        return self._invoke(owner, fn, m, bound, sub, fr.depth - 1)

    # -- statements -----------------------------------------------------------------
    def _truth(self, t: ast.AST, st: State) -> Optional[bool]:
        if isinstance(t, ast.UnaryOp) and isinstance(t.op, ast.Not):
            v = self._truth(t.operand, st)
            return None if v is None else not v
        if isinstance(t, ast.Name):
            v = st.env.get(t.id)
            if isinstance(v, NoneVal):
                return False
            if isinstance(v, Obj) and v.items:
                return True
            return None
        if isinstance(t, ast.Compare) and len(t.ops) == 1 and isinstance(t.ops[0], (ast.Is, ast.IsNot)) and isinstance(t.comparators[0], ast.Constant) \
                and t.comparators[0].value is None and isinstance(t.left, ast.Name):
            v = st.env.get(t.left.id)
            if isinstance(v, NoneVal):
                return isinstance(t.ops[0], ast.Is)
            if isinstance(v, Obj):
                return isinstance(t.ops[0], ast.IsNot)
            return None
        if isinstance(t, ast.BoolOp):
            vals = [self._truth(x, st) for x in t.values]
            if isinstance(t.op, ast.And):
                if any(v is False for v in vals):
                    return False
                return True if all(v is True for v in vals) else None
            if any(v is True for v in vals):
                return True
            return False if all(v is False for v in vals) else None
        return None

    def _event(self, st: State, fr: _Frame, kind: str, node: ast.AST, **kw) -> None:
        ev = dict(kind=kind, where=fr.where, stmt=short(pf.nsrc(node), 90), file=fr.m.path, line=getattr(node, 'lineno', 0), owner=fr.owner, **kw)
        if kind == 'self-store':
            # accumulating = the new value is the old one combined arithmetically with something (x op= e, x = x op e): not idempotent in general
            acc = isinstance(node, ast.AugAssign) and isinstance(node.target, ast.Attribute)
            if isinstance(node, ast.Assign) and isinstance(node.value, ast.BinOp) and isinstance(node.value.op, (ast.Add, ast.Sub, ast.Mult, ast.FloorDiv, ast.Div, ast.Pow)):
                acc = acc or f"self.{kw.get('attr')}" in (pf.nsrc(node.value.left), pf.nsrc(node.value.right))
            ev['accumulating'] = acc
        st.events.append(ev)

    def _mutation(self, o: Obj, node: ast.AST, st: State, fr: _Frame, what: str, key: Optional[str] = None, new: Optional[Sequence[ast.AST]] = None,
                  mode: str = 'overwrite') -> None:
        """An in-place change of o.  mode: 'accumulate' (augmented assignment), 'destroy' (pop / del / clear), 'overwrite' (new value(s) given: accumulating
        iff a new value is computed from the value the same object held under the same key)."""
        if o.prov == 'fresh':
            return
        if mode == 'overwrite':
            for v in new or []:
                for n in ast.walk(v):
                    src = getattr(n, '_c13_src', None)
                    if src is not None and src[0] == o.oid and (key is None or src[1] == key):
                        mode = 'accumulate'
                    if isinstance(n, ast.Subscript) and self._obj_of(n.value, st) is o:
                        mode = 'accumulate'   # a key of an open dict read back
        atoms = sorted({a for v in (new or []) for a in key_atoms(v)})
        self._event(st, fr, 'mutates-shared', node, prov=o.prov, why=o.why, what=what, mode=mode, value_atoms=atoms, memo_atoms=o.memo_atoms)

    def _escape(self, value: ast.AST, target: str, node: ast.AST, st: State, fr: _Frame, key: Optional[ast.AST] = None) -> None:
        o = self._obj_of(value, st)
        if o is not None:
            if o.prov == 'fresh':
                o.prov = 'memo'
                o.why = f'{fr.owner}.{fr.fn.name} keeps it in `{target}` (`{short(pf.nsrc(node), 60)}`) and hands the same object out again'
            k = self.subst(key, st, fr) if key is not None else None
            if k is not None and o.memo_atoms is None:
                o.memo_atoms = sorted(set(key_atoms(k)) | ({'self'} if target.startswith('self.') else set()))
            self._event(st, fr, 'memo-store', node, container=target, key=pf.nsrc(k) if k is not None else None,
                        key_names=key_atoms(k) if k is not None else [],
                        deps=sorted({pf.nsrc(n) for v in o.items.values() for n in ast.walk(v) if isinstance(n, ast.Name) or self_attr(n) is not None}))

    def _bind_value(self, name: str, value: ast.AST, node: ast.stmt, st: State, fr: _Frame) -> List[State]:
        """name = value"""
        if isinstance(value, ast.Await):
            raise AnalysisError(f'{fr.where}: await')
        if isinstance(value, ast.IfExp):
            t = self._truth(value.test, st)
            outs: List[State] = []
            for pol, branch in ((True, value.body), (False, value.orelse)):
                if t is None or t is pol:
                    s2 = st.fork() if t is None else st
                    if t is None:
                        s2.conds.append(('' if pol else 'not ') + short(pf.nsrc(value.test), 40))
                    outs += self._bind_value(name, branch, node, s2, fr)
            return outs
        if isinstance(value, ast.Constant) and value.value is None:
            st.env[name] = NoneVal()
            return [st]
        o = self._obj_of(value, st)
        if o is not None:
            st.env[name] = o   # alias
            return [st]
        if isinstance(value, ast.Call) and self.external_call is not None:
            ext = self.external_call(value)
            if ext is not None:
                st.env[name] = ext
                return [st]
        mc = self._method_call(value, fr)
        if mc is not None:
            outs = []
            for p in self._call(mc, st, fr):
                s2 = p.state
                s2.env = s2.stack.pop()
                s2.env[name] = p.result
                outs.append(s2)
            return outs
        f = self.fresh(value, st, fr)
        if f is not None:
            st.env[name] = f
            return [st]
        st.env[name] = self.subst(value, st, fr)
        return [st]

    def _simple(self, s: ast.stmt, st: State, fr: _Frame) -> List[State]:
        if isinstance(s, (ast.Pass, ast.Global, ast.Nonlocal, ast.Import, ast.ImportFrom)):
            return [st]
        if isinstance(s, ast.Expr) and isinstance(s.value, ast.Constant):
            return [st]
        if isinstance(s, ast.Delete):
            for t in s.targets:
                if isinstance(t, ast.Name):
                    st.env.pop(t.id, None)
                elif isinstance(t, ast.Subscript):
                    o = self._as_dict(t.value, st, fr)
                    if o is None:
                        raise AnalysisError(f'{fr.where}: `{short(pf.nsrc(s), 50)}` is not a recognised shape')
                    self._mutation(o, s, st, fr, 'deletes a key of', mode='destroy')
                    k = pf.const_str(t.slice)
                    if k is None:
                        o.open = True
                    else:
                        o.items.pop(k, None)
                else:
                    raise AnalysisError(f'{fr.where}: `{short(pf.nsrc(s), 50)}` is not a recognised shape')
            return [st]
        if isinstance(s, ast.Assert):
            t = self._truth(s.test, st)
            if t is False:
                return []   # the path ends in AssertionError
            return [st]
        if isinstance(s, ast.AnnAssign):
            if s.value is None:
                return [st]
            targets = [s.target]
            value = s.value
        elif isinstance(s, ast.Assign):
            targets, value = s.targets, s.value
        else:
            targets, value = [], None
        if value is not None and not isinstance(s, ast.AugAssign):
            if len(targets) != 1:
                raise AnalysisError(f'{fr.where}: chained assignment `{short(pf.nsrc(s), 50)}`')
            tg = targets[0]
            if isinstance(tg, ast.Name):
                return self._bind_value(tg.id, value, s, st, fr)
            if isinstance(tg, (ast.Tuple, ast.List)):
                if all(isinstance(x, ast.Name) for x in tg.elts) and self._obj_of(value, st) is None:
                    v = self.subst(value, st, fr)
                    if isinstance(v, (ast.Tuple, ast.List)) and len(v.elts) == len(tg.elts):
                        for x, ve in zip(tg.elts, v.elts):
                            st.env[x.id] = ve  # type: ignore[attr-defined]
                    else:
                        for i, x in enumerate(tg.elts):
                            st.env[x.id] = ast.Subscript(value=copy.deepcopy(v), slice=ast.Constant(value=i), ctx=ast.Load())  # type: ignore[attr-defined]
                    return [st]
                raise AnalysisError(f'{fr.where}: `{short(pf.nsrc(s), 50)}` is not a recognised shape')
            if isinstance(tg, ast.Attribute):
                a = self_attr(tg)
                if a is None:
                    raise AnalysisError(f'{fr.where}: `{short(pf.nsrc(s), 50)}` stores into another object')
                self._escape(value, f'self.{a}', s, st, fr)
                self._event(st, fr, 'self-store', s, attr=a)
                return [st]
            if isinstance(tg, ast.Subscript):
                o = self._obj_of(tg.value, st)
                if o is None:
                    sr = state_read(tg.value, self._locals(st, fr)) or (tg.value.id if isinstance(tg.value, ast.Name) and tg.value.id not in self._locals(st, fr) else None)
                    if sr is not None and not isinstance(st.env.get(getattr(tg.value, 'id', ''), None), ast.AST):
                        # self.cache[key] = v / GLOBAL[key] = v
                        self._escape(value, sr, s, st, fr, key=tg.slice)
                        if sr.startswith('self.'):
                            self._event(st, fr, 'self-store', s, attr=sr[5:])
                        return [st]
                    o = self._as_dict(tg.value, st, fr)
                    if o is None:
                        raise AnalysisError(f'{fr.where}: `{short(pf.nsrc(s), 50)}` updates something that is not a recognised dict')
                    if isinstance(tg.value, ast.Name):
                        st.env[tg.value.id] = o
                k = pf.const_str(tg.slice)
                if self._obj_of(value, st) is not None:
                    raise AnalysisError(f'{fr.where}: nested dict in `{short(pf.nsrc(s), 50)}`')
                nv = self.subst(value, st, fr)
                self._mutation(o, s, st, fr, 'overwrites a key of', key=k, new=[nv])
                if k is None:
                    o.open = True
                else:
                    o.items[k] = nv
                return [st]
            raise AnalysisError(f'{fr.where}: `{short(pf.nsrc(s), 50)}` is not a recognised shape')
        if isinstance(s, ast.AugAssign):
            tg = s.target
            if isinstance(tg, ast.Name):
                cur = st.env.get(tg.id)
                if isinstance(cur, Obj) and isinstance(s.op, ast.BitOr):
                    other = self._as_dict(s.value, st, fr) or self.fresh(s.value, st, fr)
                    if other is None:
                        raise AnalysisError(f'{fr.where}: `{short(pf.nsrc(s), 50)}` is not a recognised shape')
                    self._mutation(cur, s, st, fr, 'updates', new=list(other.items.values()))
                    cur.items.update({k: copy.deepcopy(v) for k, v in other.items.items()})
                    cur.open = cur.open or other.open
                    return [st]
                if isinstance(cur, (Obj, NoneVal)):
                    raise AnalysisError(f'{fr.where}: `{short(pf.nsrc(s), 50)}` is not a recognised shape')
                left = copy.deepcopy(cur) if isinstance(cur, ast.AST) else ast.Name(id=tg.id, ctx=ast.Load())
                st.env[tg.id] = ast.BinOp(left=left, op=s.op, right=self.subst(s.value, st, fr))
                return [st]
            if isinstance(tg, ast.Attribute):
                a = self_attr(tg)
                if a is None:
                    raise AnalysisError(f'{fr.where}: `{short(pf.nsrc(s), 50)}` stores into another object')
                self._event(st, fr, 'self-store', s, attr=a)
                return [st]
            if isinstance(tg, ast.Subscript):
                o = self._as_dict(tg.value, st, fr)
                if o is None:
                    raise AnalysisError(f'{fr.where}: `{short(pf.nsrc(s), 50)}` updates something that is not a recognised dict')
                if isinstance(tg.value, ast.Name) and not isinstance(st.env.get(tg.value.id), Obj):
                    st.env[tg.value.id] = o
                if o.prov == 'state' and self_attr(tg.value) is not None:
                    self._event(st, fr, 'self-store', s, attr=self_attr(tg.value))
                    return [st]
                self._mutation(o, s, st, fr, 'updates in place a value of', mode='accumulate')
                k = pf.const_str(tg.slice)
                if k is None:
                    o.open = True
                    return [st]
                if k in o.items:
                    old: ast.expr = copy.deepcopy(o.items[k])
                elif o.open:
                    ld = copy.deepcopy(tg)
                    ld.ctx = ast.Load()
                    old = ld
                else:
                    raise AnalysisError(f"{fr.where}: `{short(pf.nsrc(s), 50)}` updates a key the dict does not have")
                o.items[k] = ast.BinOp(left=old, op=s.op, right=self.subst(s.value, st, fr))
                return [st]
            raise AnalysisError(f'{fr.where}: `{short(pf.nsrc(s), 50)}` is not a recognised shape')
        if isinstance(s, ast.Expr):
            v = s.value
            mc = self._method_call(v, fr)
            if mc is not None:
                # a helper called for its effect (e.g. self._scale(d)): evaluated on the same objects
                outs = []
                for p in self._call(mc, st, fr):
                    s2 = p.state
                    s2.env = s2.stack.pop()
                    outs.append(s2)
                return outs
            if isinstance(v, ast.Call) and isinstance(v.func, ast.Attribute):
                recv = v.func.value
                o = self._obj_of(recv, st)
                meth = v.func.attr
                if o is None and meth in _MUTATORS:
                    o = self._as_dict(recv, st, fr)
                    if o is not None and o.prov == 'state' and (self_attr(recv) is not None or state_read(recv, self._locals(st, fr)) is not None) and not isinstance(recv, ast.Name):
                        # self.cache.update(...) / self.cache.setdefault(k, v): a store into state
                        for a in list(v.args) + [k.value for k in v.keywords]:
                            self._escape(a, pf.nsrc(recv), s, st, fr)
                        sa = state_read(recv, self._locals(st, fr)) or ''
                        if sa.startswith('self.'):
                            self._event(st, fr, 'self-store', s, attr=sa[5:])
                        return [st]
                if o is not None:
                    if isinstance(recv, ast.Name) and not isinstance(st.env.get(recv.id), Obj):
                        st.env[recv.id] = o
                    if meth == 'update':
                        if len(v.args) > 1:
                            raise AnalysisError(f'{fr.where}: `{short(pf.nsrc(s), 50)}`')
                        newvals: List[Tuple[Optional[str], ast.AST]] = []
                        for src_e in list(v.args) + [k.value for k in v.keywords if k.arg is None]:
                            other = self._as_dict(src_e, st, fr, allow_state=False) or self.fresh(src_e, st, fr)
                            if other is None:
                                newvals.append((None, self.subst(src_e, st, fr)))
                            else:
                                newvals += [(kk, vv) for kk, vv in other.items.items()]
                        newvals += [(k.arg, self.subst(k.value, st, fr)) for k in v.keywords if k.arg is not None]
                        acc = False
                        for kk, vv in newvals:
                            for n in ast.walk(vv):
                                src = getattr(n, '_c13_src', None)
                                if src is not None and src[0] == o.oid and (kk is None or src[1] == kk):
                                    acc = True
                        self._mutation(o, s, st, fr, 'updates', new=[vv for _, vv in newvals], mode='accumulate' if acc else 'overwrite')
                        if v.args:
                            other = self._as_dict(v.args[0], st, fr, allow_state=False) or self.fresh(v.args[0], st, fr)
                            if other is None:
                                o.open = True
                                o.items = {}
                            else:
                                o.items.update({k: copy.deepcopy(x) for k, x in other.items.items()})
                                o.open = o.open or other.open
                        for k in v.keywords:
                            if k.arg is None:
                                other = self._as_dict(k.value, st, fr, allow_state=False) or self.fresh(k.value, st, fr)
                                if other is None:
                                    o.open = True
                                    o.items = {}
                                else:
                                    o.items.update({kk: copy.deepcopy(x) for kk, x in other.items.items()})
                            else:
                                o.items[k.arg] = self.subst(k.value, st, fr)
                        return [st]
                    if meth in ('pop', 'setdefault', 'clear', 'popitem', '__setitem__', '__delitem__'):
                        if meth == 'setdefault':
                            self._mutation(o, s, st, fr, f'calls .{meth}() on', new=[self.subst(a, st, fr) for a in v.args[1:]])
                        else:
                            self._mutation(o, s, st, fr, f'calls .{meth}() on', mode='destroy')
                        k = pf.const_str(v.args[0]) if v.args else None
                        if meth == 'pop' and k is not None:
                            o.items.pop(k, None)
                        elif meth == 'setdefault' and k is not None and len(v.args) == 2:
                            if k not in o.items:
                                if o.open:
                                    o.items.pop(k, None)
                                else:
                                    o.items[k] = self.subst(v.args[1], st, fr)
                        elif meth == 'clear':
                            o.items, o.open = {}, False
                        else:
                            o.items, o.open = {}, True
                        return [st]
                    if meth in ('get', 'keys', 'values', 'items'):
                        return [st]
                    raise AnalysisError(f'{fr.where}: `{short(pf.nsrc(s), 50)}` is not a recognised shape')
                # list sink:  acc.append(d)
                if meth in ('append', 'extend', 'add') and isinstance(recv, ast.Name) and len(v.args) == 1 and not v.keywords:
                    a = v.args[0]
                    ao = self._obj_of(a, st)
                    st.sinks.append((recv.id, copy.deepcopy(ao) if ao is not None else self.subst(a, st, fr)))
                    return [st]
                if meth in ('append', 'extend', 'add', 'setdefault', 'update', '__setitem__') and state_read(recv, self._locals(st, fr)) is not None:
                    for a in list(v.args) + [k.value for k in v.keywords]:
                        self._escape(a, pf.nsrc(recv), s, st, fr)
                    sa = state_read(recv, self._locals(st, fr)) or ''
                    if sa.startswith('self.'):
                        self._event(st, fr, 'self-store', s, attr=sa[5:])
                    return [st]
            # any other expression statement: a tracked dict must not be handed to unknown code
            self._no_escape(s, st, fr)
            return [st]
        if isinstance(s, ast.Raise):
            return []
        raise AnalysisError(f'{fr.where}: statement `{short(pf.nsrc(s), 50)}` is not a recognised shape')

    def _no_escape(self, node: ast.AST, st: State, fr: _Frame) -> None:
        for c in ast.walk(node):
            if isinstance(c, ast.Call):
                head = (pf.dotted(c.func) or '').split('.')[0]
                if head in _LOGGERS or pf.dotted(c.func) in ('len', 'str', 'repr', 'print', 'bool', 'isinstance'):
                    continue
                for a in list(c.args) + [k.value for k in c.keywords]:
                    if self._obj_of(a, st) is not None:
                        raise AnalysisError(f'{fr.where}: the dict `{pf.nsrc(a)}` is passed to `{short(pf.nsrc(c.func), 40)}` (not followed)')

    def _return(self, value: Optional[ast.AST], node: ast.stmt, st: State, fr: _Frame) -> None:
        if value is None or (isinstance(value, ast.Constant) and value.value is None):
            fr.finished.append(Path(NoneVal(), st))
            return
        if isinstance(value, ast.IfExp):
            t = self._truth(value.test, st)
            for pol, branch in ((True, value.body), (False, value.orelse)):
                if t is None or t is pol:
                    s2 = st.fork() if t is None else st
                    if t is None:
                        s2.conds.append(('' if pol else 'not ') + short(pf.nsrc(value.test), 40))
                    self._return(branch, node, s2, fr)
            return
        if isinstance(value, ast.Name):
            v = st.env.get(value.id)
            if isinstance(v, (Obj, NoneVal)):
                fr.finished.append(Path(v, st))
                return
        mc = self._method_call(value, fr)
        if mc is not None:
            for p in self._call(mc, st, fr):
                s2 = p.state
                s2.env = s2.stack.pop()
                fr.finished.append(Path(p.result, s2))
            return
        f = self.fresh(value, st, fr)
        if f is not None:
            fr.finished.append(Path(f, st))
            return
        o = self._as_dict(value, st, fr)
        if o is not None:
            fr.finished.append(Path(o, st))
            return
        self._no_escape(value, st, fr)
        fr.finished.append(Path(self.subst(value, st, fr), st))

    def _block(self, stmts: Sequence[ast.stmt], states: List[State], fr: _Frame) -> List[State]:
        for s in stmts:
            if not states:
                return []
            if len(states) + len(fr.finished) > self.MAX_PATHS:
                raise AnalysisError(f'{fr.where}: too many paths')
            nxt: List[State] = []
            for st in states:
                if isinstance(s, ast.If):
                    t = self._truth(s.test, st)
                    self._no_escape(s.test, st, fr)
                    if t is None:
                        a, b = st.fork(), st
                        a.conds.append(short(pf.nsrc(s.test), 50))
                        b.conds.append('not (' + short(pf.nsrc(s.test), 50) + ')')
                        nxt += self._block(s.body, [a], fr)
                        nxt += self._block(s.orelse, [b], fr)
                    else:
                        nxt += self._block(s.body if t else s.orelse, [st], fr)
                elif isinstance(s, ast.Return):
                    self._return(s.value, s, st, fr)
                elif isinstance(s, (ast.For, ast.AsyncFor, ast.While, ast.Try, ast.With, ast.AsyncWith, ast.FunctionDef, ast.AsyncFunctionDef, ast.ClassDef)) \
                        or (hasattr(ast, 'Match') and isinstance(s, ast.Match)):
                    raise AnalysisError(f'{fr.where}: {type(s).__name__} statement is not a recognised shape')
                else:
                    nxt += self._simple(s, st, fr)
            states = nxt
        return states


# --------------------------------------------------------------------------------------
# single-definition locals, including tuple unpacking  (a, b = E  ->  a = E[0], b = E[1])
# --------------------------------------------------------------------------------------


def local_defs(fn: pf.FuncDef) -> Dict[str, Optional[ast.expr]]:
    """name -> its only defining expression in fn (None when defined several times / opaquely)."""
    out: Dict[str, Optional[ast.expr]] = {}

    def put(name: str, v: Optional[ast.expr]) -> None:
        out[name] = v if name not in out else None

    for a in list(fn.args.posonlyargs) + list(fn.args.args) + list(fn.args.kwonlyargs):
        out[a.arg] = None
    for n in pf.walk_shallow(fn):
        if isinstance(n, ast.Assign):
            for t in n.targets:
                if isinstance(t, ast.Name):
                    put(t.id, n.value)
                elif isinstance(t, (ast.Tuple, ast.List)) and all(isinstance(x, ast.Name) for x in t.elts):
                    for i, x in enumerate(t.elts):
                        if isinstance(n.value, (ast.Tuple, ast.List)) and len(n.value.elts) == len(t.elts):
                            put(x.id, n.value.elts[i])  # type: ignore[attr-defined]
                        else:
                            put(x.id, ast.Subscript(value=n.value, slice=ast.Constant(value=i), ctx=ast.Load()))  # type: ignore[attr-defined]
                else:
                    for x in ast.walk(t):
                        if isinstance(x, ast.Name) and isinstance(x.ctx, ast.Store):
                            put(x.id, None)
        elif isinstance(n, ast.AnnAssign) and isinstance(n.target, ast.Name) and n.value is not None:
            put(n.target.id, n.value)
        elif isinstance(n, ast.AugAssign) and isinstance(n.target, ast.Name):
            put(n.target.id, None)
            out[n.target.id] = None
        elif isinstance(n, (ast.For, ast.AsyncFor)):
            for x in ast.walk(n.target):
                if isinstance(x, ast.Name):
                    put(x.id, None)
                    out[x.id] = None
        elif isinstance(n, (ast.With, ast.AsyncWith)):
            for i in n.items:
                if i.optional_vars is not None:
                    for x in ast.walk(i.optional_vars):
                        if isinstance(x, ast.Name):
                            out[x.id] = None
        elif isinstance(n, ast.NamedExpr) and isinstance(n.target, ast.Name):
            put(n.target.id, n.value)
    return out


def expand(fn: pf.FuncDef, e: ast.AST, depth: int = 5) -> ast.expr:
    """Copy of e with single-definition locals (tuple unpacking included) replaced by their definitions; comprehension variables are left alone."""
    defs = local_defs(fn)

    class T(ast.NodeTransformer):
        def __init__(self, d: int, hidden: Set[str]):
            self.d, self.hidden = d, hidden

        def visit_Name(self, node: ast.Name):
            if isinstance(node.ctx, ast.Load) and node.id not in self.hidden and self.d > 0 and defs.get(node.id) is not None:
                return T(self.d - 1, self.hidden).visit(copy.deepcopy(defs[node.id]))
            return node

        def _comp(self, node):
            bound = {n.id for g in node.generators for n in ast.walk(g.target) if isinstance(n, ast.Name)}
            return T(self.d, self.hidden | bound).generic_visit(node)

        visit_ListComp = visit_SetComp = visit_DictComp = visit_GeneratorExp = _comp

        def visit_Lambda(self, node):
            return node
    return T(depth, set()).visit(copy.deepcopy(e))


# --------------------------------------------------------------------------------------
# accumulate loops as comprehensions
# --------------------------------------------------------------------------------------


def _subst_seq(e: ast.AST, env: Dict[str, ast.expr]) -> ast.expr:
    class T(ast.NodeTransformer):
        def __init__(self, hidden: Set[str]):
            self.hidden = hidden

        def visit_Name(self, node: ast.Name):
            if isinstance(node.ctx, ast.Load) and node.id in env and node.id not in self.hidden:
                return copy.deepcopy(env[node.id])
            return node

        def _comp(self, node):
            bound = {n.id for g in node.generators for n in ast.walk(g.target) if isinstance(n, ast.Name)}
            return T(self.hidden | bound).generic_visit(node)

        visit_ListComp = visit_SetComp = visit_DictComp = visit_GeneratorExp = _comp

        def visit_Lambda(self, node):
            return node
    return T(set()).visit(copy.deepcopy(e))


def _empty_collection(e: ast.AST) -> Optional[str]:
    if isinstance(e, ast.Dict) and not e.keys:
        return 'dict'
    if isinstance(e, ast.List) and not e.elts:
        return 'list'
    if isinstance(e, ast.Call) and not e.args and not e.keywords and pf.dotted(e.func) in ('dict', 'list', 'set'):
        return pf.dotted(e.func)
    return None


def comprehend_loops(stmts: Sequence[ast.stmt]) -> List[ast.stmt]:
    """Statement list in which every loop of the shape
           acc = {} | [] | set()           (earlier in the same block, acc untouched in between)
           for T in IT:
               x = ...; y = ...; assert ...        (single-target assignments to names, assertions)
               acc[K] = V   |   acc.append(V)   |   acc.add(V)
       is replaced by  acc = {K: V for T in IT}  /  [V for T in IT]  /  {V for T in IT}  with the body's locals substituted.  Other loops are kept
       (the callers then decline).  Blocks nested in if / with statements are rewritten too.  The input is not modified."""
    out: List[ast.stmt] = []
    for st in stmts:
        if isinstance(st, ast.If):
            st2 = copy.copy(st)
            st2.body = comprehend_loops(st.body)
            st2.orelse = comprehend_loops(st.orelse)
            out.append(st2)
            continue
        if isinstance(st, ast.For) and not st.orelse and st.body:
            env: Dict[str, ast.expr] = {}
            ok = True
            for b in st.body[:-1]:
                if isinstance(b, ast.Assert) or (isinstance(b, ast.Expr) and isinstance(b.value, ast.Constant)):
                    continue
                if isinstance(b, ast.Assign) and len(b.targets) == 1 and isinstance(b.targets[0], ast.Name):
                    env[b.targets[0].id] = _subst_seq(b.value, env)
                elif isinstance(b, ast.AnnAssign) and isinstance(b.target, ast.Name) and b.value is not None:
                    env[b.target.id] = _subst_seq(b.value, env)
                else:
                    ok = False
                    break
            last = st.body[-1]
            acc = key = val = None
            if ok and isinstance(last, ast.Assign) and len(last.targets) == 1 and isinstance(last.targets[0], ast.Subscript) and isinstance(last.targets[0].value, ast.Name):
                acc, key, val = last.targets[0].value.id, _subst_seq(last.targets[0].slice, env), _subst_seq(last.value, env)
            elif ok and isinstance(last, ast.Expr) and isinstance(last.value, ast.Call) and isinstance(last.value.func, ast.Attribute) and last.value.func.attr in ('append', 'add') \
                    and isinstance(last.value.func.value, ast.Name) and len(last.value.args) == 1 and not last.value.keywords:
                acc, val = last.value.func.value.id, _subst_seq(last.value.args[0], env)
            if acc is not None and acc not in env and not any(isinstance(n, ast.Name) and n.id == acc for n in ast.walk(st.iter)):
                # the accumulator's latest definition in this block must be an empty collection, untouched since
                kind = None
                for prev in reversed(out):
                    names = {n.id for n in ast.walk(prev) if isinstance(n, ast.Name)}
                    if isinstance(prev, (ast.Assign, ast.AnnAssign)) and (prev.targets[0] if isinstance(prev, ast.Assign) else prev.target) is not None:
                        tg = prev.targets[0] if isinstance(prev, ast.Assign) else prev.target
                        if isinstance(tg, ast.Name) and tg.id == acc and prev.value is not None:
                            kind = _empty_collection(prev.value)
                            break
                    if acc in names:
                        break
                gen = ast.comprehension(target=copy.deepcopy(st.target), iter=copy.deepcopy(st.iter), ifs=[], is_async=0)
                comp: Optional[ast.expr] = None
                if kind == 'dict' and key is not None:
                    comp = ast.DictComp(key=key, value=val, generators=[gen])
                elif kind == 'list' and key is None and isinstance(last, ast.Expr) and last.value.func.attr == 'append':  # type: ignore[attr-defined]
                    comp = ast.ListComp(elt=val, generators=[gen])
                elif kind == 'set' and key is None and isinstance(last, ast.Expr) and last.value.func.attr == 'add':  # type: ignore[attr-defined]
                    comp = ast.SetComp(elt=val, generators=[gen])
                if comp is not None:
                    new = ast.Assign(targets=[ast.Name(id=acc, ctx=ast.Store())], value=comp, lineno=st.lineno, col_offset=st.col_offset)
                    ast.fix_missing_locations(new)
                    ast.copy_location(new, st)
                    for n in ast.walk(new):
                        if not hasattr(n, 'lineno'):
                            n.lineno = st.lineno  # type: ignore[attr-defined]
                            n.col_offset = st.col_offset  # type: ignore[attr-defined]
                    out.append(new)
                    continue
        out.append(st)
    return out


# --------------------------------------------------------------------------------------
# affine forms with rounding slack over one integer symbol (C13 R6: whole-worker memory of the machine table vs the per-core memory jobs are given)
# --------------------------------------------------------------------------------------

from fractions import Fraction  # noqa: E402


class Aff:
    """k*x + [lo, hi] for ONE integer symbol x >= 1: for every x the value of the expression lies in that interval (k, lo, hi rational).
    Roundings (int / floor / ceil / round / //) widen [lo, hi] unless the operand is integral for every integer x."""
    __slots__ = ('k', 'lo', 'hi')

    def __init__(self, k, lo, hi):
        self.k, self.lo, self.hi = Fraction(k), Fraction(lo), Fraction(hi)

    def is_const(self) -> bool:
        return self.k == 0 and self.lo == self.hi

    def integral(self) -> bool:
        return self.k.denominator == 1 and self.lo == self.hi and self.lo.denominator == 1

    def __repr__(self) -> str:
        return f'{self.k}*x+[{self.lo},{self.hi}]'


class NotApplicable(Exception):
    """the evaluated function rejects these (constant) arguments: an assertion on them fails / a table has no such key"""


class AffUndecided(Exception):
    """outside the fragment: no verdict"""


class _DictRef:
    def __init__(self, m: pf.Module, node: ast.Dict):
        self.m, self.node = m, node


class AffEval:
    """Abstract execution of module-level arithmetic helpers over values  Aff | str | bool | None | tuple | _DictRef (a module-level dict literal):
    straight-line bodies, if / elif chains whose tests the constants decide (explicit case split by the caller: one evaluation per table entry),
    assertions on constants, subscripts of dict literals by constant keys."""

    def __init__(self, m: pf.Module, env: Dict[str, object], depth: int = 6):
        self.m, self.env, self.depth = m, env, depth

    def ev(self, e: ast.AST) -> object:
        if isinstance(e, ast.Constant):
            v = e.value
            if isinstance(v, bool) or v is None or isinstance(v, str):
                return v
            if isinstance(v, (int, float)):
                return Aff(0, Fraction(v), Fraction(v))
            raise AffUndecided(f'constant {v!r}')
        if isinstance(e, ast.Name):
            if e.id in self.env:
                return self.env[e.id]
            try:
                g = self.m.global_assign(e.id)
            except AnalysisError:
                raise AffUndecided(f'unbound name {e.id}')
            if isinstance(g, ast.Dict):
                return _DictRef(self.m, g)
            if self.depth <= 0:
                raise AffUndecided('too deep')
            return AffEval(self.m, {}, self.depth - 1).ev(g)
        if isinstance(e, ast.Tuple):
            return tuple(self.ev(x) for x in e.elts)
        if isinstance(e, ast.UnaryOp) and isinstance(e.op, ast.USub):
            a = self.num(e.operand)
            return Aff(-a.k, -a.hi, -a.lo)
        if isinstance(e, ast.UnaryOp) and isinstance(e.op, ast.Not):
            v = self.ev(e.operand)
            if isinstance(v, bool):
                return not v
            raise AffUndecided(f'truth of `{pf.nsrc(e)}`')
        if isinstance(e, ast.BoolOp):
            vs = [self.ev(x) for x in e.values]
            if all(isinstance(v, bool) for v in vs):
                return all(vs) if isinstance(e.op, ast.And) else any(vs)
            raise AffUndecided(f'truth of `{pf.nsrc(e)}`')
        if isinstance(e, ast.BinOp):
            a, b = self.num(e.left), self.num(e.right)
            if isinstance(e.op, ast.Add):
                return Aff(a.k + b.k, a.lo + b.lo, a.hi + b.hi)
            if isinstance(e.op, ast.Sub):
                return Aff(a.k - b.k, a.lo - b.hi, a.hi - b.lo)
            if isinstance(e.op, ast.Mult):
                if not (a.is_const() or b.is_const()):
                    raise AffUndecided(f'non-linear `{pf.nsrc(e)}`')
                c, o = (a.lo, b) if a.is_const() else (b.lo, a)
                lo, hi = sorted((o.lo * c, o.hi * c))
                return Aff(o.k * c, lo, hi)
            if isinstance(e.op, (ast.Div, ast.FloorDiv)):
                if not b.is_const() or b.lo <= 0:
                    raise AffUndecided(f'division by a non-constant in `{pf.nsrc(e)}`')
                r = Aff(a.k / b.lo, a.lo / b.lo, a.hi / b.lo)
                if isinstance(e.op, ast.FloorDiv):
                    r = self._round(r, 'floor')
                return r
            if isinstance(e.op, ast.Pow) and a.is_const() and b.is_const() and b.lo.denominator == 1 and 0 <= b.lo <= 64:
                v = a.lo ** int(b.lo)
                return Aff(0, v, v)
            raise AffUndecided(f'operator in `{pf.nsrc(e)}`')
        if isinstance(e, ast.Compare) and len(e.ops) == 1:
            a, b = self.ev(e.left), self.ev(e.comparators[0])
            op = e.ops[0]
            if isinstance(op, (ast.In, ast.NotIn)) and isinstance(b, _DictRef):
                keys = [AffEval(b.m, {}, self.depth - 1).ev(k) if k is not None else None for k in b.node.keys]
                if any(k is None or isinstance(k, (Aff, _DictRef)) for k in keys) or isinstance(a, (Aff, _DictRef)):
                    raise AffUndecided(f'membership `{pf.nsrc(e)}`')
                return (a in keys) if isinstance(op, ast.In) else (a not in keys)
            ca, cb = self.constant(a), self.constant(b)
            if isinstance(op, (ast.Eq, ast.NotEq)) and ca is not _NOCONST and cb is not _NOCONST:
                return (ca == cb) if isinstance(op, ast.Eq) else (ca != cb)
            if isinstance(op, (ast.Is, ast.IsNot)) and b is None and (a is None or isinstance(a, (str, bool, Aff, tuple))):
                return (a is None) if isinstance(op, ast.Is) else (a is not None)
            raise AffUndecided(f'comparison `{pf.nsrc(e)}`')
        if isinstance(e, ast.Subscript):
            d, k = self.ev(e.value), self.ev(e.slice)
            if isinstance(d, _DictRef) and self.constant(k) is not _NOCONST:
                sub = AffEval(d.m, {}, self.depth - 1)
                for kk, vv in zip(d.node.keys, d.node.values):
                    if kk is None:
                        raise AffUndecided('** in a table')
                    if self.constant(sub.ev(kk)) == self.constant(k):
                        return sub.ev(vv)
                raise NotApplicable(f'{pf.nsrc(e.value)} has no key {self.constant(k)!r}')
            raise AffUndecided(f'subscript `{pf.nsrc(e)}`')
        if isinstance(e, ast.Call):
            f = pf.dotted(e.func) or ''
            if e.keywords and f in ('int', 'float', 'round', 'math.floor', 'math.ceil'):
                raise AffUndecided(f'`{pf.nsrc(e)}`')
            if f in ('int', 'math.floor', 'floor', 'math.trunc') and len(e.args) == 1:
                return self._round(self.num(e.args[0]), 'floor')
            if f in ('math.ceil', 'ceil') and len(e.args) == 1:
                return self._round(self.num(e.args[0]), 'ceil')
            if f == 'round' and len(e.args) == 1:
                return self._round(self.num(e.args[0]), 'round')
            if f == 'float' and len(e.args) == 1:
                return self.num(e.args[0])
            if isinstance(e.func, ast.Name) and self.m.has_func(e.func.id) and self.depth > 0:
                fn = self.m.func(e.func.id)
                return self.call(fn, [self.ev(a) for a in e.args], {k.arg: self.ev(k.value) for k in e.keywords if k.arg is not None})
            raise AffUndecided(f'call `{short(pf.nsrc(e), 50)}`')
        raise AffUndecided(f'expression `{short(pf.nsrc(e), 50)}`')

    @staticmethod
    def _round(a: Aff, how: str) -> Aff:
        """floor / ceil / round-half of a non-negative quantity: exact on constants and on forms that are integral for every integer x, else one unit of slack"""
        import math
        if a.integral():
            return a
        if a.k == 0:
            f = {'floor': math.floor, 'ceil': math.ceil, 'round': lambda v: math.floor(v + Fraction(1, 2))}[how]
            return Aff(0, f(a.lo), f(a.hi))
        if how == 'floor':
            return Aff(a.k, a.lo - 1, a.hi)
        if how == 'ceil':
            return Aff(a.k, a.lo, a.hi + 1)
        return Aff(a.k, a.lo - Fraction(1, 2), a.hi + Fraction(1, 2))

    @staticmethod
    def constant(v: object) -> object:
        if isinstance(v, Aff):
            return v.lo if v.is_const() else _NOCONST
        if isinstance(v, tuple):
            parts = [AffEval.constant(x) for x in v]
            return _NOCONST if any(p is _NOCONST for p in parts) else tuple(parts)
        if isinstance(v, _DictRef):
            return _NOCONST
        return v

    def num(self, e: ast.AST) -> Aff:
        v = self.ev(e)
        if not isinstance(v, Aff):
            raise AffUndecided(f'`{short(pf.nsrc(e), 40)}` is not a number')
        return v

    def call(self, fn: pf.FuncDef, args: Sequence[object], kwargs: Dict[str, object]) -> object:
        ps = [a.arg for a in list(fn.args.posonlyargs) + list(fn.args.args)]
        if fn.args.vararg or fn.args.kwarg or len(args) > len(ps) or any(k not in ps for k in kwargs):
            raise AffUndecided(f'call of {fn.name}')
        env: Dict[str, object] = dict(zip(ps, args))
        env.update(kwargs)
        if set(env) != set(ps):
            raise AffUndecided(f'call of {fn.name}: arguments')
        sub = AffEval(self.m, env, self.depth - 1)
        r = sub.block(fn.body)
        if r is _FALLS:
            raise AffUndecided(f'{fn.name} returns nothing')
        return r

    def block(self, stmts: Sequence[ast.stmt]) -> object:
        for st in stmts:
            if isinstance(st, ast.Expr) and isinstance(st.value, ast.Constant):
                continue
            if isinstance(st, ast.Pass):
                continue
            if isinstance(st, ast.Assign) and len(st.targets) == 1 and isinstance(st.targets[0], ast.Name):
                self.env[st.targets[0].id] = self.ev(st.value)
            elif isinstance(st, ast.AnnAssign) and isinstance(st.target, ast.Name) and st.value is not None:
                self.env[st.target.id] = self.ev(st.value)
            elif isinstance(st, ast.Assert):
                try:
                    v = self.ev(st.test)
                except AffUndecided:
                    continue
                if v is False:
                    raise NotApplicable(f'`assert {short(pf.nsrc(st.test), 50)}` fails')
            elif isinstance(st, ast.Return):
                if st.value is None:
                    return None
                return self.ev(st.value)
            elif isinstance(st, ast.Raise):
                raise NotApplicable(f'`{short(pf.nsrc(st), 50)}`')
            elif isinstance(st, ast.If):
                v = self.ev(st.test)
                if not isinstance(v, bool):
                    raise AffUndecided(f'test `{short(pf.nsrc(st.test), 50)}` is not decided by the constants')
                r = self.block(st.body if v else st.orelse)
                if r is not _FALLS:
                    return r
            else:
                raise AffUndecided(f'statement `{short(pf.nsrc(st), 50)}`')
        return _FALLS


_NOCONST = object()
_FALLS = object()


# --------------------------------------------------------------------------------------
# pure helpers seen through (C13 R3: the worker fraction computed by an extracted function / method)
# --------------------------------------------------------------------------------------


def resolve_imported(m: pf.Module, name: str, depth: int = 3) -> Optional[Tuple[pf.Module, ast.AST]]:
    """(module, def / assigned value) of the global `name` of m: defined in m, or in the repository module m imports it from."""
    import os
    from .common import repo_path
    for st in m.tree.body:
        if isinstance(st, (ast.FunctionDef, ast.AsyncFunctionDef)) and st.name == name:
            return m, st
        if isinstance(st, ast.Assign) and len(st.targets) == 1 and isinstance(st.targets[0], ast.Name) and st.targets[0].id == name:
            return m, st.value
        if isinstance(st, ast.AnnAssign) and isinstance(st.target, ast.Name) and st.target.id == name and st.value is not None:
            return m, st.value
    origin = m.imports().get(name)
    if origin is None or depth <= 0:
        return None
    level = len(origin) - len(origin.lstrip('.'))
    parts = origin.lstrip('.').split('.')
    sym, modparts = parts[-1], parts[:-1]
    if level == 0:
        cands = [os.path.join(root, *modparts) for root in ('batch', 'hail/python', 'gear', 'web_common', '')]
    else:
        base = os.path.dirname(m.rel)
        for _ in range(level - 1):
            base = os.path.dirname(base)
        cands = [os.path.join(base, *modparts)] if modparts else [base]
    for c in cands:
        for rel in (c + '.py', os.path.join(c, '__init__.py')):
            if os.path.isfile(repo_path(rel)):
                try:
                    return resolve_imported(pf.load(rel), sym, depth - 1)
                except AnalysisError:
                    return None
    return None


def pure_return(fn: pf.FuncDef) -> Optional[ast.expr]:
    """The value a function returns as ONE expression over its parameters, when its body is docstring / asserts / single-target assignments and a final
    `return <expr>` (assignments substituted in program order, so `x = f(x)` re-assignments are fine).  None: not such a function."""
    if isinstance(fn, ast.AsyncFunctionDef) or fn.args.vararg or fn.args.kwarg:
        return None
    if any(True for n in pf.walk_shallow(fn) if isinstance(n, (ast.Yield, ast.YieldFrom, ast.Await, ast.Global, ast.Nonlocal))):
        return None
    body = [s for s in fn.body if not (isinstance(s, ast.Expr) and isinstance(s.value, ast.Constant)) and not isinstance(s, (ast.Assert, ast.Pass))]
    if not body or not isinstance(body[-1], ast.Return) or body[-1].value is None:
        return None
    env: Dict[str, ast.expr] = {}
    for s in body[:-1]:
        if isinstance(s, ast.Assign) and len(s.targets) == 1 and isinstance(s.targets[0], ast.Name):
            env[s.targets[0].id] = _subst_seq(s.value, env)
        elif isinstance(s, ast.AnnAssign) and isinstance(s.target, ast.Name) and s.value is not None:
            env[s.target.id] = _subst_seq(s.value, env)
        else:
            return None
    return _subst_seq(body[-1].value, env)


def inline_pure(e: ast.AST, m: pf.Module, cls_name: Optional[str], classes: Classes, depth: int = 3) -> Tuple[ast.expr, List[str]]:
    """Copy of e in which every call of a pure helper - a module-level function of m (or of the repository module it is imported from), or a method of
    `cls_name` / its analysed bases called as self.h(..) / cls.h(..) / Cls.h(..) - is replaced by the expression the helper returns, with the
    arguments substituted for its parameters (defaults filled in; `self` stays `self`).  Calls that do not fit are left alone.  Returns (expression,
    names of the helpers seen through)."""
    seen: List[str] = []

    def callee(c: ast.Call, mod: pf.Module) -> Optional[Tuple[pf.Module, pf.FuncDef, bool, str]]:
        f = c.func
        if isinstance(f, ast.Name):
            r = resolve_imported(mod, f.id)
            if r is not None and isinstance(r[1], ast.FunctionDef):
                return r[0], r[1], False, f.id
            return None
        if isinstance(f, ast.Attribute) and isinstance(f.value, ast.Name) and cls_name is not None:
            order = mro(cls_name, classes) or [cls_name]
            if f.value.id in ('self', 'cls') or f.value.id in order:
                for cn in order:
                    if cn not in classes:
                        continue
                    mm, cd = classes[cn]
                    fn = methods(cd).get(f.attr)
                    if fn is not None:
                        kind, _ = decorator_kind(fn)
                        if kind == 'plain':
                            return (mm, fn, True, f'{cn}.{f.attr}') if f.value.id == 'self' else None
                        if kind == 'static' and isinstance(fn, ast.FunctionDef):
                            is_cm = any(pf.dotted(d) == 'classmethod' for d in fn.decorator_list)
                            return mm, fn, is_cm, f'{cn}.{f.attr}'
                        return None
        return None

    def go(x: ast.AST, mod: pf.Module, d: int) -> ast.AST:
        class T(ast.NodeTransformer):
            def visit_Call(self, node: ast.Call):
                self.generic_visit(node)
                if d <= 0 or any(isinstance(a, ast.Starred) for a in node.args) or any(k.arg is None for k in node.keywords):
                    return node
                r = callee(node, mod)
                if r is None:
                    return node
                mm, fn, skip_first, label = r
                ret = pure_return(fn)
                if ret is None:
                    return node
                ps = [a.arg for a in list(fn.args.posonlyargs) + list(fn.args.args)]
                if skip_first:
                    ps = ps[1:]
                kwo = [a.arg for a in fn.args.kwonlyargs]
                if len(node.args) > len(ps) or any(k.arg not in ps + kwo for k in node.keywords):
                    return node
                bind: Dict[str, ast.expr] = dict(zip(ps, node.args))
                for k in node.keywords:
                    if k.arg in bind:
                        return node
                    bind[k.arg] = k.value  # type: ignore[index]
                dfl = dict(zip(([a.arg for a in list(fn.args.posonlyargs) + list(fn.args.args)])[-len(fn.args.defaults):] if fn.args.defaults else [], fn.args.defaults))
                dfl.update({a.arg: v for a, v in zip(fn.args.kwonlyargs, fn.args.kw_defaults) if v is not None})
                for p in ps + kwo:
                    if p not in bind:
                        if p in dfl and isinstance(dfl[p], ast.Constant):
                            bind[p] = dfl[p]
                        else:
                            return node
                # names of the helper's module that are not parameters stay as they are (module constants): only sound to show, the typing rules decide on them
                body = go(ret, mm, d - 1)
                seen.append(label)
                return ast.copy_location(_subst_seq(body, bind), node)
        return T().visit(copy.deepcopy(x))
    out = go(e, m, depth)
    return out, seen  # type: ignore[return-value]
